"""E6 - sibling implementations must agree: normalise two functions and diff them."""

from __future__ import annotations

import ast
import copy
import typing as t

from .load import Func, Repo, strip_docstring, unparse


class _Norm(ast.NodeTransformer):
    def __init__(self, repo: Repo, func: Func, names: t.Dict[str, str], wrappers: t.Sequence[str]) -> None:
        self.repo = repo
        self.func = func
        self.names = names
        self.wrappers = wrappers
        self.locals: t.Dict[str, str] = {}
        self.local_names = set(func.params)
        for n in ast.walk(func.node):
            if isinstance(n, ast.Name) and isinstance(n.ctx, ast.Store):
                self.local_names.add(n.id)

    def visit_Await(self, node: ast.Await) -> ast.AST:
        return self.visit(node.value)

    def visit_AsyncWith(self, node: ast.AsyncWith) -> ast.AST:
        return self.generic_visit(ast.With(items=node.items, body=node.body))

    def visit_AsyncFor(self, node: ast.AsyncFor) -> ast.AST:
        return self.generic_visit(ast.For(target=node.target, iter=node.iter, body=node.body, orelse=node.orelse))

    def visit_Call(self, node: ast.Call) -> ast.AST:
        # self._wrap_sync(f, *args)  ->  f(*args)
        if unparse(node.func) in self.wrappers and node.args:
            node = ast.Call(func=node.args[0], args=node.args[1:], keywords=node.keywords)
        return self.generic_visit(node)

    def visit_Name(self, node: ast.Name) -> ast.AST:
        if node.id in self.local_names:
            if node.id not in self.locals:
                self.locals[node.id] = f"v{len(self.locals)}"
            return ast.Name(id=self.locals[node.id], ctx=node.ctx)
        if node.id in self.names:
            return ast.Name(id=self.names[node.id], ctx=node.ctx)
        ok, v = self.repo.try_fold(node, self.func.mod)
        if ok and isinstance(v, (int, str, bytes, bool, type(None))):
            return ast.Constant(value=v)
        return node

    def visit_Attribute(self, node: ast.Attribute) -> ast.AST:
        txt = unparse(node)
        if txt in self.names:
            return ast.parse(self.names[txt], mode="eval").body
        if not self._has_local(node):
            ok, v = self.repo.try_fold(node, self.func.mod)
            if ok and isinstance(v, (int, str, bytes, bool, type(None))):
                return ast.Constant(value=v)
        return self.generic_visit(node)

    def visit_Subscript(self, node: ast.Subscript) -> ast.AST:
        if not self._has_local(node):
            ok, v = self.repo.try_fold(node, self.func.mod)
            if ok and isinstance(v, (int, str, bytes, bool, type(None))):
                return ast.Constant(value=v)
        return self.generic_visit(node)

    def visit_JoinedStr(self, node: ast.JoinedStr) -> ast.AST:
        return self.generic_visit(node)

    def _has_local(self, node: ast.AST) -> bool:
        return any(isinstance(n, ast.Name) and n.id in self.local_names for n in ast.walk(node))


def normalise(repo: Repo, func: Func, names: t.Optional[t.Dict[str, str]] = None, wrappers: t.Sequence[str] = ("self._wrap_sync",), propagate: bool = True) -> t.List[ast.stmt]:
    body = copy.deepcopy(strip_docstring(list(func.node.body)))
    norm = _Norm(repo, func, names or {}, wrappers)
    # parameters first so that they get the same canonical names in both twins
    for p in func.params:
        norm.locals[p] = f"p{len(norm.locals)}"
    out = [ast.fix_missing_locations(norm.visit(s)) for s in body]
    if propagate:
        out = _propagate_constants(out)
    return out


def _assigned(stmts: t.List[ast.stmt]) -> t.Set[str]:
    out: t.Set[str] = set()
    for s in stmts:
        for n in ast.walk(s):
            if isinstance(n, ast.Name) and isinstance(n.ctx, ast.Store):
                out.add(n.id)
    return out


def _propagate_constants(body: t.List[ast.stmt], env: t.Optional[t.Dict[str, t.Any]] = None) -> t.List[ast.stmt]:
    """Forward substitution of `v = <const>` within a block (and into nested blocks) until v is
    reassigned, dropping the assignment: `ctx = 0; request(ctx, ..)` and `request(0, ..)` compare equal.
    Also fuses `v = E; with v:` into `with E as v:`."""
    env = dict(env or {})

    class Sub(ast.NodeTransformer):
        def visit_Name(self, node: ast.Name) -> ast.AST:
            if isinstance(node.ctx, ast.Load) and node.id in env:
                return ast.Constant(value=env[node.id])
            return node

    out: t.List[ast.stmt] = []
    i = 0
    while i < len(body):
        s = body[i]
        nxt = body[i + 1] if i + 1 < len(body) else None
        if (
            isinstance(s, ast.Assign)
            and len(s.targets) == 1
            and isinstance(s.targets[0], ast.Name)
            and isinstance(nxt, ast.With)
            and len(nxt.items) == 1
            and nxt.items[0].optional_vars is None
            and isinstance(nxt.items[0].context_expr, ast.Name)
            and nxt.items[0].context_expr.id == s.targets[0].id
        ):
            fused = ast.With(items=[ast.withitem(context_expr=s.value, optional_vars=ast.Name(id=s.targets[0].id, ctx=ast.Store()))], body=nxt.body)
            body = body[:i] + [fused] + body[i + 2 :]
            continue
        if isinstance(s, ast.Assign) and len(s.targets) == 1 and isinstance(s.targets[0], ast.Name):
            val = Sub().visit(s.value)
            if isinstance(val, ast.Constant):
                env[s.targets[0].id] = val.value
                i += 1
                continue
        if isinstance(s, (ast.With, ast.If, ast.For, ast.While, ast.Try)):
            s = copy.copy(s)
            for field in ("items", "test", "iter"):
                if hasattr(s, field):
                    v = getattr(s, field)
                    setattr(s, field, [Sub().visit(x) for x in v] if isinstance(v, list) else Sub().visit(v))
            inner_assigned = set()
            for field in ("body", "orelse", "finalbody"):
                blk = getattr(s, field, None)
                if isinstance(blk, list) and blk:
                    inner_assigned |= _assigned(blk)
            loop = isinstance(s, (ast.For, ast.While))
            inner_env = {k: v for k, v in env.items() if not (loop and k in inner_assigned)}
            for field in ("body", "orelse", "finalbody"):
                blk = getattr(s, field, None)
                if isinstance(blk, list) and blk:
                    setattr(s, field, _propagate_constants(blk, inner_env))
            for k in inner_assigned:
                env.pop(k, None)
            out.append(ast.fix_missing_locations(s))
            i += 1
            continue
        s2 = Sub().visit(s)
        for k in _assigned([s]):
            env.pop(k, None)
        out.append(ast.fix_missing_locations(s2))
        i += 1
    return out


def _rename_by_first_use(body: t.List[ast.stmt]) -> t.List[ast.stmt]:
    order: t.Dict[str, str] = {}

    class R(ast.NodeTransformer):
        def visit_Name(self, node: ast.Name) -> ast.AST:
            if node.id.startswith("v") and node.id[1:].isdigit():
                if node.id not in order:
                    order[node.id] = f"w{len(order)}"
                return ast.Name(id=order[node.id], ctx=node.ctx)
            return node

    return [R().visit(s) for s in body]


def _path_signatures(repo: Repo, f: Func, names: t.Dict[str, str]) -> t.List[t.Tuple[t.Any, ...]]:
    """Every control-flow path of f as the sequence of its decisions, calls, stores and its exit, over the
    parameters (named by position), with local names composed away, awaits dropped, the named counterparts
    (`lookup_dc` / `async_lookup_dc` ...) identified and constant sub-expressions folded."""
    from .pathsum import Summary, fact

    summ = Summary(f, prune=True)
    pmap = {p: f"p{i}" for i, p in enumerate(f.params)}

    class R(ast.NodeTransformer):
        def visit_Name(self, node: ast.Name) -> ast.AST:
            if node.id in pmap:
                return ast.Name(id=pmap[node.id], ctx=node.ctx)
            if node.id in names:
                return ast.Name(id=names[node.id], ctx=node.ctx)
            ok, v = repo.try_fold(node, f.mod)
            if ok and isinstance(v, (int, str, bytes, bool, type(None))):
                return ast.Constant(value=v)
            return node

        def visit_Attribute(self, node: ast.Attribute) -> ast.AST:
            txt = unparse(node)
            if txt in names:
                return ast.parse(names[txt], mode="eval").body
            if not any(isinstance(n, ast.Name) and n.id in pmap for n in ast.walk(node)) and not any(isinstance(n, ast.Call) for n in ast.walk(node)):
                ok, v = repo.try_fold(node, f.mod)
                if ok and isinstance(v, (int, str, bytes, bool, type(None))):
                    return ast.Constant(value=v)
            return self.generic_visit(node)

        def visit_Subscript(self, node: ast.Subscript) -> ast.AST:
            if not any(isinstance(n, (ast.Call,)) for n in ast.walk(node)) and not any(isinstance(n, ast.Name) and n.id in pmap for n in ast.walk(node)):
                ok, v = repo.try_fold(node, f.mod)
                if ok and isinstance(v, (int, str, bytes, bool, type(None))):
                    return ast.Constant(value=v)
            return self.generic_visit(node)

        def visit_Call(self, node: ast.Call) -> ast.AST:
            if unparse(node.func) == "self._wrap_sync" and node.args:
                node = ast.Call(func=node.args[0], args=node.args[1:], keywords=node.keywords)
            return self.generic_visit(node)

    def txt(tree: t.Optional[ast.AST]) -> str:
        if tree is None:
            return ""
        return unparse(ast.fix_missing_locations(R().visit(copy.deepcopy(tree))))

    sigs = []
    for ps in summ.paths:
        items: t.List[t.Tuple[t.Any, ...]] = []
        for e in ps.events:
            if e.kind == "cond":
                items.append(("if", fact(ast.parse(txt(e.tree), mode="eval").body, bool(e.pol))))
            elif e.kind == "call":
                items.append(("call", txt(e.tree)))
            else:
                items.append(("store", txt(e.target), txt(e.tree)))
        items.append((ps.exit, txt(ps.value)))
        sigs.append(tuple(items))
    return sorted(set(sigs))


def diff(repo: Repo, a: Func, b: Func, names_a: t.Optional[t.Dict[str, str]] = None, names_b: t.Optional[t.Dict[str, str]] = None) -> t.Optional[t.Tuple[str, str, int]]:
    """None when the twins agree path by path (same decisions, calls with the same arguments in the same order,
    same stores, same result), else (what a does, what b does, index of the first differing step)."""
    # a decorator replaces the function by whatever it returns (memoisation, retries ...): twins carry the same ones
    da = sorted(unparse(d) for d in a.node.decorator_list if unparse(d) not in ("staticmethod", "classmethod"))
    db = sorted(unparse(d) for d in b.node.decorator_list if unparse(d) not in ("staticmethod", "classmethod"))
    if da != db:
        return ("decorators " + (", ".join("@" + x for x in da) or "none"), "decorators " + (", ".join("@" + x for x in db) or "none"), 0)
    sa_, sb_ = _path_signatures(repo, a, names_a or {}), _path_signatures(repo, b, names_b or {})
    if sa_ == sb_:
        return None
    only_a = [x for x in sa_ if x not in sb_]
    only_b = [x for x in sb_ if x not in sa_]
    if only_a and only_b:
        # the closest pair: longest common prefix
        best = (-1, only_a[0], only_b[0])
        for x in only_a[:20]:
            for y in only_b[:20]:
                k = 0
                while k < min(len(x), len(y)) and x[k] == y[k]:
                    k += 1
                if k > best[0]:
                    best = (k, x, y)
        k, x, y = best
        return (" ".join(map(str, x[k])) if k < len(x) else "<path ends>", " ".join(map(str, y[k])) if k < len(y) else "<path ends>", k)
    extra = (only_a or only_b)[0]
    return (" ".join(map(str, extra[-1])) if only_a else "<no such path>", " ".join(map(str, extra[-1])) if only_b else "<no such path>", len(extra) - 1)


def _first_inner_diff(x: ast.stmt, y: ast.stmt, i: int) -> t.Tuple[str, str, int]:
    if type(x) is type(y):
        for field in ("body", "orelse", "finalbody"):
            bx, by = getattr(x, field, None), getattr(y, field, None)
            if isinstance(bx, list) and isinstance(by, list):
                head_x = copy.copy(x)
                head_y = copy.copy(y)
                for (sx, sy) in zip(bx, by):
                    if ast.dump(sx) != ast.dump(sy):
                        # headers equal? then report the inner statement
                        setattr(head_x, "body", [])
                        setattr(head_y, "body", [])
                        return _first_inner_diff(sx, sy, i)
                if len(bx) != len(by):
                    lx = unparse(bx[len(by)]) if len(bx) > len(by) else "<nothing>"
                    ly = unparse(by[len(bx)]) if len(by) > len(bx) else "<nothing>"
                    return (lx, ly, i)
    return (unparse(x)[:300], unparse(y)[:300], i)
