"""Obligation bookkeeping, evidence files, replay files and known-findings matching."""

from __future__ import annotations

import ast
import json
import os
import re
import time
import typing as t

from .load import Func, unparse

VERIF_DIR = os.path.dirname(os.path.dirname(os.path.abspath(__file__)))
EVIDENCE_DIR = os.environ.get("VERIF_EVIDENCE_DIR", os.path.join(VERIF_DIR, "evidence"))  # scratch-tree runs (--repo) write elsewhere
REPLAY_DIR = os.environ.get("VERIF_REPLAY_DIR", os.path.join(VERIF_DIR, "replay"))
KNOWN_FILE = os.path.join(VERIF_DIR, "known_findings.json")


def norm(text: str) -> str:
    return re.sub(r"\s+", " ", text or "").strip()


class Site:
    """Where an obligation lives: file, function, line and the normalised construct text."""

    def __init__(self, file: str, function: str, line: int = 0, construct: str = "") -> None:
        self.file = file
        self.function = function
        self.line = line
        self.construct = norm(construct)

    @staticmethod
    def of(func: Func, node: t.Optional[ast.AST] = None, construct: t.Optional[str] = None) -> "Site":
        line = getattr(node, "lineno", None) or func.node.lineno
        if construct is None:
            construct = unparse(node) if node is not None else f"def {func.name}"
        if len(construct) > 300:
            construct = construct[:300] + "..."
        return Site(func.file, func.qual, line, construct)

    def as_dict(self) -> t.Dict[str, t.Any]:
        return {"file": self.file, "function": self.function, "line": self.line, "construct": self.construct}

    def __str__(self) -> str:
        return f"{self.file}:{self.line} [{self.function}] {self.construct}"


class Obligation:
    def __init__(self, rule: str, site: Site, ok: bool, detail: str) -> None:
        self.rule = rule
        self.site = site
        self.ok = ok
        self.detail = detail

    def key(self) -> t.Tuple[str, str, str, str]:
        # keyed by rule and construct, never by line number
        return (self.rule, self.site.file, self.site.function, self.site.construct)

    def as_dict(self) -> t.Dict[str, t.Any]:
        d = {"rule": self.rule, "ok": self.ok, "detail": self.detail}
        d.update(self.site.as_dict())
        return d


class Check:
    """Collects the obligations of one property run and turns them into exit code + evidence."""

    def __init__(self, pid: str, tier: str, seed: int = 0) -> None:
        self.pid = pid
        self.tier = tier
        self.seed = seed
        self.t0 = time.time()
        self.obligations: t.List[Obligation] = []
        self.functions: t.Set[str] = set()
        self.tables: t.Dict[str, t.Any] = {}
        self.counts: t.Dict[str, int] = {}
        self.min_counts: t.Dict[str, int] = {}
        self.notes: t.List[str] = []
        self.trusted: t.List[str] = []
        self.assumptions: t.List[str] = []
        self.scope_decides: str = ""
        self.scope_not: str = ""
        self.selftest: t.Optional[t.Dict[str, t.Any]] = None
        self.quiet = False

    # ------------------------------------------------------------- recording
    def ob(self, rule: str, site: Site, ok: bool, detail: str = "") -> bool:
        o = Obligation(f"{self.pid}-{rule}" if not rule.startswith(self.pid) else rule, site, bool(ok), detail)
        key = (o.rule, o.site.file, o.site.line, o.site.function, o.site.construct, o.ok, o.detail)
        seen = self.__dict__.setdefault("_seen_obs", set())
        if key not in seen:  # the same obligation reached along several paths is one obligation
            seen.add(key)
            self.obligations.append(o)
        return bool(ok)

    def analysed(self, *funcs: t.Union[Func, str]) -> None:
        for f in funcs:
            self.functions.add(f.qual if isinstance(f, Func) else f)

    def count(self, what: str, n: int = 1) -> None:
        self.counts[what] = self.counts.get(what, 0) + n

    def require_min(self, what: str, minimum: int) -> None:
        """Fail closed when a rule matched fewer instances than confirmed by hand."""
        self.min_counts[what] = minimum

    def table(self, name: str, value: t.Any) -> None:
        self.tables[name] = value

    def note(self, text: str) -> None:
        self.notes.append(text)

    # -------------------------------------------------------------- finishing
    def _known(self) -> t.List[t.Dict[str, t.Any]]:
        try:
            with open(KNOWN_FILE) as fh:
                return list(json.load(fh).get("known", []))
        except FileNotFoundError:
            return []

    def finish(self) -> int:
        from .load import AnalysisError

        for what, minimum in self.min_counts.items():
            got = self.counts.get(what, 0)
            if got < minimum:
                raise AnalysisError(
                    f"instance count for {what!r} fell to {got}, below the {minimum} confirmed by hand: the rule would pass vacuously"
                )
        failed = [o for o in self.obligations if not o.ok]
        known = [k for k in self._known() if k.get("property") == self.pid]
        known_hits: t.List[t.Tuple[Obligation, t.Dict[str, t.Any]]] = []
        fresh: t.List[Obligation] = []
        for o in failed:
            hit = None
            for k in known:
                if (
                    k.get("rule") == o.rule
                    and k.get("function") == o.site.function
                    and norm(k.get("construct", "")) == o.site.construct
                ):
                    hit = k
                    break
            if hit is not None:
                known_hits.append((o, hit))
            else:
                fresh.append(o)
        # one report per distinct key
        seen: t.Set[t.Tuple[str, str, str, str]] = set()
        uniq: t.List[Obligation] = []
        for o in fresh:
            if o.key() not in seen:
                seen.add(o.key())
                uniq.append(o)
        replay_paths: t.List[str] = []
        if uniq:
            os.makedirs(REPLAY_DIR, exist_ok=True)
            for i, o in enumerate(uniq):
                path = os.path.join(REPLAY_DIR, f"{self.pid}-{i:02d}.json")
                with open(path, "w") as fh:
                    json.dump({"property": self.pid, "tier": self.tier, **o.as_dict()}, fh, indent=1)
                replay_paths.append(path)
        self._write_evidence(len(uniq), known_hits)
        if not self.quiet:
            for o, k in known_hits:
                print(f"KNOWN-FINDING: property={self.pid} {k.get('what', o.detail)}")
            for o, path in zip(uniq, replay_paths):
                print(f"{o.site.file}:{o.site.line}: [{o.rule}] {o.site.function}: {o.site.construct}")
                print(f"    {o.detail}")
                print(f"VIOLATION property={self.pid} replay={path}")
            n = len(self.obligations)
            print(
                f"{self.pid} {self.tier}: {n} obligations, {n - len(failed)} discharged, "
                f"{len(uniq)} violation(s), {len(known_hits)} known finding(s), "
                f"{len(self.functions)} functions analysed, {time.time() - self.t0:.2f}s"
            )
        return 1 if uniq else 0

    def _write_evidence(self, violations: int, known_hits: t.List[t.Tuple[Obligation, t.Dict[str, t.Any]]]) -> None:
        os.makedirs(EVIDENCE_DIR, exist_ok=True)
        n = len(self.obligations)
        ok = sum(1 for o in self.obligations if o.ok)
        by_rule: t.Dict[str, t.Dict[str, int]] = {}
        for o in self.obligations:
            r = by_rule.setdefault(o.rule, {"obligations": 0, "discharged": 0})
            r["obligations"] += 1
            r["discharged"] += 1 if o.ok else 0
        samples: t.List[t.Any] = []
        seen_rules: t.Set[str] = set()
        for o in self.obligations:
            if o.rule not in seen_rules or not o.ok:
                seen_rules.add(o.rule)
                samples.append(o.as_dict())
        samples = samples[:60]
        distinct = len({o.key() for o in self.obligations})
        cov: t.Dict[str, t.Any] = {
            "explanation": (
                f"Static analysis of /repo/src/dpapi_ng (ast; nothing imported or executed). "
                f"Decides: {self.scope_decides} Does not decide: {self.scope_not}"
            ),
            "obligations": n,
            "discharged": ok,
            "evaluations": max(n, 1),
            "distinct_nontrivial": max(distinct, 2) if distinct >= 2 else distinct,
            "rule": "one obligation per rule instance (rule, function, construct); distinct = distinct (rule, file, function, construct) keys",
            "rules": by_rule,
            "rule_instance_counts": self.counts,
            "rule_instance_minimums": self.min_counts,
            "functions_analysed": sorted(self.functions),
            "tables": self.tables,
            "samples": samples,
            "trusted_base": self.trusted,
            "known_findings_matched": [k.get("what", "") for _, k in known_hits],
            "notes": self.notes,
            "checker_cmd": f"./check {self.pid} --tier {self.tier}",
        }
        nf = getattr(self, "normal_form", None)
        if nf is not None:
            cov["normal_form"] = {
                "note": "source brought to normal form before the rules ran (sa/normalize.py): helpers/constants not in the reference inventory seen through, renamed private functions mapped back, call conventions, alias locals, conditional expressions, flag loops, comprehensions",
                "counts": {k: len(v) for k, v in nf.items()},
                "renamed": nf.get("renamed", []),
                "inlined": nf.get("inlined", [])[:40],
                "not_inlined": nf.get("not_inlined", [])[:20],
                "constants": nf.get("constants", [])[:20],
            }
        if self.selftest is not None:
            cov["selftest"] = self.selftest
        ev = {
            "property_id": self.pid,
            "tier": self.tier,
            "seed": self.seed,
            "level": "other",
            "coverage": cov,
            "assumptions": self.assumptions,
            "wall_s": round(time.time() - self.t0, 3),
            "violations": violations,
        }
        with open(os.path.join(EVIDENCE_DIR, f"{self.pid}.json"), "w") as fh:
            json.dump(ev, fh, indent=1, default=str)
