"""E7 - reaching definitions over the statement CFG and small provenance helpers."""

from __future__ import annotations

import ast
import typing as t

from .cfg import CFG, Node, build
from .load import Func, unparse

ENTRY_DEF = -1


class Def:
    """A definition of `var` at CFG node `nid`: value expression and, for tuple unpacking, the element index."""

    def __init__(self, var: str, nid: int, value: t.Optional[ast.expr], index: t.Optional[int], stmt: t.Optional[ast.AST], kind: str) -> None:
        self.var = var
        self.nid = nid
        self.value = value
        self.index = index
        self.stmt = stmt
        self.kind = kind  # assign | aug | for | with | param | except
        self.star = False  # `*var` in a tuple target: var is the list of the elements from `index` on (when the star comes last)
        self.after_star = False  # an element after a starred one: its position counts from the end

    def __repr__(self) -> str:
        return f"Def({self.var}@{self.nid}:{self.kind}:{unparse(self.value)[:40] if self.value is not None else ''}{'' if self.index is None else '[' + str(self.index) + ']'})"


def _targets(target: ast.expr, value: t.Optional[ast.expr], nid: int, stmt: ast.AST, kind: str) -> t.List[Def]:
    out: t.List[Def] = []
    if isinstance(target, ast.Name):
        out.append(Def(target.id, nid, value, None, stmt, kind))
    elif isinstance(target, (ast.Tuple, ast.List)):
        seen_star = False
        for i, el in enumerate(target.elts):
            if isinstance(el, ast.Name):
                d = Def(el.id, nid, value, i, stmt, kind)
                d.after_star = seen_star
                out.append(d)
            elif isinstance(el, ast.Starred) and isinstance(el.value, ast.Name):
                d = Def(el.value.id, nid, value, i, stmt, kind)
                d.star = True
                d.after_star = i != len(target.elts) - 1
                seen_star = True
                out.append(d)
            else:
                out += _targets(el, None, nid, stmt, kind)
    elif isinstance(target, ast.Attribute):
        out.append(Def(unparse(target), nid, value, None, stmt, kind))
    elif isinstance(target, ast.Starred):
        out += _targets(target.value, None, nid, stmt, kind)
    return out


class ReachingDefs:
    def __init__(self, func: Func, cfg: t.Optional[CFG] = None) -> None:
        self.func = func
        self.cfg = cfg or build(func.node)
        self.defs_at: t.Dict[int, t.List[Def]] = {}
        self.all_defs: t.List[Def] = []
        self._collect()
        self.inn: t.Dict[int, t.Dict[str, t.FrozenSet[int]]] = {}
        self._solve()

    def _collect(self) -> None:
        g = self.cfg
        params = [Def(p, ENTRY_DEF, None, None, None, "param") for p in self.func.params]
        self.defs_at[g.entry] = params
        for n in g.nodes:
            ds: t.List[Def] = []
            a = n.ast
            if n.kind == "for":
                ds += _targets(t.cast(ast.For, a).target, t.cast(ast.For, a).iter, n.id, a, "for")  # type: ignore[arg-type]
            elif n.kind == "with":
                for item in t.cast(ast.With, a).items:
                    if item.optional_vars is not None:
                        ds += _targets(item.optional_vars, item.context_expr, n.id, a, "with")  # type: ignore[arg-type]
            elif n.kind == "stmt" and a is not None:
                if isinstance(a, ast.Assign):
                    for tg in a.targets:
                        ds += _targets(tg, a.value, n.id, a, "assign")
                elif isinstance(a, ast.AnnAssign) and a.value is not None:
                    ds += _targets(a.target, a.value, n.id, a, "assign")
                elif isinstance(a, ast.AugAssign):
                    ds += _targets(a.target, a.value, n.id, a, "aug")
                elif isinstance(a, ast.ExceptHandler) and a.name:
                    ds.append(Def(a.name, n.id, None, None, a, "except"))
            # walrus
            if a is not None and n.kind in ("stmt", "cond"):
                for sub in ast.walk(a) if not isinstance(a, (ast.FunctionDef, ast.AsyncFunctionDef, ast.ClassDef)) else []:
                    if isinstance(sub, ast.NamedExpr) and isinstance(sub.target, ast.Name):
                        ds.append(Def(sub.target.id, n.id, sub.value, None, sub, "assign"))
            if ds:
                self.defs_at.setdefault(n.id, []).extend(ds)
        self.by_index: t.Dict[int, Def] = {}
        for nid, ds in self.defs_at.items():
            for d in ds:
                self.by_index[len(self.all_defs)] = d
                self.all_defs.append(d)

    def _solve(self) -> None:
        g = self.cfg
        idx_of = {id(d): i for i, d in enumerate(self.all_defs)}
        gen: t.Dict[int, t.Dict[str, t.FrozenSet[int]]] = {}
        for nid, ds in self.defs_at.items():
            m: t.Dict[str, t.Set[int]] = {}
            for d in ds:
                if d.kind == "aug":
                    m.setdefault(d.var, set()).add(idx_of[id(d)])
                else:
                    m[d.var] = {idx_of[id(d)]}
            gen[nid] = {k: frozenset(v) for k, v in m.items()}
        inn: t.Dict[int, t.Dict[str, t.FrozenSet[int]]] = {g.entry: {}}
        work = [g.entry]
        while work:
            nid = work.pop()
            cur = dict(inn.get(nid, {}))
            out = dict(cur)
            for var, s in gen.get(nid, {}).items():
                out[var] = s
            for succ, lab in g.succ[nid]:
                old = inn.get(succ)
                if old is None:
                    inn[succ] = dict(out)
                    work.append(succ)
                    continue
                changed = False
                for var, s in out.items():
                    if var not in old:
                        old[var] = s
                        changed = True
                    elif not s <= old[var]:
                        old[var] = old[var] | s
                        changed = True
                if changed:
                    work.append(succ)
        self.inn = inn

    # ---------------------------------------------------------------- queries
    def node_of(self, expr: ast.AST) -> t.Optional[int]:
        for n in self.cfg.nodes:
            if n.ast is None:
                continue
            payloads: t.List[ast.AST]
            if n.kind == "for":
                payloads = [n.ast.iter]  # type: ignore[union-attr]
            elif n.kind == "with":
                payloads = [i.context_expr for i in n.ast.items]  # type: ignore[union-attr]
            elif isinstance(n.ast, (ast.FunctionDef, ast.AsyncFunctionDef, ast.ClassDef)):
                continue
            else:
                payloads = [n.ast]
            for p in payloads:
                for sub in ast.walk(p):
                    if sub is expr:
                        return n.id
        return None

    def reaching(self, var: str, at: t.Union[int, ast.AST]) -> t.List[Def]:
        nid = at if isinstance(at, int) else self.node_of(at)
        if nid is None:
            return []
        return [self.all_defs[i] for i in sorted(self.inn.get(nid, {}).get(var, frozenset()))]

    def single_def(self, var: str, at: t.Union[int, ast.AST]) -> t.Optional[Def]:
        ds = self.reaching(var, at)
        return ds[0] if len(ds) == 1 else None

    def origin(self, expr: ast.expr, at: t.Union[int, ast.AST, None] = None, depth: int = 0) -> t.List[t.Tuple[ast.expr, t.Optional[int]]]:
        """Resolve an expression through plain name copies to its defining expressions
        [(value expr, tuple index or None)]; parameters resolve to their Name node."""
        at = at if at is not None else expr
        if depth > 8 or not isinstance(expr, ast.Name):
            return [(expr, None)]
        ds = self.reaching(expr.id, at)
        if not ds:
            return [(expr, None)]
        out: t.List[t.Tuple[ast.expr, t.Optional[int]]] = []
        for d in ds:
            if d.kind == "param" or d.value is None or d.star or d.after_star:
                out.append((expr, None))
            elif d.index is None and isinstance(d.value, ast.Name) and d.kind == "assign":
                out += self.origin(d.value, d.nid, depth + 1)
            elif d.index is None and isinstance(d.value, ast.Await):
                out.append((d.value.value, None))
            else:
                v = d.value.value if isinstance(d.value, ast.Await) else d.value
                out.append((v, d.index))
        return out


def strip_await(e: ast.expr) -> ast.expr:
    return e.value if isinstance(e, ast.Await) else e


_UID = [0]
_PURE_BUILTINS = {"isinstance", "issubclass", "len", "bool", "type", "hasattr", "callable", "abs", "min", "max"}


def _tag_calls(fn: ast.AST) -> None:
    for n in ast.walk(fn):
        if isinstance(n, ast.Call) and not hasattr(n, "_uid"):
            _UID[0] += 1
            n._uid = _UID[0]  # type: ignore[attr-defined]


def tag_tree(tree: ast.AST) -> ast.AST:
    """Mark every call of a (copied) tree with the uid of its call site, innermost first."""
    # tests spelled with a pure builtin are functions of their operands: two occurrences are one value
    calls = [n for n in ast.walk(tree) if isinstance(n, ast.Call) and hasattr(n, "_uid") and not (isinstance(n.func, ast.Name) and n.func.id in _PURE_BUILTINS)]
    for n in reversed(calls):  # ast.walk is breadth first: reversed visits inner calls before the calls that contain them
        n.func = ast.Name(id=f"{unparse(n.func)}#{n._uid}", ctx=ast.Load())  # type: ignore[attr-defined]
    return tree


def prov_ast(rd: ReachingDefs, expr: ast.expr, at: t.Union[int, ast.AST], depth: int = 0) -> ast.expr:
    """Normal form (as a tree) of an expression in terms of parameters / self / globals only: every local name with a
    single reaching definition is replaced (recursively) by the expression that defines it, so that the result does
    not depend on how locals are named or on how many intermediate variables are used.  Call nodes keep a `_uid` that
    identifies the call *site* (see value_key)."""
    import copy

    if not getattr(rd, "_tagged", False):
        _tag_calls(rd.func.node)
        rd._tagged = True  # type: ignore[attr-defined]
    if depth > 12:
        return copy.deepcopy(expr)

    class Sub(ast.NodeTransformer):
        def visit_Name(self, node: ast.Name) -> ast.AST:
            if not isinstance(node.ctx, ast.Load):
                return node
            ds = rd.reaching(node.id, at)
            if len(ds) != 1 or ds[0].value is None or ds[0].kind not in ("assign",):
                return node
            d = ds[0]
            v: ast.expr = d.value.value if isinstance(d.value, ast.Await) else d.value  # type: ignore[assignment]
            inner = prov_ast(rd, v, d.nid, depth + 1)
            if d.after_star and not d.star:
                return node
            if d.star:
                # `a, b, *rest = E` with the star last: rest = E[2:] (as a list)
                if d.after_star:
                    return node
                return ast.Subscript(value=inner, slice=ast.Slice(lower=ast.Constant(value=d.index), upper=None, step=None), ctx=ast.Load())
            if d.index is not None:
                if isinstance(inner, (ast.Tuple, ast.List)) and d.index < len(inner.elts) and not any(isinstance(e, ast.Starred) for e in inner.elts):
                    return inner.elts[d.index]
                return ast.Subscript(value=inner, slice=ast.Constant(value=d.index), ctx=ast.Load())
            return inner

        def visit_Await(self, node: ast.Await) -> ast.AST:
            return self.visit(node.value)

    try:
        return t.cast(ast.expr, ast.fix_missing_locations(Sub().visit(copy.deepcopy(expr))))
    except RecursionError:
        return copy.deepcopy(expr)


def provenance(rd: ReachingDefs, expr: ast.expr, at: t.Union[int, ast.AST], depth: int = 0) -> str:
    """prov_ast as text."""
    return unparse(prov_ast(rd, expr, at, depth))


def value_key(rd: ReachingDefs, expr: ast.expr, at: t.Union[int, ast.AST, None] = None) -> str:
    """Identity of the *value* of `expr` at `at`: the provenance normal form with every call tagged by its call site,
    so that two names bound to the result of one call are equal and the results of two textually equal calls are not."""
    return unparse(tag_tree(prov_ast(rd, expr, at if at is not None else expr)))


def is_call_free(rd: ReachingDefs, expr: ast.expr, at: t.Union[int, ast.AST, None] = None) -> bool:
    return not any(isinstance(n, (ast.Call, ast.Await)) for n in ast.walk(prov_ast(rd, expr, at if at is not None else expr)))
