"""E4' - TLV shape tables of the CMS classes: the ordered list of ASN.1 items written by
pack(writer) and read by unpack(reader), extracted syntax-directed from the ASN1Writer /
ASN1Reader call idiom."""

from __future__ import annotations

import ast
import typing as t

from .load import AnalysisError, Cls, Func, Repo, unparse

Tag = t.Tuple[str, t.Any, bool]  # (class name, number, constructed)

UNIVERSAL = {
    "boolean": ("UNIVERSAL", 1, False),
    "integer": ("UNIVERSAL", 2, False),
    "octet_string": ("UNIVERSAL", 4, False),
    "object_identifier": ("UNIVERSAL", 6, False),
    "enumerated": ("UNIVERSAL", 10, False),
    "utf8_string": ("UNIVERSAL", 12, False),
    "generalized_time": ("UNIVERSAL", 24, False),
    "sequence": ("UNIVERSAL", 16, True),
    "sequence_of": ("UNIVERSAL", 16, True),
    "set": ("UNIVERSAL", 17, True),
    "set_of": ("UNIVERSAL", 17, True),
}


_CUR_TESTS: t.List[t.Tuple[ast.expr, bool]] = []  # the branch conditions (with polarity) enclosing the statement being read


class Item:
    def __init__(self, kind: str, tag: t.Optional[Tag] = None, field: t.Optional[str] = None, children: t.Optional[t.List["Item"]] = None, optional: t.Optional[str] = None, cls: t.Optional[str] = None, node: t.Optional[ast.AST] = None) -> None:
        self.kind = kind  # prim:<type> | seq | set | nested | raw | repeat
        self.tag = tag
        self.field = field
        self.children = children or []
        self.optional = optional
        self.cls = cls
        self.node = node
        self.tests: t.List[t.Tuple[ast.expr, bool]] = list(_CUR_TESTS)

    def sig(self, with_fields: bool = True) -> t.Tuple[t.Any, ...]:
        return (
            self.kind,
            self.tag,
            self.field if with_fields else None,
            bool(self.optional),
            self.cls,
            tuple(c.sig(with_fields) for c in self.children),
        )

    def describe(self) -> t.Any:
        d: t.Dict[str, t.Any] = {"kind": self.kind}
        if self.tag:
            d["tag"] = f"{self.tag[0]} {self.tag[1]}{' constructed' if self.tag[2] else ''}"
        if self.field:
            d["field"] = self.field
        if self.optional:
            d["optional_when"] = self.optional
        if self.cls:
            d["class"] = self.cls
        if self.children:
            d["children"] = [c.describe() for c in self.children]
        return d


def fold_tag(repo: Repo, f: Func, e: t.Optional[ast.expr], default: Tag, env: t.Optional[t.Dict[str, ast.expr]] = None) -> Tag:
    if e is None:
        return default
    if isinstance(e, ast.Name) and env and e.id in env:
        e = env[e.id]
    if isinstance(e, (ast.Name, ast.Attribute)):
        # a named tag constant (module or class level): its defining expression is the tag
        r = repo.resolve(e, f.mod)
        if r is None and isinstance(e, ast.Attribute) and isinstance(e.value, ast.Name) and e.value.id in ("self", "cls") and f.cls is not None:
            for c in f.cls.mro():
                if e.attr in c.class_consts:
                    r = ("const", c.mod, c.class_consts[e.attr])
                    break
        if isinstance(r, tuple) and r[0] == "const" and not isinstance(r[2], (ast.Name,)):
            return fold_tag(repo, f, r[2], default, None)
    if isinstance(e, ast.Call) and unparse(e.func) == "ASN1Tag":
        kws = {k.arg: k.value for k in e.keywords if k.arg}
        for i, a in enumerate(e.args):
            kws.setdefault(["tag_class", "tag_number", "is_constructed"][i], a)
        tc = unparse(kws["tag_class"]).split(".")[-1]
        okn, num = repo.try_fold(kws["tag_number"], f.mod)
        if not okn:
            # self.choice and similar class level constants
            txt = unparse(kws["tag_number"])
            if txt.startswith("self.") and f.cls is not None:
                fld = f.cls.field(txt[5:])
                if fld is not None and fld.default is not None:
                    okn, num = repo.try_fold(fld.default, repo.classes[fld.owner].mod)
            if not okn:
                raise AnalysisError(f"{f.qual}: tag number {txt} is not constant")
        okc, cons = repo.try_fold(kws["is_constructed"], f.mod)
        return (tc, getattr(num, "value", num), bool(cons))
    if isinstance(e, ast.Call) and unparse(e.func) == "ASN1Tag.universal_tag":
        okn, num = repo.try_fold(e.args[0], f.mod)
        cons = False
        for a in list(e.args[1:2]) + [k.value for k in e.keywords if k.arg == "is_constructed"]:
            cons = bool(isinstance(a, ast.Constant) and a.value)
        return ("UNIVERSAL", getattr(num, "value", num), cons)
    raise AnalysisError(f"{f.qual}: tag expression {unparse(e)} not understood")


class WriterShape:
    def __init__(self, repo: Repo, f: Func) -> None:
        self.repo = repo
        self.f = f
        self.writers: t.Dict[str, t.List[Item]] = {}

    def extract(self, root_writer: str) -> t.List[Item]:
        root: t.List[Item] = []
        self.writers[root_writer] = root
        self.block(self.f.node.body, None)
        return root

    def block(self, stmts: t.Sequence[ast.stmt], optional: t.Optional[str]) -> None:
        for s in stmts:
            if isinstance(s, ast.Expr) and isinstance(s.value, ast.Constant):
                continue
            if isinstance(s, ast.With):
                if len(s.items) != 1 or not isinstance(s.items[0].context_expr, ast.Call) or s.items[0].optional_vars is None:
                    raise AnalysisError(f"{self.f.qual}:{s.lineno}: with statement outside the writer idiom")
                c = s.items[0].context_expr
                fn = c.func
                if not (isinstance(fn, ast.Attribute) and fn.attr.startswith("push_") and isinstance(fn.value, ast.Name) and fn.value.id in self.writers):
                    raise AnalysisError(f"{self.f.qual}:{s.lineno}: with over {unparse(c)}")
                typ = fn.attr[len("push_") :]
                targ = c.args[0] if c.args else next((k.value for k in c.keywords if k.arg == "tag"), None)
                tag = fold_tag(self.repo, self.f, targ, UNIVERSAL[typ])
                item = Item("set" if typ.startswith("set") else "seq", tag, optional=optional, node=s)
                self.writers[fn.value.id].append(item)
                self.writers[unparse(s.items[0].optional_vars)] = item.children
                self.block(s.body, None)
                continue
            if isinstance(s, ast.If):
                if s.orelse:
                    raise AnalysisError(f"{self.f.qual}:{s.lineno}: if/else in a writer")
                self.block(s.body, unparse(s.test))
                continue
            if isinstance(s, ast.For):
                mark = {k: len(v) for k, v in self.writers.items()}
                self.block(s.body, None)
                for k, v in self.writers.items():
                    new = v[mark.get(k, 0) :]
                    if new:
                        del v[mark.get(k, 0) :]
                        v.append(Item("repeat", field=unparse(s.iter), children=new, node=s))
                continue
            if isinstance(s, ast.Expr) and isinstance(s.value, ast.Call):
                c = s.value
                fn = c.func
                if isinstance(fn, ast.Attribute) and isinstance(fn.value, ast.Name) and fn.value.id in self.writers:
                    w = self.writers[fn.value.id]
                    if fn.attr == "write_raw":
                        w.append(Item("raw", field=unparse(c.args[0]), optional=optional, node=c))
                        continue
                    if fn.attr.startswith("write_"):
                        typ = fn.attr[len("write_") :]
                        targ = c.args[1] if len(c.args) > 1 else next((k.value for k in c.keywords if k.arg == "tag"), None)
                        tag = fold_tag(self.repo, self.f, targ, UNIVERSAL[typ])
                        w.append(Item(f"prim:{typ}", tag, field=unparse(c.args[0]), optional=optional, node=c))
                        continue
                # nested: self.x.pack(w) / ri.pack(rw)
                if isinstance(fn, ast.Attribute) and fn.attr == "pack" and len(c.args) == 1 and isinstance(c.args[0], ast.Name) and c.args[0].id in self.writers:
                    self.writers[c.args[0].id].append(Item("nested", field=unparse(fn.value), optional=optional, node=c))
                    continue
            if isinstance(s, (ast.Assign, ast.Return, ast.Raise, ast.Pass)):
                continue
            raise AnalysisError(f"{self.f.qual}:{s.lineno}: statement outside the writer idiom: {unparse(s)[:80]}")


def _is_read_call(c: ast.AST) -> bool:
    if not (isinstance(c, ast.Call) and isinstance(c.func, ast.Attribute)):
        return False
    a = c.func.attr
    if a.startswith("read_") or a in ("get_remaining_data",):
        return True
    return a == "unpack" and bool(c.args) and isinstance(c.args[0], ast.Name)


def three_address(fn: t.Union[ast.FunctionDef, ast.AsyncFunctionDef]) -> t.Union[ast.FunctionDef, ast.AsyncFunctionDef]:
    """Copy of fn in which every value-reading call (`r.read_x(..)`, `X.unpack(r)`) that is nested inside a larger
    expression is bound to a fresh local first (`xs.append(X.unpack(r))` -> `_r1 = X.unpack(r); xs.append(_r1)`),
    in evaluation order, so that the statement patterns of the reader idiom see one read per assignment."""
    import copy

    counter = [0]

    def hoist(stmt: ast.stmt) -> t.List[ast.stmt]:
        pre: t.List[ast.stmt] = []

        class H(ast.NodeTransformer):
            def visit_IfExp(self, node: ast.IfExp) -> ast.AST:
                node.test = self.visit(node.test)
                return node  # the branches are evaluated conditionally: leave them alone

            def visit_BoolOp(self, node: ast.BoolOp) -> ast.AST:
                node.values[0] = self.visit(node.values[0])
                return node

            def visit_Lambda(self, node: ast.Lambda) -> ast.AST:
                return node

            def _comp(self, node: ast.AST) -> ast.AST:
                return node

            visit_ListComp = visit_SetComp = visit_DictComp = visit_GeneratorExp = _comp

            def visit_Call(self, node: ast.Call) -> ast.AST:
                # a chain r.read_sequence().read_x(): only the outermost call is a value read
                if isinstance(node.func, ast.Attribute) and _is_read_call(node.func.value) and _is_read_call(node):
                    node.args = [self.visit(a) for a in node.args]
                    for k in node.keywords:
                        k.value = self.visit(k.value)
                else:
                    self.generic_visit(node)
                if _is_read_call(node) and not (node.func.attr in ("read_sequence", "read_set", "read_set_of", "read_sequence_of")):  # type: ignore[attr-defined]
                    counter[0] += 1
                    name = f"_r{counter[0]}"
                    pre.append(ast.copy_location(ast.Assign(targets=[ast.Name(id=name, ctx=ast.Store())], value=node), node))
                    return ast.copy_location(ast.Name(id=name, ctx=ast.Load()), node)
                return node

        if isinstance(stmt, ast.Assign) and len(stmt.targets) == 1 and isinstance(stmt.targets[0], ast.Name) and isinstance(stmt.value, ast.Call):
            # the top call itself stays where it is; only reads nested in its arguments move
            top = stmt.value
            h = H()
            if isinstance(top.func, ast.Attribute) and not _is_read_call(top.func.value):
                top.func.value = h.visit(top.func.value)
            top.args = [h.visit(a) for a in top.args]
            for k in top.keywords:
                k.value = h.visit(k.value)
            if not _is_read_call(top) and False:
                pass
            return pre + [stmt]
        if isinstance(stmt, (ast.Assign, ast.AnnAssign, ast.AugAssign, ast.Expr, ast.Return)) and getattr(stmt, "value", None) is not None:
            stmt.value = H().visit(stmt.value)  # type: ignore[union-attr]
            return pre + [stmt]
        return [stmt]

    def block(stmts: t.List[ast.stmt]) -> t.List[ast.stmt]:
        out: t.List[ast.stmt] = []
        for s in stmts:
            for fld in ("body", "orelse", "finalbody"):
                blk = getattr(s, fld, None)
                if isinstance(blk, list) and blk and isinstance(blk[0], ast.stmt):
                    setattr(s, fld, block(blk))
            out.extend(hoist(s))
        return out

    new = copy.deepcopy(fn)
    new.body = block(new.body)
    ast.fix_missing_locations(new)
    return new


class ReaderShape:
    """Readers: variables holding ASN1Reader objects are tracked; each read_* call appends an item to the
    shape list of the reader it is called on.  Items carry the local variable the value is assigned to."""

    def __init__(self, repo: Repo, f: Func) -> None:
        self.repo = repo
        self.f = f
        self.node = three_address(f.node)
        self.readers: t.Dict[str, t.List[Item]] = {}
        self.tagvars: t.Dict[str, ast.expr] = {}
        self.assigned_after_read: t.List[t.Tuple[str, ast.stmt]] = []
        self.read_vars: t.Dict[str, Item] = {}
        self.aliases: t.Dict[str, str] = {}  # local -> the read variable it is a plain copy of
        self.header_tests: t.Dict[str, str] = {}

    def extract(self, root_reader_expr: t.Optional[str], param: str) -> t.List[Item]:
        root: t.List[Item] = []
        self.readers[param] = root
        self.root_param = param
        self.block(self.node.body, None)
        return root

    def reader_call(self, e: ast.expr) -> t.Optional[t.Tuple[t.List[Item], ast.Call, str]]:
        """e = <reader>.read_x(...) possibly chained: returns (list to append to, call, method)."""
        if isinstance(e, ast.Call) and isinstance(e.func, ast.Attribute):
            base = e.func.value
            if isinstance(base, ast.Name) and base.id in self.readers:
                return self.readers[base.id], e, e.func.attr
            if isinstance(base, ast.Call):
                # chained: reader.read_sequence().read_sequence()
                inner = self.reader_call(base)
                if inner is not None and inner[2] in ("read_sequence", "read_set", "read_set_of", "read_sequence_of"):
                    item = self.container(inner[0], inner[1], inner[2], None)
                    return item.children, e, e.func.attr
                if unparse(base.func) == "ASN1Reader" and base.args:
                    lst: t.List[Item] = []
                    self.readers[f"<ASN1Reader({unparse(base.args[0])})>"] = lst
                    self.root_source = unparse(base.args[0])
                    self.root_list = lst
                    return lst, e, e.func.attr
        return None

    def container(self, lst: t.List[Item], call: ast.Call, method: str, optional: t.Optional[str]) -> Item:
        typ = method[len("read_") :]
        targ = next((k.value for k in call.keywords if k.arg == "tag"), call.args[0] if call.args else None)
        tag = fold_tag(self.repo, self.f, targ, UNIVERSAL[typ], self.tagvars)
        item = Item("set" if typ.startswith("set") else "seq", tag, optional=optional, node=call)
        lst.append(item)
        return item

    def block(self, stmts: t.Sequence[ast.stmt], optional: t.Optional[str]) -> None:
        for s in stmts:
            if isinstance(s, ast.Expr) and isinstance(s.value, ast.Constant):
                continue
            if isinstance(s, ast.Assign) and len(s.targets) == 1 and isinstance(s.targets[0], ast.Name):
                name = s.targets[0].id
                v = s.value
                if isinstance(v, ast.Call) and unparse(v.func) == "ASN1Tag":
                    self.tagvars[name] = v
                    continue
                if isinstance(v, ast.Name) and v.id in self.readers and name not in self.read_vars:
                    self.readers[name] = self.readers[v.id]  # another name for the same reader
                    continue
                if isinstance(v, ast.Name) and v.id in self.read_vars and name not in self.readers:
                    # another name for a value that was read: the field correspondence follows the alias
                    self.aliases[name] = self.aliases.get(v.id, v.id)
                    continue
                rc = self.reader_call(v)
                if rc is not None:
                    lst, call, method = rc
                    if method in ("read_sequence", "read_set", "read_set_of", "read_sequence_of"):
                        item = self.container(lst, call, method, optional)
                        self.readers[name] = item.children
                        continue
                    if method == "peek_header":
                        self.header_tests[name] = "peek"
                        continue
                    if method == "get_remaining_data":
                        it = Item("raw", field=name, optional=optional, node=call)
                        lst.append(it)
                        self.read_vars[name] = it
                        continue
                    if method.startswith("read_"):
                        typ = method[len("read_") :]
                        targ = next((k.value for k in call.keywords if k.arg == "tag"), call.args[0] if call.args and typ != "enumerated" else None)
                        tag = fold_tag(self.repo, self.f, targ, UNIVERSAL[typ], self.tagvars)
                        it = Item(f"prim:{typ}", tag, field=name, optional=optional, node=call)
                        lst.append(it)
                        self.read_vars[name] = it
                        continue
                # nested: X.unpack(reader[, header=..])
                if isinstance(v, ast.Call) and isinstance(v.func, ast.Attribute) and v.func.attr == "unpack" and v.args and isinstance(v.args[0], ast.Name) and v.args[0].id in self.readers:
                    it = Item("nested", field=name, optional=optional, cls=unparse(v.func.value), node=v)
                    self.readers[v.args[0].id].append(it)
                    self.read_vars[name] = it
                    continue
                if name in self.read_vars and name not in getattr(self, "_hidden", set()):
                    self.assigned_after_read.append((name, s))
                continue
            if isinstance(s, ast.AnnAssign):
                continue
            if isinstance(s, ast.If):
                cond = unparse(s.test)
                outer = f"{optional} and " if optional else ""
                before_if = set(self.read_vars)
                _CUR_TESTS.append((s.test, True))
                try:
                    self.block(s.body, outer + cond)
                finally:
                    _CUR_TESTS.pop()
                if s.orelse:
                    _CUR_TESTS.append((s.test, False))
                    # what the other branch read is not "read before" for this branch
                    hidden_before = set(getattr(self, "_hidden", set()))
                    self._hidden = hidden_before | (set(self.read_vars) - before_if)  # type: ignore[attr-defined]
                    try:
                        self.block(s.orelse, outer + f"not ({cond})")
                    finally:
                        _CUR_TESTS.pop()
                        self._hidden = hidden_before  # type: ignore[attr-defined]
                continue
            if isinstance(s, ast.Expr) and isinstance(s.value, ast.Call):
                rc0 = self.reader_call(s.value)
                if rc0 is not None and (rc0[2].startswith("read_") or rc0[2] in ("skip_value", "get_remaining_data")):
                    # an element is consumed and thrown away: the writer has no counterpart for it
                    rc0[0].append(Item(f"discarded:{rc0[2]}", field=None, optional=optional, node=s.value))
                continue
            if isinstance(s, ast.While):
                mark = {k: len(v) for k, v in self.readers.items()}
                self.block(s.body, None)
                for k, v in self.readers.items():
                    new = v[mark.get(k, 0) :]
                    if new:
                        del v[mark.get(k, 0) :]
                        v.append(Item("repeat", field=unparse(s.test), children=new, node=s))
                continue
            if isinstance(s, (ast.Return, ast.Raise, ast.Expr, ast.Pass, ast.Break, ast.Continue)):
                continue
            raise AnalysisError(f"{self.f.qual}:{s.lineno}: statement outside the reader idiom: {unparse(s)[:80]}")
