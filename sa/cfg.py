"""E1 - statement level control-flow graph with split short-circuit conditions,
dominators, post-dominators, guard sets and bounded path enumeration.

Node kinds
  entry / ret (normal return exit) / exc (raise exit)
  stmt   : a simple statement (payload = ast.stmt)
  cond   : an atomic condition (payload = ast.expr); out edges labelled True / False
  for    : head of a for loop (payload = ast.For); edges "iter" (body) / "done"
  with   : entry of a with block (payload = ast.With/AsyncWith)
"""

from __future__ import annotations

import ast
import typing as t

from .load import AnalysisError, unparse

FuncNode = t.Union[ast.FunctionDef, ast.AsyncFunctionDef]


class Node:
    __slots__ = ("id", "kind", "ast", "stmt")

    def __init__(self, id: int, kind: str, node: t.Optional[ast.AST], stmt: t.Optional[ast.stmt]) -> None:
        self.id = id
        self.kind = kind
        self.ast = node
        self.stmt = stmt  # enclosing statement

    @property
    def line(self) -> int:
        return getattr(self.ast, "lineno", 0)

    def __repr__(self) -> str:
        return f"<{self.id}:{self.kind}:{unparse(self.ast)[:50] if self.ast is not None else ''}>"


class CFG:
    def __init__(self, fn: FuncNode, asserts_may_pass: bool = False) -> None:
        self.fn = fn
        # python -O removes assert statements: a rule about what *must* happen before a return reads an assert as a
        # test whose failure may also fall through
        self.asserts_may_pass = asserts_may_pass
        self.nodes: t.List[Node] = []
        self.succ: t.Dict[int, t.List[t.Tuple[int, t.Any]]] = {}
        self.pred: t.Dict[int, t.List[t.Tuple[int, t.Any]]] = {}
        self.entry = self._new("entry", None, None).id
        self.ret = self._new("ret", None, None).id
        self.exc = self._new("exc", None, None).id
        self.first_of_stmt: t.Dict[ast.stmt, int] = {}
        self._loop_stack: t.List[t.Tuple[int, t.List[int]]] = []  # (continue target, break sources)
        ends = self._block(fn.body, [(self.entry, None)])
        for src, lab in ends:
            self._edge(src, self.ret, lab)
        self._dom: t.Optional[t.Dict[int, t.Set[int]]] = None
        self._pdom: t.Dict[int, t.Dict[int, t.Set[int]]] = {}

    # --------------------------------------------------------------- building
    def _new(self, kind: str, node: t.Optional[ast.AST], stmt: t.Optional[ast.stmt]) -> Node:
        n = Node(len(self.nodes), kind, node, stmt)
        self.nodes.append(n)
        self.succ[n.id] = []
        self.pred[n.id] = []
        return n

    def _edge(self, a: int, b: int, label: t.Any = None) -> None:
        self.succ[a].append((b, label))
        self.pred[b].append((a, label))

    def _link(self, ins: t.List[t.Tuple[int, t.Any]], target: int) -> None:
        for src, lab in ins:
            self._edge(src, target, lab)

    def _cond(self, expr: ast.expr, ins: t.List[t.Tuple[int, t.Any]], stmt: ast.stmt) -> t.Tuple[t.List[t.Tuple[int, t.Any]], t.List[t.Tuple[int, t.Any]]]:
        """Build nodes for a condition, return (true-outs, false-outs)."""
        if isinstance(expr, ast.BoolOp):
            if isinstance(expr.op, ast.And):
                falses: t.List[t.Tuple[int, t.Any]] = []
                cur = ins
                for v in expr.values:
                    tr, fa = self._cond(v, cur, stmt)
                    falses += fa
                    cur = tr
                return cur, falses
            else:
                trues: t.List[t.Tuple[int, t.Any]] = []
                cur = ins
                for v in expr.values:
                    tr, fa = self._cond(v, cur, stmt)
                    trues += tr
                    cur = fa
                return trues, cur
        if isinstance(expr, ast.UnaryOp) and isinstance(expr.op, ast.Not):
            tr, fa = self._cond(expr.operand, ins, stmt)
            return fa, tr
        n = self._new("cond", expr, stmt)
        self._link(ins, n.id)
        if isinstance(expr, ast.Constant):
            if expr.value:
                return [(n.id, True)], []
            return [], [(n.id, False)]
        return [(n.id, True)], [(n.id, False)]

    def _block(self, body: t.List[ast.stmt], ins: t.List[t.Tuple[int, t.Any]]) -> t.List[t.Tuple[int, t.Any]]:
        cur = ins
        for st in body:
            if not cur:
                # unreachable code is still given nodes (entry-less) so that lookups work
                pass
            cur = self._stmt(st, cur)
        return cur

    def _stmt(self, st: ast.stmt, ins: t.List[t.Tuple[int, t.Any]]) -> t.List[t.Tuple[int, t.Any]]:
        mark = len(self.nodes)
        outs = self._stmt_inner(st, ins)
        if len(self.nodes) > mark:
            self.first_of_stmt[st] = mark
        return outs

    def _stmt_inner(self, st: ast.stmt, ins: t.List[t.Tuple[int, t.Any]]) -> t.List[t.Tuple[int, t.Any]]:
        if isinstance(st, ast.If):
            tr, fa = self._cond(st.test, ins, st)
            o1 = self._block(st.body, tr)
            o2 = self._block(st.orelse, fa) if st.orelse else fa
            return o1 + o2
        if isinstance(st, ast.While):
            # loop head is the first cond node; create a junction so back edges have a target
            head = self._new("stmt", None, st)  # junction (payload None)
            self._link(ins, head.id)
            tr, fa = self._cond(st.test, [(head.id, None)], st)
            self._loop_stack.append((head.id, []))
            body_out = self._block(st.body, tr)
            _, breaks = self._loop_stack.pop()
            self._link(body_out, head.id)
            outs = self._block(st.orelse, fa) if st.orelse else fa
            return outs + [(b, None) for b in breaks]
        if isinstance(st, (ast.For, ast.AsyncFor)):
            head = self._new("for", st, st)
            self._link(ins, head.id)
            self._loop_stack.append((head.id, []))
            body_out = self._block(st.body, [(head.id, "iter")])
            _, breaks = self._loop_stack.pop()
            self._link(body_out, head.id)
            done = [(head.id, "done")]
            outs = self._block(st.orelse, done) if st.orelse else done
            return outs + [(b, None) for b in breaks]
        if isinstance(st, (ast.With, ast.AsyncWith)):
            n = self._new("with", st, st)
            self._link(ins, n.id)
            return self._block(st.body, [(n.id, None)])
        if isinstance(st, ast.Try):
            mark = len(self.nodes)
            body_out = self._block(st.body, ins)
            body_nodes = list(range(mark, len(self.nodes)))
            outs = self._block(st.orelse, body_out) if st.orelse else body_out
            h_outs: t.List[t.Tuple[int, t.Any]] = []
            for h in st.handlers:
                hn = self._new("stmt", h, st)  # handler entry; payload = ExceptHandler
                for src, lab in ins:
                    self._edge(src, hn.id, "exc")
                for b in body_nodes:
                    self._edge(b, hn.id, "exc")
                h_outs += self._block(h.body, [(hn.id, None)])
            outs = outs + h_outs
            if st.finalbody:
                outs = self._block(st.finalbody, outs)
            return outs
        if isinstance(st, ast.Return):
            n = self._new("stmt", st, st)
            self._link(ins, n.id)
            self._edge(n.id, self.ret, None)
            return []
        if isinstance(st, ast.Raise):
            n = self._new("stmt", st, st)
            self._link(ins, n.id)
            self._edge(n.id, self.exc, None)
            return []
        if isinstance(st, ast.Break):
            n = self._new("stmt", st, st)
            self._link(ins, n.id)
            if not self._loop_stack:
                raise AnalysisError("break outside loop")
            self._loop_stack[-1][1].append(n.id)
            return []
        if isinstance(st, ast.Continue):
            n = self._new("stmt", st, st)
            self._link(ins, n.id)
            self._edge(n.id, self._loop_stack[-1][0], None)
            return []
        if isinstance(st, ast.Assert):
            tr, fa = self._cond(st.test, ins, st)
            for src, lab in fa:
                self._edge(src, self.exc, lab)
            return tr + (fa if self.asserts_may_pass else [])
        if isinstance(st, (ast.FunctionDef, ast.AsyncFunctionDef, ast.ClassDef)):
            n = self._new("stmt", st, st)
            self._link(ins, n.id)
            return [(n.id, None)]
        if isinstance(st, ast.Match):
            raise AnalysisError("match statement is outside the CFG idiom table")
        n = self._new("stmt", st, st)
        self._link(ins, n.id)
        return [(n.id, None)]

    # ----------------------------------------------------------------- queries
    def reachable(self) -> t.Set[int]:
        seen = {self.entry}
        stack = [self.entry]
        while stack:
            x = stack.pop()
            for y, _ in self.succ[x]:
                if y not in seen:
                    seen.add(y)
                    stack.append(y)
        return seen

    def dominators(self) -> t.Dict[int, t.Set[int]]:
        if self._dom is not None:
            return self._dom
        reach = self.reachable()
        allr = set(reach)
        dom = {n: set(allr) for n in reach}
        dom[self.entry] = {self.entry}
        changed = True
        while changed:
            changed = False
            for n in sorted(reach):
                if n == self.entry:
                    continue
                preds = [p for p, _ in self.pred[n] if p in reach]
                new = set.intersection(*(dom[p] for p in preds)) if preds else set()
                new = new | {n}
                if new != dom[n]:
                    dom[n] = new
                    changed = True
        self._dom = dom
        return dom

    def dominates(self, a: int, b: int) -> bool:
        d = self.dominators()
        return b in d and a in d[b]

    def postdominators(self, exit_id: int) -> t.Dict[int, t.Set[int]]:
        """Post-dominators w.r.t. one exit; nodes that cannot reach it get the empty set."""
        if exit_id in self._pdom:
            return self._pdom[exit_id]
        # nodes that can reach the exit
        can = {exit_id}
        stack = [exit_id]
        while stack:
            x = stack.pop()
            for p, _ in self.pred[x]:
                if p not in can:
                    can.add(p)
                    stack.append(p)
        pd = {n: set(can) for n in can}
        pd[exit_id] = {exit_id}
        changed = True
        while changed:
            changed = False
            for n in sorted(can, reverse=True):
                if n == exit_id:
                    continue
                succs = [s for s, _ in self.succ[n] if s in can]
                new = set.intersection(*(pd[s] for s in succs)) if succs else set()
                new = new | {n}
                if new != pd[n]:
                    pd[n] = new
                    changed = True
        self._pdom[exit_id] = pd
        return pd

    def nodes_where(self, pred: t.Callable[[Node], bool]) -> t.List[Node]:
        reach = self.reachable()
        return [n for n in self.nodes if n.id in reach and pred(n)]

    def nodes_containing(self, target: ast.AST) -> t.List[Node]:
        """CFG nodes whose payload contains the given ast node (identity)."""
        out = []
        for n in self.nodes:
            if n.ast is None or n.kind in ("for", "with"):
                payloads: t.List[ast.AST] = []
                if n.kind == "for":
                    payloads = [n.ast.iter, n.ast.target]  # type: ignore[union-attr]
                elif n.kind == "with":
                    payloads = [i for i in n.ast.items]  # type: ignore[union-attr]
            elif isinstance(n.ast, ast.ExceptHandler):
                payloads = [n.ast.type] if n.ast.type is not None else []
            else:
                payloads = [n.ast]
            for p in payloads:
                for sub in ast.walk(p):
                    if sub is target:
                        out.append(n)
                        break
        return out

    def guards_of(self, node_id: int) -> t.List[t.Tuple[ast.expr, bool]]:
        """Atomic conditions (expr, polarity) that hold on *every* path from entry to node_id.

        A condition node c with polarity p guards n when every path to n leaves c through
        its p edge, i.e. n is not reachable from entry once the p edge of c is removed,
        and c dominates n.
        """
        out: t.List[t.Tuple[ast.expr, bool]] = []
        dom = self.dominators()
        if node_id not in dom:
            return out
        for c in dom[node_id]:
            cn = self.nodes[c]
            if cn.kind != "cond" or c == node_id:
                continue
            for pol in (True, False):
                if not any(lab == pol for _, lab in self.succ[c]):
                    # the edge with this polarity does not exist (constant condition)
                    continue
                if not self._reachable_avoiding(node_id, c, pol):
                    out.append((t.cast(ast.expr, cn.ast), pol))
        return out

    def _reachable_avoiding(self, target: int, cond: int, keep_pol: bool) -> bool:
        """Is target reachable from entry when only the keep_pol edge of cond is *removed*?"""
        seen = {self.entry}
        stack = [self.entry]
        while stack:
            x = stack.pop()
            if x == target:
                return True
            for y, lab in self.succ[x]:
                if x == cond and lab == keep_pol:
                    continue
                if y not in seen:
                    seen.add(y)
                    stack.append(y)
        return target in seen

    # -------------------------------------------------------- path enumeration
    def paths(
        self,
        decide: t.Callable[[Node], t.Optional[bool]],
        start: t.Optional[int] = None,
        max_paths: int = 20000,
        loop_bound: int = 2,
        key: t.Optional[t.Callable[[Node], t.Any]] = None,
        sticky: bool = True,
    ) -> t.Iterator[t.Tuple[t.List[int], int, t.Dict[t.Any, bool]]]:
        """Enumerate paths from start to an exit.  `decide` may fix the outcome of a
        condition node (True/False) or return None to fork.  With `sticky`, a condition keeps
        its first outcome along a path; conditions with the same `key` (default: node id; pass
        the normalised text to treat equal atoms alike) share that outcome.  Every node may be
        visited at most `loop_bound` times per path.  Yields (node ids, exit id, decisions);
        the labels of the edges taken are in `self.last_labels` semantics: path[i] -> path[i+1]
        took label labels[i], available as the 4th element when `with_labels` is used."""
        start = self.entry if start is None else start
        key = key or (lambda n: n.id)
        count = 0
        stack: t.List[t.Tuple[int, t.List[int], t.List[t.Any], t.Dict[int, int], t.Dict[t.Any, bool]]] = [(start, [], [], {}, {})]
        while stack:
            nid, path, labels, visits, decisions = stack.pop()
            path = path + [nid]
            if nid in (self.ret, self.exc):
                count += 1
                if count > max_paths:
                    raise AnalysisError(f"more than {max_paths} paths in {self.fn.name}")
                self.path_labels = labels
                yield path, nid, decisions
                continue
            v = visits.get(nid, 0)
            if v >= loop_bound:
                continue
            visits = dict(visits)
            visits[nid] = v + 1
            node = self.nodes[nid]
            succs = self.succ[nid]
            if node.kind == "cond":
                k = key(node)
                d = decisions.get(k) if sticky else None
                if d is None:
                    d = decide(node)
                if d is not None:
                    for y, lab in succs:
                        if lab == d:
                            stack.append((y, path, labels + [lab], visits, decisions))
                    continue
                for y, lab in succs:
                    dd = dict(decisions)
                    dd[k] = bool(lab)
                    stack.append((y, path, labels + [lab], visits, dd))
                continue
            for y, lab in succs:
                if lab == "exc":
                    continue  # exceptional edges are not followed by path enumeration
                stack.append((y, path, labels + [lab], visits, decisions))


def build(fn: FuncNode, asserts_may_pass: bool = False) -> CFG:
    return CFG(fn, asserts_may_pass)
