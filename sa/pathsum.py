"""E7b - path summaries: what a function computes on each control-flow path, in terms of its inputs only.

For every acyclic path (each loop taken zero or one time) the statements are composed symbolically: a local name is
replaced by the expression that defined it *on this path*, so a path is summarised by
  - the atomic conditions decided along it (with polarity),
  - the calls it makes, in evaluation order, with arguments expressed over parameters / self / globals / earlier calls,
  - the stores to attributes / subscripts it performs,
  - its exit (return value / raised exception).
Call nodes carry the uid of their call *site*, so "the value stored is the result of that very call" is decidable
while local names, temporaries, guard style (early raise vs if/else) and helper extraction (after normalisation)
do not matter.  Nothing is executed.
"""

from __future__ import annotations

import ast
import copy
import typing as t

from .cfg import CFG, Node, build
from .flow import _tag_calls
from .load import AnalysisError, Func, unparse

_INV = {ast.Eq: ast.NotEq, ast.NotEq: ast.Eq, ast.Lt: ast.GtE, ast.GtE: ast.Lt, ast.Gt: ast.LtE, ast.LtE: ast.Gt, ast.In: ast.NotIn, ast.NotIn: ast.In, ast.Is: ast.IsNot, ast.IsNot: ast.Is}
_SYM = {ast.Eq: "==", ast.NotEq: "!=", ast.Lt: "<", ast.LtE: "<=", ast.In: "in", ast.NotIn: "not in", ast.Is: "is", ast.IsNot: "is not"}


def fact(expr: ast.expr, pol: bool) -> str:
    """Canonical text of 'expr evaluates to pol': comparisons oriented (only <, <=; operands of ==/!= sorted)."""
    if isinstance(expr, ast.UnaryOp) and isinstance(expr.op, ast.Not):
        return fact(expr.operand, not pol)
    if isinstance(expr, ast.Compare) and len(expr.ops) == 1:
        op = type(expr.ops[0])
        a, b = unparse(expr.left), unparse(expr.comparators[0])
        if not pol:
            op = _INV[op]
        if op is ast.Gt:
            op, a, b = ast.Lt, b, a
        elif op is ast.GtE:
            op, a, b = ast.LtE, b, a
        if op in (ast.Eq, ast.NotEq) and b < a:
            a, b = b, a
        return f"{a} {_SYM[op]} {b}"
    txt = unparse(expr)
    return txt if pol else f"not ({txt})"


def canon_test(e: ast.expr, pol: bool) -> t.Tuple[ast.expr, bool]:
    """`not x`, `x == 0`, `x != 0`, `bool(x)` read as tests of x itself: (x, truth value of x)."""
    core = e
    while True:
        if isinstance(core, ast.UnaryOp) and isinstance(core.op, ast.Not):
            core, pol = core.operand, not pol
        elif isinstance(core, ast.Compare) and len(core.ops) == 1 and isinstance(core.ops[0], (ast.Eq, ast.NotEq)) and isinstance(core.comparators[0], ast.Constant) and core.comparators[0].value == 0 and not isinstance(core.comparators[0].value, bool):
            pol = pol if isinstance(core.ops[0], ast.NotEq) else not pol
            core = core.left
        elif isinstance(core, ast.Call) and isinstance(core.func, ast.Name) and core.func.id == "bool" and len(core.args) == 1 and not core.keywords:
            core = core.args[0]
        else:
            return core, pol


class Ev:
    __slots__ = ("kind", "node", "tree", "pol", "target")

    def __init__(self, kind: str, node: ast.AST, tree: t.Optional[ast.expr], pol: t.Optional[bool] = None, target: t.Optional[ast.expr] = None) -> None:
        self.kind = kind  # call | store | cond
        self.node = node  # the node in the function's tree
        self.tree = tree  # substituted expression (call / stored value / condition)
        self.pol = pol
        self.target = target  # substituted store target

    def __repr__(self) -> str:
        if self.kind == "cond":
            return f"<cond {fact(t.cast(ast.expr, self.tree), bool(self.pol))}>"
        if self.kind == "store":
            return f"<store {unparse(self.target)} = {unparse(self.tree)}>"
        return f"<call {unparse(self.tree)}>"


class PathSum:
    def __init__(self, owner: "Summary") -> None:
        self.owner = owner
        self.events: t.List[Ev] = []
        self.exit = "fall"
        self.value: t.Optional[ast.expr] = None
        self.exit_node: t.Optional[ast.AST] = None
        self.env: t.Dict[str, ast.expr] = {}

    # ----------------------------------------------------------------- queries
    def text(self, tree: t.Optional[ast.AST]) -> str:
        return self.owner.text(tree)

    def key(self, tree: t.Optional[ast.AST]) -> str:
        return self.owner.key(tree)

    def atoms(self, before: t.Optional[Ev] = None) -> t.List[t.Tuple[ast.expr, bool]]:
        """Atomic conditions known on the path: (expression, truth value); conjunctions known true and disjunctions
        known false (also after substitution of a flag variable) are split."""
        out: t.List[t.Tuple[ast.expr, bool]] = []

        def split(e: ast.expr, pol: bool) -> None:
            if isinstance(e, ast.UnaryOp) and isinstance(e.op, ast.Not):
                split(e.operand, not pol)
            elif isinstance(e, ast.BoolOp) and ((isinstance(e.op, ast.And) and pol) or (isinstance(e.op, ast.Or) and not pol)):
                for v in e.values:
                    split(v, pol)
            elif isinstance(e, ast.Call) and isinstance(e.func, ast.Name) and e.func.id == "bool" and len(e.args) == 1 and not e.keywords:
                split(e.args[0], pol)
            else:
                out.append((e, pol))

        for e in self.events:
            if e is before:
                break
            if e.kind == "cond":
                split(t.cast(ast.expr, e.tree), bool(e.pol))
        return out

    def consistent(self) -> bool:
        """False when the path decides one condition both ways.  Two occurrences count as one condition when they are
        the same test of the same value: equal after substitution (call results identified by call site), with
        `x != 0` / `x == 0` / `not x` read as tests of x, and no call in between that is applied to the value tested."""
        seen: t.Dict[str, bool] = {}
        compound: t.List[t.Tuple[ast.expr, bool]] = []
        for e, pol in self.atoms():
            core, pol = canon_test(e, pol)
            if isinstance(core, ast.Compare) and len(core.ops) == 1 and isinstance(core.ops[0], (ast.Is, ast.IsNot)) and isinstance(core.comparators[0], ast.Constant) and core.comparators[0].value is None:
                continue  # `x is None` and `not x` are different tests
            if isinstance(core, ast.Constant):
                if bool(core.value) != pol:
                    return False  # a test on a value that is a constant on this path, decided the other way
                continue
            if isinstance(core, ast.BoolOp):
                compound.append((core, pol))
                continue
            k = self.owner.key(core)
            if k in seen and seen[k] != pol:
                return False
            seen.setdefault(k, pol)

        def ev(x: ast.expr) -> t.Optional[bool]:
            """Three-valued value of a condition from the atomic decisions of this path."""
            c, p = canon_test(x, True)
            if isinstance(c, ast.BoolOp):
                vals = [ev(v) for v in c.values]
                if isinstance(c.op, ast.And):
                    r: t.Optional[bool] = False if any(v is False for v in vals) else (True if all(v is True for v in vals) else None)
                else:
                    r = True if any(v is True for v in vals) else (False if all(v is False for v in vals) else None)
            else:
                r = seen.get(self.owner.key(c))
            return None if r is None else (r if p else not r)

        for c, pol in compound:
            v = ev(c)
            if v is not None and v != pol:
                return False  # e.g. `a and b` decided false after a and b were each decided true
        return True

    def facts(self, before: t.Optional[Ev] = None, abbr: t.Optional[t.Dict[str, ast.AST]] = None) -> t.Set[str]:
        out: t.Set[str] = set()
        for e, pol in self.atoms(before):
            tr = self.owner.renamed(e)
            if abbr:
                tr = self._abbreviate(tr, abbr)
            out.add(fact(t.cast(ast.expr, tr), pol))
        return out

    def _abbreviate(self, tree: ast.AST, abbr: t.Dict[str, ast.AST]) -> ast.AST:
        keys = {self.owner.key(v): k for k, v in abbr.items()}
        owner = self.owner

        class A(ast.NodeTransformer):
            def visit(self, node: ast.AST) -> t.Any:
                if isinstance(node, ast.expr) and not isinstance(node, (ast.Name, ast.Constant)):
                    k = owner.key(node)
                    if k in keys:
                        return ast.Name(id=keys[k], ctx=ast.Load())
                return self.generic_visit(node)

        return A().visit(copy.deepcopy(tree))

    def short(self, tree: t.Optional[ast.AST], abbr: t.Dict[str, ast.AST]) -> str:
        """Text of a value with the given sub-values (usually earlier call results) replaced by short names."""
        if tree is None:
            return ""
        return unparse(self._abbreviate(self.owner.renamed(tree), abbr))

    def eq_consts(self, repo: t.Any, abbr: t.Optional[t.Dict[str, ast.AST]] = None, before: t.Optional[Ev] = None) -> t.Dict[str, t.Any]:
        """{text of X: constant c} for every equality X == c known on the path where one side folds to a constant."""
        out: t.Dict[str, t.Any] = {}
        mod = self.owner.f.mod
        for e, pol in self.atoms(before):
            if isinstance(e, ast.Compare) and len(e.ops) == 1 and ((isinstance(e.ops[0], ast.Eq) and pol) or (isinstance(e.ops[0], ast.NotEq) and not pol)):
                a, b = e.left, e.comparators[0]
                for x, c in ((a, b), (b, a)):
                    okf, v = repo.try_fold(c, mod)
                    if okf:
                        out[self.short(x, abbr or {})] = getattr(v, "value", v)
                        break
        return out

    def calls(self, *names: str) -> t.List[Ev]:
        out = []
        for e in self.events:
            if e.kind == "call":
                txt = unparse(t.cast(ast.Call, e.node).func)
                if not names or any(txt == n or txt.endswith("." + n) for n in names):
                    out.append(e)
        return out

    def stores(self) -> t.List[Ev]:
        return [e for e in self.events if e.kind == "store"]

    def __repr__(self) -> str:
        return f"<Path {self.exit} {self.text(self.value) if self.value is not None else ''} | {sorted(self.facts())}>"


REPO: t.Any = None  # set by the check driver: lets summaries see through value carriers (NamedTuple / dataclass constructors)


def _carrier_fields(call: ast.AST, mod: t.Any) -> t.Optional[t.Dict[str, ast.expr]]:
    """Ctor(a, b=c) of a package NamedTuple / dataclass -> {field: argument expression} (in field order)."""
    if REPO is None or not isinstance(call, ast.Call) or not isinstance(call.func, (ast.Name, ast.Attribute)):
        return None
    try:
        cls = REPO.resolve(call.func, mod)
    except Exception:
        return None
    from .load import Cls

    if not isinstance(cls, Cls) or not cls.is_dataclass or cls.find_method("__init__") is not None or cls.find_method("__post_init__") is not None:
        return None
    params = [p.name for p in cls.init_params()]
    if len(call.args) > len(params) or any(isinstance(a, ast.Starred) for a in call.args) or any(k.arg is None for k in call.keywords):
        return None
    out: t.Dict[str, ast.expr] = {}
    for p_, a in zip(params, call.args):
        out[p_] = a
    for k in call.keywords:
        out[t.cast(str, k.arg)] = k.value
    if list(out) != [p_ for p_ in params if p_ in out]:
        out = {p_: out[p_] for p_ in params if p_ in out}
    out["__tuple__"] = ast.Constant(value=any(x.endswith("NamedTuple") for x in cls.ext_bases))  # type: ignore[assignment]
    out["__params__"] = ast.Constant(value=",".join(params))  # type: ignore[assignment]
    return out


class _Sub(ast.NodeTransformer):
    def __init__(self, env: t.Dict[str, ast.expr], known: t.Optional[t.Dict[str, bool]] = None, mod: t.Any = None) -> None:
        self.env = env
        self.known = known or {}
        self.bound: t.List[t.Set[str]] = []
        self.mod = mod

    def visit_Attribute(self, node: ast.Attribute) -> ast.AST:
        self.generic_visit(node)
        cf = _carrier_fields(node.value, self.mod)
        if cf is not None and node.attr in cf and isinstance(node.ctx, ast.Load):
            return cf[node.attr]  # Ctor(a=X).a  is  X
        return node

    def visit_Call(self, node: ast.Call) -> ast.AST:
        self.generic_visit(node)
        if any(isinstance(a, ast.Starred) for a in node.args):
            # f(*T) with T a tuple / list display or a NamedTuple carrier built on this path: the elements are the arguments
            args: t.List[ast.expr] = []
            for a in node.args:
                if isinstance(a, ast.Starred):
                    v = a.value
                    cf = _carrier_fields(v, self.mod)
                    if isinstance(v, (ast.Tuple, ast.List)) and not any(isinstance(x, ast.Starred) for x in v.elts):
                        args.extend(v.elts)
                        continue
                    if cf is not None and t.cast(ast.Constant, cf["__tuple__"]).value:
                        params = t.cast(str, t.cast(ast.Constant, cf["__params__"]).value).split(",")
                        if all(p_ in cf for p_ in params):
                            args.extend(cf[p_] for p_ in params)
                            continue
                args.append(a)
            node.args = args
        return node

    def visit_Subscript(self, node: ast.Subscript) -> ast.AST:
        self.generic_visit(node)
        v0 = node.value
        if isinstance(node.ctx, ast.Load) and isinstance(node.slice, ast.Constant) and isinstance(node.slice.value, int):
            if isinstance(v0, ast.Call) and isinstance(v0.func, ast.Name) and v0.func.id == "divmod" and len(v0.args) == 2 and not v0.keywords and node.slice.value in (0, 1):
                return ast.copy_location(ast.BinOp(left=v0.args[0], op=ast.FloorDiv() if node.slice.value == 0 else ast.Mod(), right=v0.args[1]), node)
            if isinstance(v0, (ast.Tuple, ast.List)) and not any(isinstance(x, ast.Starred) for x in v0.elts) and -len(v0.elts) <= node.slice.value < len(v0.elts):
                return v0.elts[node.slice.value]
        cf = _carrier_fields(node.value, self.mod)
        if cf is not None and isinstance(node.slice, ast.Constant) and isinstance(node.slice.value, int) and t.cast(ast.Constant, cf["__tuple__"]).value:
            params = t.cast(str, t.cast(ast.Constant, cf["__params__"]).value).split(",")
            if 0 <= node.slice.value < len(params) and params[node.slice.value] in cf:
                return cf[params[node.slice.value]]
        return node

    def visit_IfExp(self, node: ast.IfExp) -> ast.AST:
        test = self.visit(node.test)
        pol = True
        core = test
        while isinstance(core, ast.UnaryOp) and isinstance(core.op, ast.Not):
            core, pol = core.operand, not pol
        k = self.known.get(unparse(core))
        if k is not None:
            return self.visit(node.body if k == pol else node.orelse)
        node.test = test
        node.body = self.visit(node.body)
        node.orelse = self.visit(node.orelse)
        return node

    def visit_Name(self, node: ast.Name) -> ast.AST:
        if isinstance(node.ctx, ast.Load) and node.id in self.env and not any(node.id in b for b in self.bound):
            return copy.deepcopy(self.env[node.id])
        return node

    def visit_Await(self, node: ast.Await) -> ast.AST:
        return self.visit(node.value)

    def _comp(self, node: t.Any) -> ast.AST:
        names = {n.id for g in node.generators for n in ast.walk(g.target) if isinstance(n, ast.Name)}
        # the first iterable is evaluated in the enclosing scope
        node.generators[0].iter = self.visit(node.generators[0].iter)
        self.bound.append(names)
        for i, g in enumerate(node.generators):
            if i:
                g.iter = self.visit(g.iter)
            g.ifs = [self.visit(x) for x in g.ifs]
        if isinstance(node, ast.DictComp):
            node.key = self.visit(node.key)
            node.value = self.visit(node.value)
        else:
            node.elt = self.visit(node.elt)
        self.bound.pop()
        return node

    visit_ListComp = visit_SetComp = visit_GeneratorExp = visit_DictComp = _comp

    def visit_Lambda(self, node: ast.Lambda) -> ast.AST:
        a = node.args
        self.bound.append({x.arg for x in a.posonlyargs + a.args + a.kwonlyargs})
        node.body = self.visit(node.body)
        self.bound.pop()
        return node


class Summary:
    def __init__(self, f: Func, ref_params: t.Optional[t.List[str]] = None, loop_bound: int = 2, max_paths: int = 4000, prune: bool = False, asserts_may_pass: bool = False) -> None:
        self.f = f
        _tag_calls(f.node)
        self.cfg: CFG = build(f.node, asserts_may_pass)
        self.rename: t.Dict[str, str] = {}
        if ref_params is not None:
            # parameters that kept their reference name stay; the others are matched in order (renames); a parameter the
            # reference does not have (a new optional argument) is a free symbol of the summary
            same = set(f.params) & set(ref_params)
            own_rest = [p for p in f.params if p not in same]
            ref_rest = [r for r in ref_params if r not in same]
            # fewer parameters than the reference: the remaining reference names are simply not inputs any more - an
            # obligation that needs one of them reports that (matching by position stops being meaningful, so only names
            # that are not reference names at all are renamed, in order)
            self.rename = dict(zip(own_rest, ref_rest)) if len(own_rest) >= len(ref_rest) else {}
        self.paths: t.List[PathSum] = []
        g = self.cfg
        n = 0
        atoms = self._ifexp_atoms()
        for path, exit_id, _ in g.paths(lambda nd: None, sticky=False, loop_bound=loop_bound, max_paths=max_paths):
            labels = list(g.path_labels)
            for bits in range(1 << len(atoms)):
                assume = {a: bool(bits >> i & 1) for i, a in enumerate(atoms)}
                ps = self._run(path, labels, exit_id, assume)
                if ps is not None:
                    self.paths.append(ps)
            n += 1
        if prune:
            self.paths = [p for p in self.paths if p.consistent()]
        if not self.paths:
            raise AnalysisError(f"{f.qual}: no complete path")

    # ----------------------------------------------------------------- text
    def renamed(self, tree: ast.AST) -> ast.AST:
        if not self.rename:
            return tree
        rn = self.rename

        class R(ast.NodeTransformer):
            def visit_Name(self, node: ast.Name) -> ast.AST:
                if node.id in rn:
                    return ast.copy_location(ast.Name(id=rn[node.id], ctx=node.ctx), node)
                return node

        return R().visit(copy.deepcopy(tree))

    def text(self, tree: t.Optional[ast.AST]) -> str:
        if tree is None:
            return ""
        return unparse(self.renamed(tree))

    def key(self, tree: t.Optional[ast.AST]) -> str:
        if tree is None:
            return ""
        from .flow import tag_tree

        return unparse(tag_tree(self.renamed(copy.deepcopy(tree))))

    # ----------------------------------------------------------------- execution of one path
    def _ifexp_atoms(self) -> t.List[str]:
        """Tests of conditional *expressions* that are pure and only over never-rebound parameters: a path fixes them
        once (as if the function had branched on them), so `a if c else b` and `if c: .. else: ..` summarise alike."""
        from .normalize import _is_pure, stored_names

        stored = stored_names(self.f.node)
        out: t.List[str] = []
        for n in ast.walk(self.f.node):
            if isinstance(n, ast.IfExp):
                core = n.test
                while isinstance(core, ast.UnaryOp) and isinstance(core.op, ast.Not):
                    core = core.operand
                names = {x.id for x in ast.walk(core) if isinstance(x, ast.Name)}
                if _is_pure(core) and names and names <= set(self.f.params) - stored:
                    txt = unparse(core)
                    if txt not in out:
                        out.append(txt)
        return out[:4]

    def _run(self, path: t.List[int], labels: t.List[t.Any], exit_id: int, assume: t.Optional[t.Dict[str, bool]] = None) -> t.Optional[PathSum]:
        g = self.cfg
        ps = PathSum(self)
        env = ps.env
        known: t.Dict[str, bool] = dict(assume or {})
        for txt, pol in (assume or {}).items():
            ps.events.append(Ev("cond", ast.parse(txt, mode="eval").body, ast.parse(txt, mode="eval").body, pol=pol))

        def sub(e: ast.expr) -> ast.expr:
            return t.cast(ast.expr, _Sub(env, known, self.f.mod).visit(copy.deepcopy(e)))

        def record_calls(exprs: t.Iterable[t.Optional[ast.AST]]) -> None:
            for root in exprs:
                if root is None:
                    continue
                found: t.List[ast.Call] = []

                def post(n: ast.AST) -> None:
                    if isinstance(n, (ast.Lambda, ast.FunctionDef, ast.AsyncFunctionDef)):
                        return
                    for c in ast.iter_child_nodes(n):
                        post(c)
                    if isinstance(n, ast.Call):
                        found.append(n)

                post(root)
                for c in found:
                    ps.events.append(Ev("call", c, sub(c)))

        def assign(target: ast.expr, value: ast.expr, node: ast.AST) -> None:
            if isinstance(target, ast.Name):
                env[target.id] = value
            elif isinstance(target, (ast.Tuple, ast.List)):
                for i, el in enumerate(target.elts):
                    if isinstance(el, ast.Starred):
                        assign(el.value, ast.Subscript(value=value, slice=ast.Slice(lower=ast.Constant(value=i)), ctx=ast.Load()), node)
                        continue
                    cf = _carrier_fields(value, self.f.mod)
                    if isinstance(value, (ast.Tuple, ast.List)) and len(value.elts) == len(target.elts) and not any(isinstance(x, ast.Starred) for x in value.elts):
                        assign(el, value.elts[i], node)
                    elif cf is not None and t.cast(ast.Constant, cf["__tuple__"]).value and i < len(t.cast(str, t.cast(ast.Constant, cf["__params__"]).value).split(",")) and t.cast(str, t.cast(ast.Constant, cf["__params__"]).value).split(",")[i] in cf:
                        assign(el, cf[t.cast(str, t.cast(ast.Constant, cf["__params__"]).value).split(",")[i]], node)
                    else:
                        assign(el, ast.Subscript(value=value, slice=ast.Constant(value=i), ctx=ast.Load()), node)
            else:
                ps.events.append(Ev("store", node, value, target=sub(target)))

        for i, nid in enumerate(path):
            nd: Node = g.nodes[nid]
            a = nd.ast
            lab = labels[i] if i < len(labels) else None
            if a is None:
                continue
            if nd.kind == "cond":
                record_calls([a])
                tree = sub(t.cast(ast.expr, a))
                txt = unparse(tree)
                if assume and txt in assume and assume[txt] != bool(lab):
                    return None  # contradicts the assumption made for the conditional expressions
                if not any(isinstance(x, ast.Call) for x in ast.walk(tree)):
                    known.setdefault(txt, bool(lab))
                ps.events.append(Ev("cond", a, tree, pol=bool(lab)))
                continue
            if nd.kind == "for":
                st = t.cast(ast.For, a)
                if lab == "iter":
                    record_calls([st.iter])
                    it = sub(st.iter)
                    assign(st.target, ast.Subscript(value=it, slice=ast.Name(id="<i>", ctx=ast.Load()), ctx=ast.Load()), st)
                continue
            if nd.kind == "with":
                for item in t.cast(ast.With, a).items:
                    record_calls([item.context_expr])
                    if item.optional_vars is not None:
                        assign(item.optional_vars, sub(item.context_expr), a)
                continue
            if isinstance(a, ast.Assign):
                record_calls([a.value])
                v = sub(a.value)
                for tg in a.targets:
                    record_calls([x for x in ast.iter_child_nodes(tg)] if not isinstance(tg, ast.Name) else [])
                    assign(tg, v, a)
            elif isinstance(a, ast.AnnAssign):
                if a.value is not None:
                    record_calls([a.value])
                    assign(a.target, sub(a.value), a)
            elif isinstance(a, ast.AugAssign):
                record_calls([a.value])
                cur = sub(t.cast(ast.expr, _load(a.target)))
                rhs = sub(a.value)
                if isinstance(a.op, ast.Add) and isinstance(cur, ast.List) and isinstance(rhs, (ast.List, ast.Tuple)):
                    v: ast.expr = ast.List(elts=list(cur.elts) + list(rhs.elts), ctx=ast.Load())  # list += display
                else:
                    v = ast.BinOp(left=cur, op=a.op, right=rhs)
                assign(a.target, v, a)
            elif isinstance(a, ast.Expr):
                record_calls([a.value])
                # a local list display grown in place: L.append(x) / L.extend([..]) / L.insert(0, x)
                c0 = a.value
                if isinstance(c0, ast.Call) and isinstance(c0.func, ast.Attribute) and isinstance(c0.func.value, ast.Name) and isinstance(env.get(c0.func.value.id), ast.List) and not c0.keywords:
                    lst = t.cast(ast.List, env[c0.func.value.id])
                    m_ = c0.func.attr
                    new_l: t.Optional[ast.List] = None
                    if m_ == "append" and len(c0.args) == 1:
                        new_l = ast.List(elts=list(lst.elts) + [sub(c0.args[0])], ctx=ast.Load())
                    elif m_ == "extend" and len(c0.args) == 1 and isinstance(sub(c0.args[0]), (ast.List, ast.Tuple)):
                        new_l = ast.List(elts=list(lst.elts) + list(t.cast(ast.List, sub(c0.args[0])).elts), ctx=ast.Load())
                    elif m_ == "insert" and len(c0.args) == 2 and isinstance(c0.args[0], ast.Constant) and c0.args[0].value == 0:
                        new_l = ast.List(elts=[sub(c0.args[1])] + list(lst.elts), ctx=ast.Load())
                    if new_l is not None:
                        env[c0.func.value.id] = new_l
                    elif m_ not in ("copy", "index", "count"):
                        env[c0.func.value.id] = ast.Name(id=f"<{c0.func.value.id} after {m_}>", ctx=ast.Load())
            elif isinstance(a, ast.Return):
                record_calls([a.value])
                ps.exit, ps.value, ps.exit_node = "return", (sub(a.value) if a.value is not None else ast.Constant(value=None)), a
            elif isinstance(a, ast.Raise):
                record_calls([a.exc])
                ps.exit, ps.value, ps.exit_node = "raise", (sub(a.exc) if a.exc is not None else None), a
            elif isinstance(a, ast.ExceptHandler):
                if a.name:
                    env[a.name] = ast.Name(id=f"<exception {unparse(a.type)}>", ctx=ast.Load())
            elif isinstance(a, ast.Delete):
                for tg in a.targets:
                    if isinstance(tg, ast.Name):
                        env.pop(tg.id, None)
            elif isinstance(a, (ast.FunctionDef, ast.AsyncFunctionDef, ast.ClassDef, ast.Pass, ast.Break, ast.Continue, ast.Import, ast.ImportFrom, ast.Global, ast.Nonlocal)):
                pass
            elif isinstance(a, ast.Assert):
                pass
            else:
                record_calls([x for x in ast.iter_child_nodes(a) if isinstance(x, ast.expr)])
        if exit_id == g.ret and ps.exit == "fall":
            ps.value = ast.Constant(value=None)
            ps.exit = "return"
        elif exit_id == g.exc and ps.exit != "raise":
            ps.exit = "raise"
        return ps

    # ----------------------------------------------------------------- selections
    def returning(self) -> t.List[PathSum]:
        return [p for p in self.paths if p.exit == "return"]

    def raising(self) -> t.List[PathSum]:
        return [p for p in self.paths if p.exit == "raise"]

    def through(self, node: ast.AST) -> t.List[PathSum]:
        """Paths that execute the call / statement `node`."""
        return [p for p in self.paths if any(e.node is node for e in p.events) or p.exit_node is node]


def _load(target: ast.expr) -> ast.expr:
    c = copy.deepcopy(target)
    for n in ast.walk(c):
        if hasattr(n, "ctx"):
            n.ctx = ast.Load()  # type: ignore[attr-defined]
    return c
