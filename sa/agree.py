"""Agreement of a writer segment table with a reader read table (DESIGN 3.4).

``agree`` walks the reader's reads in program order, locates for each the writer
segment at the same (symbolic) offset, checks width / byte order / signedness /
kind, and identifies the value read with the value written, so that later offsets
that depend on length prefixes become comparable.  Finally the object the reader
constructs must hand every field back to the same-named field of the writer.
"""

from __future__ import annotations

import typing as t

from .load import Cls, Func, Repo
from .sym import Atom, Lin, Ref, SBytes, Seg, SObj, SStr, STuple, Unknown
from .symeval import Read, ReadVal, SView, TRef, Unsupported
from . import layout


class Mismatch:
    def __init__(self, what: str, node: t.Any = None, progress: int = 0) -> None:
        self.what = what
        self.node = node
        self.progress = progress

    def __repr__(self) -> str:
        return self.what


class Table:
    """Writer segments with cumulative symbolic offsets."""

    def __init__(self, segs: t.List[Seg], base: t.Optional[Lin] = None) -> None:
        self.segs = segs
        self.offs: t.List[Lin] = []
        cur = base or Lin(0)
        for s in segs:
            self.offs.append(cur)
            if s.width is None:
                raise Unsupported("segment without width")
            cur = cur + s.width
        self.total = cur

    def find(self, lo: Lin) -> t.Optional[int]:
        for i, o in enumerate(self.offs):
            if o == lo and not (self.segs[i].width == 0):
                return i
        for i, o in enumerate(self.offs):
            if o == lo:
                return i
        return None

    def find_inside(self, lo: Lin) -> t.Optional[t.Tuple[int, int]]:
        """(index, delta) when lo falls a constant number of bytes inside a constant width segment."""
        for i, o in enumerate(self.offs):
            d = lo - o
            w = self.segs[i].width
            if d.is_const() and w is not None and w.is_const() and 0 <= d.const < w.const:
                return i, d.const
        return None


def seg_bytes(seg: Seg) -> t.Optional[bytes]:
    if seg.kind == "lit":
        return t.cast(bytes, seg.value)
    if seg.kind == "pad" and seg.width is not None and seg.width.is_const():
        return t.cast(bytes, seg.byte) * seg.width.const
    return None


class Matcher:
    def __init__(self, repo: Repo, table: Table, src: str, self_path: str = "self", size_of: t.Optional[t.Callable[[Cls, str], t.Optional[Lin]]] = None) -> None:
        self.repo = repo
        self.table = table
        self.src = src
        self.rmap: t.Dict[Atom, Lin] = {("end", src): table.total}
        self.vals: t.Dict[int, t.Tuple[str, t.Any]] = {}  # rid -> (kind, writer ref path / value)
        self.pathmap: t.Dict[str, str] = {}  # "<r13>" -> writer ref path
        self.used: t.Set[int] = set()
        self.size_of = size_of
        self.notes: t.List[str] = []
        self.cond_truth: t.Dict[int, bool] = {}

    def sub(self, x: Lin) -> Lin:
        y = x.subst(self.rmap)
        if self.pathmap:
            y = _rename_paths(y, self.pathmap)
        return y

    # ----------------------------------------------------------------- reads
    def read(self, r: Read) -> t.Optional[Mismatch]:
        if r.src != self.src:
            return None  # read of another buffer (parameter passed through)
        lo, hi = self.sub(r.lo), self.sub(r.hi)
        width = hi - lo
        tb = self.table
        if r.kind == "repeat":
            return self.read_repeat(r)
        if r.kind == "lit":
            return self.read_lit(r, lo, hi)
        i = tb.find(lo)
        if i is None:
            ins = tb.find_inside(lo)
            if ins is not None and r.kind == "int":
                j, d = ins
                b = seg_bytes(tb.segs[j])
                if b is not None and width.is_const() and d + width.const <= len(b):
                    self.rmap[("read", r.rid)] = Lin(int.from_bytes(b[d : d + width.const], "little" if r.a.get("order") != "big" else "big"))
                    return None
            return Mismatch(f"reader reads {r.kind} at offset {lo!r} where no writer segment starts (writer offsets: {[repr(o) for o in tb.offs]})", r.node)
        seg = tb.segs[i]
        # skip over zero width segments is handled by find(); literal / padding read as integer
        if r.kind == "int":
            if seg.kind in ("lit", "pad"):
                b = seg_bytes(seg)
                if b is not None and width.is_const() and width.const <= len(b):
                    self.rmap[("read", r.rid)] = Lin(int.from_bytes(b[: width.const], "little" if r.a.get("order") != "big" else "big"))
                    self.used.add(i)
                    return None
                return Mismatch(f"integer read of {width!r} bytes at {lo!r} lands on {seg.kind} segment of width {seg.width!r}", r.node)
            if seg.kind != "int":
                return Mismatch(f"reader decodes an integer at offset {lo!r} but the writer emits a {seg.kind} segment ({_segname(seg)}) there", r.node)
            sw = t.cast(Lin, seg.width)
            order_r, order_w = r.a.get("order"), seg.order
            one_byte = width == 1 and sw == 1
            if sw == width:
                if not one_byte and order_r != "any" and order_r != order_w:
                    return Mismatch(f"byte order differs for {_segname(seg)} at offset {lo!r}: writer {order_w}, reader {order_r}", r.node)
                if bool(r.a.get("signed")) != bool(seg.signed):
                    return Mismatch(f"signedness differs for {_segname(seg)} at offset {lo!r}: writer signed={seg.signed}, reader signed={r.a.get('signed')}", r.node)
            elif width.is_const() and sw.is_const() and width.const < sw.const and order_w == "little" and order_r in ("little", "any") and not seg.signed:
                self.notes.append(f"prefix-read: {width.const} of {sw.const} little-endian bytes of {_segname(seg)}")
            else:
                return Mismatch(f"width differs for {_segname(seg)} at offset {lo!r}: writer {sw!r} bytes, reader {width!r} bytes", r.node)
            self.rmap[("read", r.rid)] = t.cast(Lin, seg.value)
            self.used.add(i)
            return None
        if r.kind in ("uuid", "str"):
            if seg.kind != r.kind:
                return Mismatch(f"reader decodes {r.kind} at offset {lo!r} but the writer emits {seg.kind} ({_segname(seg)})", r.node)
            if seg.width != width:
                return Mismatch(f"width differs for {_segname(seg)} at {lo!r}: writer {seg.width!r}, reader {width!r}", r.node)
            if r.kind == "uuid" and seg.form != r.a.get("form"):
                return Mismatch(f"uuid byte form differs for {_segname(seg)}: writer {seg.form}, reader {r.a.get('form')}", r.node)
            if r.kind == "str" and seg.enc.lower().replace("_", "-") != str(r.a.get("enc")).lower().replace("_", "-"):
                return Mismatch(f"string encoding differs for {_segname(seg)}: writer {seg.enc}, reader {r.a.get('enc')}", r.node)
            self.vals[r.rid] = (r.kind, seg.ref.path)
            self.used.add(i)
            return None
        if r.kind == "nested":
            if seg.kind == "repeat" and len(seg.body) == 1 and seg.body[0].kind == "nested":
                return Mismatch(f"reader decodes one {r.a['cls'].name} at {lo!r} where the writer emits a sequence", r.node)
            if seg.kind != "nested":
                return Mismatch(f"reader decodes nested {r.a['cls'].name} at offset {lo!r} but the writer emits {seg.kind} ({_segname(seg)})", r.node)
            wc, rc = seg.cls, r.a["cls"]
            if not (wc is rc or wc.is_subclass_of(rc) or rc.is_subclass_of(wc)):
                return Mismatch(f"nested codec differs at {lo!r}: writer {wc.name}, reader {rc.name}", r.node)
            self.vals[r.rid] = ("nested", seg.ref.path)
            self.pathmap[f"<r{r.rid}>"] = seg.ref.path
            # the nested value's size: identify writer "size" atom with the class' own layout size
            if self.size_of is not None:
                sz = self.size_of(wc, seg.ref.path)
                if sz is not None:
                    self.rmap[("size", seg.ref.path)] = sz
                    self.table = Table(self.table.segs, self.table.offs[0] if self.table.offs else None)
                    self.table = _retable(self.table, self.rmap)
            self.used.add(i)
            return None
        return Mismatch(f"unknown read kind {r.kind}", r.node)

    def read_lit(self, r: Read, lo: Lin, hi: Lin) -> t.Optional[Mismatch]:
        tb = self.table
        i = tb.find(lo)
        expect = t.cast(bytes, r.a["expect"])
        if i is None:
            return Mismatch(f"reader compares bytes at offset {lo!r} where no writer segment starts", r.node)
        got = b""
        j = i
        known = True
        cur = lo
        while not (cur == hi):
            if j >= len(tb.segs):
                return Mismatch(f"reader compares {len(expect)} bytes at {lo!r} beyond the writer's layout", r.node)
            b = seg_bytes(tb.segs[j])
            if b is None:
                known = False
            else:
                got += b
            self.used.add(j)
            cur = cur + t.cast(Lin, tb.segs[j].width)
            j += 1
            d = hi - cur
            if d.is_const() and d.const < 0:
                # literal ends inside a segment
                if known:
                    got = got[: len(got) + d.const]
                break
            if j - i > 64:
                return Mismatch(f"cannot align compared range [{lo!r},{hi!r}) with writer segments", r.node)
        if known:
            self.cond_truth[r.rid] = got == expect
        self.vals[r.rid] = ("lit", (i, j))
        return None

    def read_repeat(self, r: Read) -> t.Optional[Mismatch]:
        lo = self.sub(r.lo)
        tb = self.table
        i = tb.find(lo)
        count = r.a["count"]
        if i is None or tb.segs[i].kind != "repeat":
            # a loop over zero known structure (e.g. count of unknown commands) must still sit on a repeat segment
            if not r.a["body"] and not r.a["advance"]:
                return None
            at = "nothing" if i is None else f"{tb.segs[i].kind} ({_segname(tb.segs[i])})"
            return Mismatch(f"reader loops over elements at offset {lo!r} but the writer emits {at} there", r.node)
        seg = tb.segs[i]
        if isinstance(count, Lin) and not any(a[0] == "while" for a in count.atoms()):
            c = self.sub(count)
            if not (c == seg.count):
                return Mismatch(f"element count differs at {lo!r}: writer repeats {seg.count!r} times, reader {c!r} times", r.node)
        sub = Matcher(self.repo, Table(seg.body), self.src, size_of=self.size_of)
        sub.rmap = dict(self.rmap)
        sub.pathmap = dict(self.pathmap)
        lid = r.a["lid"]
        for name in r.a["advance"]:
            sub.rmap[("iterbase", lid, name)] = Lin(0)
        sub.rmap[("end", self.src)] = Lin.atom(("end", self.src))
        for br in r.a["body"]:
            mm = sub.read(br)
            if mm is not None:
                mm.what = f"in repeated element: {mm.what}"
                return mm
        elem_w = sub.table.total
        for name, adv in r.a["advance"].items():
            a = sub.sub(adv)
            if not (a == elem_w):
                return Mismatch(f"per-element advance differs at {lo!r}: writer element is {elem_w!r} bytes, reader advances {a!r}", r.node)
            self.rmap[("loopspan", lid, name)] = t.cast(Lin, seg.width)
        self.vals[r.rid] = ("repeat", (seg.over, sub))
        self.vals.update({k: v for k, v in sub.vals.items() if k not in self.vals})
        for k, v in sub.pathmap.items():
            self.pathmap.setdefault(k, v)
        self.used.add(i)
        self.notes += sub.notes
        return None

    # ---------------------------------------------------------------- results
    def value_matches(self, v: t.Any, path: str, wconds: t.List[t.Tuple[t.Any, bool]]) -> t.Optional[str]:
        """None when reader value v is exactly the writer's datum at `path`."""
        if isinstance(v, Lin):
            got = self.sub(v)
            if got == Lin.atom(("field", path)):
                return None
            return f"reader builds {path} from {got!r}"
        if isinstance(v, ReadVal):
            kind, ref = self.vals.get(v.rid, (None, None))
            if ref == path:
                return None
            return f"reader builds {path} from the {kind} written for {ref}"
        if isinstance(v, SView):
            lo, hi = self.sub(v.lo), self.sub(v.hi)
            i = self.table.find(lo)
            if i is None:
                return f"reader slices {path} at offset {lo!r} where no writer segment starts"
            seg = self.table.segs[i]
            if seg.kind not in ("raw",) or seg.ref.path != path:
                return f"reader slices {path} at offset {lo!r} but the writer emits {_segname(seg)} there"
            if not (t.cast(Lin, seg.width) == hi - lo):
                return f"reader slices {hi - lo!r} bytes for {path}, the writer emits {seg.width!r}"
            self.used.add(i)
            return None
        if v is None:
            for c, pol in wconds:
                if c.info.get("truthy") == path and pol is False:
                    return None
            return f"reader yields None for {path} on a path where the writer emitted it"
        if isinstance(v, STuple):
            for k, item in enumerate(v.items):
                m = self.value_matches(item, f"{path}[{k}]", wconds)
                if m:
                    return m
            return None
        if isinstance(v, tuple) and v and v[0] == "rrepeat":
            kind, info = self.vals.get(v[1], (None, None))
            if kind != "repeat":
                return f"reader list for {path} does not come from a matched loop"
            over, sub = info
            if over != path:
                return f"reader builds {path} from the elements written for {over}"
            return sub.value_matches(v[2], f"{path}[*]", wconds) if not isinstance(v[2], tuple) else self._nested_rrepeat(v[2], sub, f"{path}[*]", wconds)
        if isinstance(v, TRef):
            return None if v.path == path.split(".", 1)[-1] else f"reader passes parameter {v.path} as {path}"
        if isinstance(v, SBytes) and len(v.segs) == 1 and v.segs[0].kind == "raw":
            return None if v.segs[0].ref.path == path.split(".", 1)[-1] else f"reader passes {v.segs[0].ref.path} as {path}"
        if isinstance(v, SStr) and len(v.parts) == 1 and isinstance(v.parts[0], Ref):
            return None if v.parts[0].path == path.split(".", 1)[-1] else f"reader passes {v.parts[0].path} as {path}"
        return f"reader value for {path} is not understood: {v!r}"

    def _nested_rrepeat(self, v: t.Any, sub: "Matcher", path: str, wconds: t.List[t.Tuple[t.Any, bool]]) -> t.Optional[str]:
        kind, info = sub.vals.get(v[1], (None, None))
        if kind != "repeat":
            return f"inner list for {path} does not come from a matched loop"
        over, sub2 = info
        if over != path:
            return f"reader builds {path} from the elements written for {over}"
        return sub2.value_matches(v[2], f"{path}[*]", wconds)


def _retable(tb: Table, rmap: t.Dict[Atom, Lin]) -> Table:
    segs = []
    for s in tb.segs:
        if s.width is not None:
            s2 = Seg(s.kind, s.width.subst(rmap), **s.a)
        else:
            s2 = s
        segs.append(s2)
    return Table(segs, tb.offs[0] if tb.offs else None)


def _rename_paths(x: Lin, pathmap: t.Dict[str, str]) -> Lin:
    def ren(a: Atom) -> Atom:
        out = []
        for el in a:
            if isinstance(el, str):
                for k, v in pathmap.items():
                    if el == k or el.startswith(k + "."):
                        el = v + el[len(k) :]
                        break
                out.append(el)
            elif isinstance(el, Lin):
                out.append(_rename_paths(el, pathmap))
            else:
                out.append(el)
        return tuple(out)

    res = Lin(x.const)
    for a, c in x.terms.items():
        res = res + Lin(0, {ren(a): c})
    return res


def _segname(seg: Seg) -> str:
    if seg.kind == "int":
        return f"{seg.value!r}"
    if seg.kind in ("raw", "str", "uuid", "nested"):
        return f"{seg.ref!r}"
    if seg.kind == "lit":
        return f"literal {seg.value.hex()}"
    if seg.kind == "repeat":
        return f"elements of {seg.over}"
    return seg.kind


# ------------------------------------------------------------------ size tables
class Sizes:
    """Symbolic size of a codec's encoding in terms of its own fields."""

    def __init__(self, repo: Repo) -> None:
        self.repo = repo
        self.cache: t.Dict[str, t.Optional[Lin]] = {}

    def size(self, cls: Cls, path: str = "self") -> t.Optional[Lin]:
        if cls.qual not in self.cache:
            self.cache[cls.qual] = None
            f = cls.find_method("pack")
            if f is not None:
                try:
                    paths = layout.writer_paths(self.repo, f)
                    totals = []
                    for p in paths:
                        tb = Table(self._expand(p.segs))
                        totals.append(tb.total)
                    if totals and all(x == totals[0] for x in totals):
                        self.cache[cls.qual] = totals[0]
                except Unsupported:
                    self.cache[cls.qual] = None
        sz = self.cache[cls.qual]
        if sz is None:
            return None
        return _rename_paths(sz, {"self": path}) if path != "self" else sz

    def _expand(self, segs: t.List[Seg]) -> t.List[Seg]:
        out = []
        for s in segs:
            if s.kind == "nested":
                if s.a.get("obj") is not None:
                    inner = delegated_segments(self.repo, s.obj)
                    if inner is not None:
                        out += self._expand(inner)
                        continue
                sz = self.size(s.cls, s.ref.path)
                out.append(Seg(s.kind, sz if sz is not None else s.width, **s.a))
            elif s.kind == "repeat":
                body = self._expand(s.body)
                ew = Table(body).total
                if ew.is_const():
                    out.append(Seg("repeat", t.cast(Lin, s.count).scale(ew.const), **{**s.a, "body": body}))
                else:
                    out.append(Seg("repeat", s.width, **{**s.a, "body": body}))
            else:
                out.append(s)
        return out


def delegated_segments(repo: Repo, obj: SObj) -> t.Optional[t.List[Seg]]:
    """Segments of ``Cls(a, b, c).pack()`` for a literal construction: the class' writer
    table with its fields substituted by the constructor arguments."""
    f = obj.cls.find_method("pack")
    if f is None:
        return None
    env_self = _ObjSelf(obj)
    paths = layout.writer_paths(repo, f, {f.params[0]: env_self})
    if len(paths) != 1:
        return None
    return paths[0].segs


class _ObjSelf(SObj):
    def __init__(self, obj: SObj) -> None:
        super().__init__(obj.cls, dict(obj.fields), obj.ref)


# ------------------------------------------------------------------ top level
class Verdict:
    def __init__(self) -> None:
        self.ok = True
        self.problems: t.List[Mismatch] = []
        self.notes: t.List[str] = []
        self.pairs: t.List[t.Tuple[int, int]] = []
        self.tables: t.Dict[str, t.Any] = {}


def agree_paths(
    repo: Repo,
    wpaths: t.List[layout.WriterPath],
    rpaths: t.List[layout.ReaderPath],
    cls: Cls,
    src: str,
    sizes: Sizes,
    base: int = 0,
    passthrough: t.Sequence[str] = (),
    strip: t.Optional[t.Callable[[t.List[Seg]], t.List[Seg]]] = None,
    fields_from: t.Optional[t.Callable[[str], str]] = None,
) -> Verdict:
    v = Verdict()
    v.tables = {"writer": [p.describe() for p in wpaths], "reader": [p.describe() for p in rpaths]}
    for wi, w in enumerate(wpaths):
        segs = sizes._expand(w.segs)
        if strip is not None:
            segs = strip(segs)
        best: t.Optional[Mismatch] = None
        matched = False
        for ri, r in enumerate(rpaths):
            m = Matcher(repo, Table(segs, Lin(base)), src, size_of=sizes.size)
            prob: t.Optional[Mismatch] = None
            for n, rd in enumerate(r.reads):
                prob = m.read(rd)
                if prob is not None:
                    prob.progress = n
                    break
            if prob is None:
                # decidable reader conditions must hold for this writer path
                for c, pol in r.conds:
                    rid = c.info.get("lit_read")
                    if rid is not None and rid in m.cond_truth:
                        truth = m.cond_truth[rid] != bool(c.info.get("neg"))
                        if truth != pol:
                            prob = Mismatch("reader path not taken for these bytes", None, -1)
                            break
            if prob is None:
                res = r.result
                if not isinstance(res, SObj):
                    prob = Mismatch(f"reader returns {res!r}, not a constructed {cls.name}", None, len(r.reads))
                else:
                    fields = dict(res.fields)
                    for tgt, name, val in r.setattrs:
                        if isinstance(name, str) and name != "=":
                            fields[name] = val
                    for fld in res.cls.init_params():
                        if fld.name not in fields:
                            if fld.default is None:
                                prob = Mismatch(f"reader does not set field {fld.name}", None, len(r.reads))
                                break
                            continue
                    if prob is None:
                        for name, val in fields.items():
                            if name in passthrough:
                                continue
                            path = fields_from(name) if fields_from else f"self.{name}"
                            why = m.value_matches(val, path, w.conds)
                            if why:
                                prob = Mismatch(f"decode(encode(x)).{name} is not x.{name}: {why}", None, len(r.reads) + 1)
                                break
            if prob is None:
                matched = True
                v.pairs.append((wi, ri))
                v.notes += m.notes
                break
            if prob.progress >= 0 and (best is None or prob.progress > best.progress):
                best = prob
        if not matched:
            v.ok = False
            when = ", ".join(f"{'' if p else 'not '}{c.desc}" for c, p in w.conds) or "always"
            b = best or Mismatch("no reader path is taken for the bytes of this writer path")
            b.what = f"writer path [{when}]: {b.what}"
            v.problems.append(b)
    return v
