"""Agreement of a writer segment table with a reader read table (DESIGN 3.4).

``agree`` walks the reader's reads in program order, locates for each the writer
segment at the same (symbolic) offset, checks width / byte order / signedness /
kind, and identifies the value read with the value written, so that later offsets
that depend on length prefixes become comparable.  Finally the object the reader
constructs must hand every field back to the same-named field of the writer.
"""

from __future__ import annotations

import typing as t

from .load import Cls, Func, Repo
from .sym import Atom, Lin, Ref, SBytes, Seg, SObj, SStr, STuple, Unknown
from .symeval import DictMap, Read, ReadVal, SView, TRef, Unsupported, parse_type
from . import layout


class Mismatch:
    def __init__(self, what: str, node: t.Any = None, progress: int = 0) -> None:
        self.what = what
        self.node = node
        self.progress = progress

    def __repr__(self) -> str:
        return self.what


class Table:
    """Writer segments with cumulative symbolic offsets."""

    def __init__(self, segs: t.List[Seg], base: t.Optional[Lin] = None) -> None:
        self.segs = segs
        self.offs: t.List[Lin] = []
        cur = base or Lin(0)
        for s in segs:
            self.offs.append(cur)
            if s.width is None:
                raise Unsupported("segment without width")
            cur = cur + s.width
        self.total = cur

    def find(self, lo: Lin) -> t.Optional[int]:
        for i, o in enumerate(self.offs):
            if o == lo and not (self.segs[i].width == 0):
                return i
        for i, o in enumerate(self.offs):
            if o == lo:
                return i
        return None

    def find_inside(self, lo: Lin) -> t.Optional[t.Tuple[int, int]]:
        """(index, delta) when lo falls a constant number of bytes inside a constant width segment."""
        for i, o in enumerate(self.offs):
            d = lo - o
            w = self.segs[i].width
            if d.is_const() and w is not None and w.is_const() and 0 <= d.const < w.const:
                return i, d.const
        return None


def seg_bytes(seg: Seg) -> t.Optional[bytes]:
    if seg.kind == "lit":
        return t.cast(bytes, seg.value)
    if seg.kind == "pad" and seg.width is not None and seg.width.is_const():
        return t.cast(bytes, seg.byte) * seg.width.const
    return None


class Matcher:
    def __init__(self, repo: Repo, table: Table, src: str, self_path: str = "self", size_of: t.Optional[t.Callable[[Cls, str], t.Optional[Lin]]] = None) -> None:
        self.repo = repo
        self.table = table
        self.src = src
        self.rmap: t.Dict[Atom, Lin] = {("end", src): table.total}
        self.vals: t.Dict[int, t.Tuple[str, t.Any]] = {}  # rid -> (kind, writer ref path / value)
        self.pathmap: t.Dict[str, str] = {}  # "<r13>" -> writer ref path
        self.used: t.Set[int] = set()
        self.size_of = size_of
        self.notes: t.List[str] = []
        self.cond_truth: t.Dict[int, bool] = {}
        self.enums: t.Dict[str, Seg] = {}
        self.extractions: t.List[t.Tuple[str, Lin, int, int]] = []  # (field path, word, mask, shift)
        self.field_types: t.Dict[str, Cls] = {}

    def sub(self, x: Lin) -> Lin:
        y = x.subst(self.rmap)
        if self.pathmap:
            y = _rename_paths(y, self.pathmap)
        return y

    # ----------------------------------------------------------------- reads
    def read(self, r: Read) -> t.Optional[Mismatch]:
        if r.src != self.src:
            return None  # read of another buffer (parameter passed through)
        lo, hi = self.sub(r.lo), self.sub(r.hi)
        width = hi - lo
        tb = self.table
        if r.kind == "repeat":
            return self.read_repeat(r)
        if r.kind == "lit":
            return self.read_lit(r, lo, hi)
        if r.kind in ("str", "raw") and width.is_const() and width.const <= 0:
            self.vals[r.rid] = ("empty", None)  # an empty slice decodes to the empty value
            return None
        i = tb.find(lo)
        if i is None:
            ins = tb.find_inside(lo)
            if ins is not None and r.kind == "int":
                j, d = ins
                b = seg_bytes(tb.segs[j])
                if b is not None and width.is_const() and d + width.const <= len(b):
                    self.rmap[("read", r.rid)] = Lin(int.from_bytes(b[d : d + width.const], "little" if r.a.get("order") != "big" else "big"))
                    return None
            return Mismatch(f"reader reads {r.kind} at offset {lo!r} where no writer segment starts (writer offsets: {[repr(o) for o in tb.offs]})", r.node)
        seg = tb.segs[i]
        # skip over zero width segments is handled by find(); literal / padding read as integer
        if r.kind == "int":
            if seg.kind in ("lit", "pad"):
                b = seg_bytes(seg)
                if b is not None and width.is_const() and width.const <= len(b):
                    self.rmap[("read", r.rid)] = Lin(int.from_bytes(b[: width.const], "little" if r.a.get("order") != "big" else "big"))
                    self.used.add(i)
                    return None
                return Mismatch(f"integer read of {width!r} bytes at {lo!r} lands on {seg.kind} segment of width {seg.width!r}", r.node)
            if seg.kind == "enum":
                if not (seg.width == width):
                    return Mismatch(f"width differs for the code of {_segname(seg)} at {lo!r}: writer {seg.width!r}, reader {width!r}", r.node)
                self.rmap[("read", r.rid)] = Lin.atom(("enumint", seg.ref.path, r.a.get("order")))
                self.enums[seg.ref.path] = seg
                self.used.add(i)
                return None
            if seg.kind != "int":
                return Mismatch(f"reader decodes an integer at offset {lo!r} but the writer emits a {seg.kind} segment ({_segname(seg)}) there", r.node)
            sw = t.cast(Lin, seg.width)
            order_r, order_w = r.a.get("order"), seg.order
            one_byte = width == 1 and sw == 1
            if sw == width:
                if not one_byte and order_r != "any" and order_r != order_w:
                    return Mismatch(f"byte order differs for {_segname(seg)} at offset {lo!r}: writer {order_w}, reader {order_r}", r.node)
                if bool(r.a.get("signed")) != bool(seg.signed):
                    return Mismatch(f"signedness differs for {_segname(seg)} at offset {lo!r}: writer signed={seg.signed}, reader signed={r.a.get('signed')}", r.node)
            elif width.is_const() and sw.is_const() and width.const < sw.const and order_w == "little" and order_r in ("little", "any") and not seg.signed:
                self.notes.append(f"prefix-read: {width.const} of {sw.const} little-endian bytes of {_segname(seg)}")
            else:
                return Mismatch(f"width differs for {_segname(seg)} at offset {lo!r}: writer {sw!r} bytes, reader {width!r} bytes", r.node)
            self.rmap[("read", r.rid)] = t.cast(Lin, seg.value)
            self.used.add(i)
            return None
        if r.kind in ("uuid", "str"):
            if seg.kind != r.kind:
                return Mismatch(f"reader decodes {r.kind} at offset {lo!r} but the writer emits {seg.kind} ({_segname(seg)})", r.node)
            if seg.width != width:
                return Mismatch(f"width differs for {_segname(seg)} at {lo!r}: writer {seg.width!r}, reader {width!r}", r.node)
            if r.kind == "uuid" and seg.form != r.a.get("form"):
                return Mismatch(f"uuid byte form differs for {_segname(seg)}: writer {seg.form}, reader {r.a.get('form')}", r.node)
            if r.kind == "str" and seg.enc.lower().replace("_", "-") != str(r.a.get("enc")).lower().replace("_", "-"):
                return Mismatch(f"string encoding differs for {_segname(seg)}: writer {seg.enc}, reader {r.a.get('enc')}", r.node)
            self.vals[r.rid] = (r.kind, seg.ref.path)
            self.used.add(i)
            return None
        if r.kind == "nested":
            if seg.kind == "repeat" and len(seg.body) == 1 and seg.body[0].kind == "nested":
                return Mismatch(f"reader decodes one {r.a['cls'].name} at {lo!r} where the writer emits a sequence", r.node)
            if seg.kind != "nested":
                return Mismatch(f"reader decodes nested {r.a['cls'].name} at offset {lo!r} but the writer emits {seg.kind} ({_segname(seg)})", r.node)
            wc, rc = seg.cls, r.a["cls"]
            if not (wc is rc or wc.is_subclass_of(rc) or rc.is_subclass_of(wc)):
                return Mismatch(f"nested codec differs at {lo!r}: writer {wc.name}, reader {rc.name}", r.node)
            self.vals[r.rid] = ("nested", seg.ref.path)
            self.pathmap[f"<r{r.rid}>"] = seg.ref.path
            # the nested value's size: identify writer "size" atom with the class' own layout size
            if self.size_of is not None:
                sz = self.size_of(wc, seg.ref.path)
                if sz is not None:
                    self.rmap[("size", seg.ref.path)] = sz
                    self.table = Table(self.table.segs, self.table.offs[0] if self.table.offs else None)
                    self.table = _retable(self.table, self.rmap)
            self.used.add(i)
            return None
        return Mismatch(f"unknown read kind {r.kind}", r.node)

    def read_lit(self, r: Read, lo: Lin, hi: Lin) -> t.Optional[Mismatch]:
        tb = self.table
        i = tb.find(lo)
        expect = t.cast(bytes, r.a["expect"])
        if i is None:
            return Mismatch(f"reader compares bytes at offset {lo!r} where no writer segment starts", r.node)
        got = b""
        j = i
        known = True
        cur = lo
        while not (cur == hi):
            if j >= len(tb.segs):
                return Mismatch(f"reader compares {len(expect)} bytes at {lo!r} beyond the writer's layout", r.node)
            b = seg_bytes(tb.segs[j])
            if b is None:
                known = False
            else:
                got += b
            self.used.add(j)
            cur = cur + t.cast(Lin, tb.segs[j].width)
            j += 1
            d = hi - cur
            if d.is_const() and d.const < 0:
                # literal ends inside a segment
                if known:
                    got = got[: len(got) + d.const]
                break
            if j - i > 64:
                return Mismatch(f"cannot align compared range [{lo!r},{hi!r}) with writer segments", r.node)
        if known:
            self.cond_truth[r.rid] = got == expect
        self.vals[r.rid] = ("lit", (i, j))
        return None

    def read_repeat(self, r: Read) -> t.Optional[Mismatch]:
        lo = self.sub(r.lo)
        tb = self.table
        i = tb.find(lo)
        count = r.a["count"]
        if i is None or tb.segs[i].kind != "repeat":
            # a loop over zero known structure (e.g. count of unknown commands) must still sit on a repeat segment
            if not r.a["body"] and not r.a["advance"]:
                return None
            at = "nothing" if i is None else f"{tb.segs[i].kind} ({_segname(tb.segs[i])})"
            return Mismatch(f"reader loops over elements at offset {lo!r} but the writer emits {at} there", r.node)
        seg = tb.segs[i]
        if isinstance(count, Lin) and not any(a[0] == "while" for a in count.atoms()):
            c = self.sub(count)
            if not (c == seg.count):
                return Mismatch(f"element count differs at {lo!r}: writer repeats {seg.count!r} times, reader {c!r} times", r.node)
        sub = Matcher(self.repo, Table(seg.body), self.src, size_of=self.size_of)
        sub.rmap = dict(self.rmap)
        sub.pathmap = dict(self.pathmap)
        lid = r.a["lid"]
        for name in r.a["advance"]:
            sub.rmap[("iterbase", lid, name)] = Lin(0)
        sub.rmap[("end", self.src)] = Lin.atom(("end", self.src))
        for br in r.a["body"]:
            mm = sub.read(br)
            if mm is not None:
                mm.what = f"in repeated element: {mm.what}"
                return mm
        elem_w = sub.table.total
        for name, adv in r.a["advance"].items():
            a = sub.sub(adv)
            if not (a == elem_w):
                return Mismatch(f"per-element advance differs at {lo!r}: writer element is {elem_w!r} bytes, reader advances {a!r}", r.node)
            self.rmap[("loopspan", lid, name)] = t.cast(Lin, seg.width)
        self.vals[r.rid] = ("repeat", (seg.over, sub))
        self.vals.update({k: v for k, v in sub.vals.items() if k not in self.vals})
        for k, v in sub.pathmap.items():
            self.pathmap.setdefault(k, v)
        self.used.add(i)
        self.notes += sub.notes
        return None

    # ---------------------------------------------------------------- results
    def value_matches(self, v: t.Any, path: str, wconds: t.List[t.Tuple[t.Any, bool]]) -> t.Optional[str]:
        """None when reader value v is exactly the writer's datum at `path`."""
        if isinstance(v, Lin):
            got = self.sub(v)
            if got == Lin.atom(("field", path)):
                return None
            bf = self.bitfield(got, path)
            if bf is not None:
                return bf or None
            return f"reader builds {path} from {got!r}"
        if isinstance(v, DictMap):
            key = self.sub(v.key) if isinstance(v.key, Lin) else None
            if key is None or len(key.terms) != 1 or key.const != 0:
                return f"reader maps {path} from {v.key!r}"
            (atom, coef), = key.terms.items()
            if atom[0] != "enumint" or coef != 1:
                return f"reader maps {path} from {key!r}, not from the code the writer emits"
            if atom[1] != path:
                return f"reader maps {path} from the code written for {atom[1]}"
            seg = self.enums[atom[1]]
            order = "big" if atom[2] == "big" else "little"
            for k, b in seg.mapping.items():
                back = v.table.get(int.from_bytes(b, order))
                if back != k:
                    return f"code table disagrees for {path}={k!r}: writer emits {b!r}, reader maps it to {back!r}"
            return None
        if isinstance(v, ReadVal):
            kind, ref = self.vals.get(v.rid, (None, None))
            if ref == path:
                return None
            if kind == "empty":
                if any(c.info.get("truthy") == path and pol is False for c, pol in wconds):
                    return None
                return f"reader yields an empty value for {path} on a path where the writer emitted it"
            return f"reader builds {path} from the {kind} written for {ref}"
        if isinstance(v, SView):
            lo, hi = self.sub(v.lo), self.sub(v.hi)
            i = self.table.find(lo)
            if i is None:
                return f"reader slices {path} at offset {lo!r} where no writer segment starts"
            seg = self.table.segs[i]
            if seg.kind not in ("raw",) or seg.ref.path != path:
                return f"reader slices {path} at offset {lo!r} but the writer emits {_segname(seg)} there"
            if not (t.cast(Lin, seg.width) == hi - lo):
                return f"reader slices {hi - lo!r} bytes for {path}, the writer emits {seg.width!r}"
            self.used.add(i)
            return None
        if v is None:
            for c, pol in wconds:
                if c.info.get("truthy") == path and pol is False:
                    return None
            return f"reader yields None for {path} on a path where the writer emitted it"
        if isinstance(v, STuple):
            for k, item in enumerate(v.items):
                m = self.value_matches(item, f"{path}[{k}]", wconds)
                if m:
                    return m
            return None
        if isinstance(v, tuple) and v and v[0] == "rrepeat":
            kind, info = self.vals.get(v[1], (None, None))
            if kind != "repeat":
                return f"reader list for {path} does not come from a matched loop"
            over, sub = info
            if over != path:
                return f"reader builds {path} from the elements written for {over}"
            return sub.value_matches(v[2], f"{path}[*]", wconds) if not isinstance(v[2], tuple) else self._nested_rrepeat(v[2], sub, f"{path}[*]", wconds)
        if isinstance(v, TRef):
            return None if v.path == path.split(".", 1)[-1] else f"reader passes parameter {v.path} as {path}"
        if isinstance(v, SBytes) and len(v.segs) == 1 and v.segs[0].kind == "raw":
            return None if v.segs[0].ref.path == path.split(".", 1)[-1] else f"reader passes {v.segs[0].ref.path} as {path}"
        if isinstance(v, SStr) and len(v.parts) == 1 and isinstance(v.parts[0], Ref):
            return None if v.parts[0].path == path.split(".", 1)[-1] else f"reader passes {v.parts[0].path} as {path}"
        return f"reader value for {path} is not understood: {v!r}"

    def bitfield(self, got: Lin, path: str) -> t.Optional[str]:
        """Recognise ((word & mask) >> shift) over word = OR of (field << shift).
        Returns None when `got` is not such an extraction, "" when it is a correct
        extraction of `path`, otherwise the reason it is wrong."""
        if got.const != 0 or len(got.terms) != 1:
            return None
        (atom, coef), = got.terms.items()
        if coef != 1:
            return None
        shift = 0
        if atom[0] == "rshift" and isinstance(atom[2], Lin) and atom[2].is_const():
            shift = atom[2].const
            inner = atom[1]
            if inner.const != 0 or len(inner.terms) != 1:
                return None
            (atom, c2), = inner.terms.items()
            if c2 != 1:
                return None
        if atom[0] != "bitand" or not isinstance(atom[2], Lin) or not isinstance(atom[1], Lin):
            return None
        word, mask = (atom[1], atom[2]) if atom[2].is_const() else (atom[2], atom[1])
        if not mask.is_const():
            return None
        terms = _or_terms(word)
        if terms is None:
            return None
        mine = [(f, s) for f, s in terms if f == path]
        if not mine:
            return f"reader extracts {path} from a word that does not contain it ({word!r})"
        wshift = mine[0][1]
        m = mask.const
        if shift != wshift:
            return f"bit position differs for {path}: writer shifts by {wshift}, reader by {shift} (mask {m:#x})"
        if m & ((1 << wshift) - 1) or m <= 0:
            return f"mask {m:#x} for {path} includes bits below its position {wshift}"
        dom = self.domain(path)
        if dom is not None and (dom << wshift) & ~m:
            return f"mask {m:#x} for {path} does not cover its values ({dom:#x} << {wshift})"
        for f, s in terms:
            if f == path:
                continue
            d2 = self.domain(f)
            if d2 is not None and (d2 << s) & m:
                return f"mask {m:#x} for {path} overlaps the bits of {f} ({d2:#x} << {s})"
        for f2, w2, m2, s2 in self.extractions:
            if w2 == word and f2 != path and m2 & m:
                return f"masks for {path} ({m:#x}) and {f2} ({m2:#x}) overlap"
        self.extractions.append((path, word, m, shift))
        return ""

    def domain(self, path: str) -> t.Optional[int]:
        """OR of all values a closed IntEnum/IntFlag field can take (None when open/unknown)."""
        cls = self.field_types.get(path)
        if cls is None:
            return None
        if cls.find_method("_missing_") is not None:
            return None
        dom = 0
        for v in self.repo.enum_members(cls).values():
            if isinstance(v, int):
                dom |= v
        return dom

    def _nested_rrepeat(self, v: t.Any, sub: "Matcher", path: str, wconds: t.List[t.Tuple[t.Any, bool]]) -> t.Optional[str]:
        kind, info = sub.vals.get(v[1], (None, None))
        if kind != "repeat":
            return f"inner list for {path} does not come from a matched loop"
        over, sub2 = info
        if over != path:
            return f"reader builds {path} from the elements written for {over}"
        return sub2.value_matches(v[2], f"{path}[*]", wconds)


def _or_terms(word: Lin) -> t.Optional[t.List[t.Tuple[str, int]]]:
    """word = f1 << s1 | f2 << s2 | ... -> [(field path, shift)]"""
    if word.const != 0 or len(word.terms) != 1:
        return None
    (atom, coef), = word.terms.items()
    if coef != 1:
        return None
    if atom[0] == "field":
        return [(atom[1], 0)]
    if atom[0] == "lshift" and isinstance(atom[1], Lin) and isinstance(atom[2], Lin) and atom[2].is_const():
        inner = _or_terms(atom[1])
        if inner is None:
            return None
        return [(f, s + atom[2].const) for f, s in inner]
    if atom[0] == "bitor":
        out: t.List[t.Tuple[str, int]] = []
        for x in atom[1:]:
            if not isinstance(x, Lin):
                return None
            sub = _or_terms(x)
            if sub is None:
                return None
            out += sub
        return out
    return None


def _retable(tb: Table, rmap: t.Dict[Atom, Lin]) -> Table:
    segs = []
    for s in tb.segs:
        if s.width is not None:
            s2 = Seg(s.kind, s.width.subst(rmap), **s.a)
        else:
            s2 = s
        segs.append(s2)
    return Table(segs, tb.offs[0] if tb.offs else None)


def _rename_paths(x: Lin, pathmap: t.Dict[str, str]) -> Lin:
    def ren(a: Atom) -> Atom:
        out = []
        for el in a:
            if isinstance(el, str):
                for k, v in pathmap.items():
                    if el == k or el.startswith(k + "."):
                        el = v + el[len(k) :]
                        break
                out.append(el)
            elif isinstance(el, Lin):
                out.append(_rename_paths(el, pathmap))
            else:
                out.append(el)
        return tuple(out)

    res = Lin(x.const)
    for a, c in x.terms.items():
        res = res + Lin(0, {ren(a): c})
    return res


def _segname(seg: Seg) -> str:
    if seg.kind == "int":
        return f"{seg.value!r}"
    if seg.kind in ("raw", "str", "uuid", "nested"):
        return f"{seg.ref!r}"
    if seg.kind == "lit":
        return f"literal {seg.value.hex()}"
    if seg.kind == "repeat":
        return f"elements of {seg.over}"
    return seg.kind


# ------------------------------------------------------------------ size tables
class Sizes:
    """Symbolic size of a codec's encoding in terms of its own fields."""

    def __init__(self, repo: Repo) -> None:
        self.repo = repo
        self.cache: t.Dict[str, t.Optional[Lin]] = {}

    def size(self, cls: Cls, path: str = "self") -> t.Optional[Lin]:
        if cls.qual not in self.cache:
            self.cache[cls.qual] = None
            f = cls.find_method("pack")
            if f is not None:
                try:
                    paths = layout.writer_paths(self.repo, f)
                    totals = []
                    for p in paths:
                        tb = Table(self._expand(p.segs))
                        totals.append(tb.total)
                    if totals and all(x == totals[0] for x in totals):
                        self.cache[cls.qual] = totals[0]
                except Unsupported:
                    self.cache[cls.qual] = None
        sz = self.cache[cls.qual]
        if sz is None:
            return None
        return _rename_paths(sz, {"self": path}) if path != "self" else sz

    def _expand(self, segs: t.List[Seg]) -> t.List[Seg]:
        out = []
        for s in segs:
            if s.kind == "nested":
                if s.a.get("obj") is not None:
                    inner = delegated_segments(self.repo, s.obj)
                    if inner is not None:
                        out += self._expand(inner)
                        continue
                sz = self.size(s.cls, s.ref.path)
                out.append(Seg(s.kind, sz if sz is not None else s.width, **s.a))
            elif s.kind == "repeat":
                body = self._expand(s.body)
                ew = Table(body).total
                if ew.is_const():
                    out.append(Seg("repeat", t.cast(Lin, s.count).scale(ew.const), **{**s.a, "body": body}))
                else:
                    out.append(Seg("repeat", s.width, **{**s.a, "body": body}))
            else:
                out.append(s)
        return out


def delegated_segments(repo: Repo, obj: SObj) -> t.Optional[t.List[Seg]]:
    """Segments of ``Cls(a, b, c).pack()`` for a literal construction: the class' writer
    table with its fields substituted by the constructor arguments."""
    f = obj.cls.find_method("pack")
    if f is None:
        return None
    env_self = _ObjSelf(obj)
    paths = layout.writer_paths(repo, f, {f.params[0]: env_self})
    if len(paths) != 1:
        return None
    return paths[0].segs


class _ObjSelf(SObj):
    def __init__(self, obj: SObj) -> None:
        super().__init__(obj.cls, dict(obj.fields), obj.ref)


# ------------------------------------------------------------------ top level
class Verdict:
    def __init__(self) -> None:
        self.ok = True
        self.problems: t.List[Mismatch] = []
        self.notes: t.List[str] = []
        self.pairs: t.List[t.Tuple[int, int]] = []
        self.tables: t.Dict[str, t.Any] = {}


def agree_paths(
    repo: Repo,
    wpaths: t.List[layout.WriterPath],
    rpaths: t.List[layout.ReaderPath],
    cls: Cls,
    src: str,
    sizes: Sizes,
    base: int = 0,
    passthrough: t.Sequence[str] = (),
    strip: t.Optional[t.Callable[[t.List[Seg]], t.List[Seg]]] = None,
    fields_from: t.Optional[t.Callable[[str], str]] = None,
) -> Verdict:
    v = Verdict()
    v.tables = {"writer": [p.describe() for p in wpaths], "reader": [p.describe() for p in rpaths]}
    for wi, w in enumerate(wpaths):
        segs = sizes._expand(w.segs)
        if strip is not None:
            segs = strip(segs)
        best: t.Optional[Mismatch] = None
        matched = False
        content: t.List[Mismatch] = []
        for ri, r in enumerate(rpaths):
            m = Matcher(repo, Table(segs, Lin(base)), src, size_of=sizes.size)
            for fld in cls.fields():
                ty = parse_type(repo, fld.ann, repo.classes[fld.owner].mod)
                if ty[0] == "intenum":
                    m.field_types[f"self.{fld.name}"] = ty[1]
            prob: t.Optional[Mismatch] = None
            for n, rd in enumerate(r.reads):
                prob = m.read(rd)
                if prob is not None:
                    prob.progress = n
                    break
            if prob is None:
                # decidable reader conditions must hold for this writer path
                for c, pol in r.conds:
                    rid = c.info.get("lit_read")
                    if rid is not None and rid in m.cond_truth:
                        truth = m.cond_truth[rid] != bool(c.info.get("neg"))
                        if truth != pol:
                            prob = Mismatch("reader path not taken for these bytes", None, -1)
                            break
            if prob is None:
                res = r.result
                if not isinstance(res, SObj):
                    prob = Mismatch(f"reader returns {res!r}, not a constructed {cls.name}", None, len(r.reads))
                else:
                    fields = dict(res.fields)
                    for tgt, name, val in r.setattrs:
                        if isinstance(name, str) and name != "=":
                            fields[name] = val
                    for fld in res.cls.init_params():
                        if fld.name not in fields:
                            if fld.default is None:
                                prob = Mismatch(f"reader does not set field {fld.name}", None, len(r.reads))
                                break
                            continue
                    if prob is None:
                        for name, val in fields.items():
                            if name in passthrough:
                                continue
                            path = fields_from(name) if fields_from else f"self.{name}"
                            why = m.value_matches(val, path, w.conds)
                            if why:
                                prob = Mismatch(f"decode(encode(x)).{name} is not x.{name}: {why}", None, len(r.reads) + 1)
                                break
            if prob is None:
                if not matched:
                    v.pairs.append((wi, ri))
                    v.notes += m.notes
                matched = True
                continue
            # a reader path that reads these bytes without complaint and is selected by a comparison with *content* the
            # writer path leaves open (a field's own bytes): some values of that field take it, so it must decode them too
            undecided = [c for c, _pol in r.conds if c.info.get("lit_read") is not None and c.info.get("lit_read") not in m.cond_truth]
            if undecided and prob.progress == len(r.reads) + 1 and not _absent_alias(prob.what, undecided, r, m, w, wpaths, sizes, strip, base):
                when0 = ", ".join(f"{'' if p_ else 'not '}{c_.desc}" for c_, p_ in w.conds) or "always"
                content.append(Mismatch(f"writer path [{when0}]: for the field values with {' and '.join(('' if p_ else 'not ') + c_.desc for c_, p_ in r.conds if c_ in undecided)}: {prob.what}", prob.node, prob.progress))
            if prob.progress >= 0 and (best is None or prob.progress > best.progress):
                best = prob
        if matched and content:
            v.ok = False
            v.problems.append(content[0])
        if not matched:
            v.ok = False
            when = ", ".join(f"{'' if p else 'not '}{c.desc}" for c, p in w.conds) or "always"
            b = best or Mismatch("no reader path is taken for the bytes of this writer path")
            b.what = f"writer path [{when}]: {b.what}"
            v.problems.append(b)
    return v


def _absent_alias(what: str, undecided: t.List[t.Any], r: t.Any, m: "Matcher", w: t.Any, wpaths: t.List[t.Any], sizes: "Sizes", strip: t.Any, base: int) -> bool:
    """The reader maps a particular content (all zero bytes) of an optional field to None.  That is a second spelling
    of 'absent' - and re-encoding stays byte identical - exactly when the writer path for the absent field writes that
    very content at that place.  (A field whose absence is signalled elsewhere, e.g. by a flag, has no such path: the
    value is lost and the re-encoded message is shorter.)"""
    if "reader yields None for " not in what:
        return False
    if len(undecided) > 1:
        return any(_absent_alias(what, [c_], r, m, w, wpaths, sizes, strip, base) for c_ in undecided)
    path = what.split("reader yields None for ", 1)[1].split(" ", 1)[0]
    c = undecided[0]
    rid, expect = c.info.get("lit_read"), c.info.get("expect")
    rd = next((x for x in r.reads if x.rid == rid), None)
    if rd is None or not isinstance(expect, (bytes, bytearray)):
        return False
    lo = m.sub(rd.lo)
    rest = sorted((cc.desc, pp) for cc, pp in w.conds if cc.info.get("truthy") != path)
    for w2 in wpaths:
        if not any(cc.info.get("truthy") == path and pp is False for cc, pp in w2.conds):
            continue
        if sorted((cc.desc, pp) for cc, pp in w2.conds if cc.info.get("truthy") != path) != rest:
            continue
        segs2 = sizes._expand(w2.segs)
        if strip is not None:
            segs2 = strip(segs2)
        tb = Table(segs2, Lin(base))
        i = tb.find(lo)
        if i is None:
            continue
        got = b""
        j = i
        while j < len(tb.segs) and len(got) < len(expect):
            sg = tb.segs[j]
            bts = seg_bytes(sg)
            if bts is None:
                break
            got += bts
            j += 1
        if got[: len(expect)] == bytes(expect):
            return True
    return False


def agree_delegate(
    repo: Repo,
    cls: Cls,
    sizes: Sizes,
    base_cls: Cls,
    sources: t.Sequence[str],
    passthrough: t.Sequence[str] = (),
) -> Verdict:
    """Known sub-codec whose pack() delegates to ``Base(..., a, b).pack()`` and whose
    ``_unpack(cls, a, b)`` decodes the byte strings handed over by Base.unpack."""
    v = Verdict()
    fpack = cls.methods.get("pack")
    funpack = cls.methods.get("_unpack")
    if fpack is None or funpack is None:
        raise Unsupported(f"{cls.qual}: delegating codec without pack/_unpack")
    wpaths = layout.writer_paths(repo, fpack)
    rpaths = layout.reader_paths(repo, funpack)
    v.tables = {"writer": [p.describe() for p in wpaths], "reader": [p.describe() for p in rpaths]}
    for w in wpaths:
        if len(w.segs) != 1 or w.segs[0].kind != "nested" or w.segs[0].a.get("obj") is None or w.segs[0].cls is not base_cls:
            v.ok = False
            v.problems.append(Mismatch(f"pack() does not delegate to {base_cls.name}(...).pack()"))
            continue
        obj: SObj = w.segs[0].obj
        # discriminant and pass-through fields must be handed to the base codec unchanged
        for name in passthrough:
            got = obj.fields.get(name)
            fld = cls.field(name)
            want = Lin.atom(("field", f"self.{name}"))
            if fld is not None and not fld.init and fld.default is not None:
                okc, cv = repo.try_fold(fld.default, repo.classes[fld.owner].mod)
                if okc:
                    want = Lin(getattr(cv, "value", cv))
            if not (isinstance(got, Lin) and got == want):
                v.ok = False
                v.problems.append(Mismatch(f"pack() hands {got!r} to {base_cls.name}.{name} instead of self.{name}"))
        matched = False
        best: t.Optional[Mismatch] = None
        for r in rpaths:
            ms: t.Dict[str, Matcher] = {}
            for src in sources:
                val = obj.fields.get(src)
                if not isinstance(val, SBytes):
                    val = SBytes([])
                ms[src] = Matcher(repo, Table(sizes._expand(val.segs)), src, size_of=sizes.size)
                for fld in cls.fields():
                    ty = parse_type(repo, fld.ann, repo.classes[fld.owner].mod)
                    if ty[0] == "intenum":
                        ms[src].field_types[f"self.{fld.name}"] = ty[1]
            prob: t.Optional[Mismatch] = None
            for rd in r.reads:
                if rd.src in ms:
                    prob = ms[rd.src].read(rd)
                    if prob is not None:
                        break
            if prob is None and not isinstance(r.result, SObj):
                prob = Mismatch(f"_unpack returns {r.result!r}")
            if prob is None:
                res: SObj = r.result
                fields = dict(res.fields)
                for fld in res.cls.init_params():
                    if fld.name not in fields and fld.default is None:
                        prob = Mismatch(f"_unpack does not set field {fld.name}")
                for name, val in fields.items():
                    if prob is not None:
                        break
                    if name in passthrough:
                        ok = isinstance(val, Lin) and val == Lin.atom(("field", name))
                        if not ok:
                            prob = Mismatch(f"_unpack builds {name} from {val!r} instead of its {name} argument")
                        continue
                    whys = []
                    for src, m in ms.items():
                        merged = m
                        for other in ms.values():
                            if other is not m:
                                merged.rmap.update({k: x for k, x in other.rmap.items() if k[0] == "read"})
                                merged.vals.update(other.vals)
                        why = m.value_matches(val, f"self.{name}", w.conds)
                        if why is None:
                            whys = []
                            break
                        whys.append(why)
                    if whys:
                        prob = Mismatch(f"decode(encode(x)).{name} is not x.{name}: {whys[0]}")
                # every byte string handed to the base must be fully consumed by a full-width read
                if prob is None:
                    for src, m in ms.items():
                        unread = [i for i, sg in enumerate(m.table.segs) if i not in m.used and sg.kind not in ("lit", "pad")]
                        if unread:
                            prob = Mismatch(f"_unpack never decodes {_segname(m.table.segs[unread[0]])} written into {src}")
            if prob is None:
                matched = True
                break
            best = best or prob
        if not matched:
            v.ok = False
            v.problems.append(best or Mismatch("no reader path"))
    return v
