"""E2 - forward interval analysis of integer valued expressions over the statement CFG.

Flow sensitive per function, refinement on atomic condition edges, widening after a few
visits plus one narrowing sweep; context insensitive interprocedural summaries for
package functions (return intervals, tuple elements) and parameters (join over the
package's call sites) through the `World` object.
"""

from __future__ import annotations

import ast
import re
import typing as t

from .cfg import CFG, Node, build
from .load import Cls, Func, Repo, unparse

INF = None  # unbounded


class IV:
    __slots__ = ("lo", "hi")

    def __init__(self, lo: t.Optional[int], hi: t.Optional[int]) -> None:
        self.lo = lo
        self.hi = hi

    @staticmethod
    def const(v: int) -> "IV":
        return IV(v, v)

    @staticmethod
    def top() -> "IV":
        return IV(None, None)

    def is_bottom(self) -> bool:
        return self.lo is not None and self.hi is not None and self.lo > self.hi

    def join(self, o: "IV") -> "IV":
        if self.is_bottom():
            return o
        if o.is_bottom():
            return self
        lo = None if self.lo is None or o.lo is None else min(self.lo, o.lo)
        hi = None if self.hi is None or o.hi is None else max(self.hi, o.hi)
        return IV(lo, hi)

    def meet(self, o: "IV") -> "IV":
        lo = o.lo if self.lo is None else (self.lo if o.lo is None else max(self.lo, o.lo))
        hi = o.hi if self.hi is None else (self.hi if o.hi is None else min(self.hi, o.hi))
        return IV(lo, hi)

    def within(self, lo: t.Optional[int], hi: t.Optional[int]) -> bool:
        if self.is_bottom():
            return True
        if lo is not None and (self.lo is None or self.lo < lo):
            return False
        if hi is not None and (self.hi is None or self.hi > hi):
            return False
        return True

    def __eq__(self, o: object) -> bool:
        return isinstance(o, IV) and self.lo == o.lo and self.hi == o.hi

    def __repr__(self) -> str:
        def f(x: t.Optional[int], neg: bool) -> str:
            if x is None:
                return "-inf" if neg else "+inf"
            if abs(x) >= 1 << 16:
                for k in (16, 31, 32, 48, 53, 63, 64):
                    if x == (1 << k) - 1:
                        return f"2^{k}-1"
                    if x == (1 << k):
                        return f"2^{k}"
                    if x == -(1 << k):
                        return f"-2^{k}"
            return str(x)

        return f"[{f(self.lo, True)}, {f(self.hi, False)}]"


BOTTOM = IV(1, 0)


def _add(a: IV, b: IV) -> IV:
    return IV(None if a.lo is None or b.lo is None else a.lo + b.lo, None if a.hi is None or b.hi is None else a.hi + b.hi)


def _neg(a: IV) -> IV:
    return IV(None if a.hi is None else -a.hi, None if a.lo is None else -a.lo)


def _mul(a: IV, b: IV) -> IV:
    if a.lo is None or a.hi is None or b.lo is None or b.hi is None:
        # sign based reasoning for the common non-negative case
        if a.lo is not None and a.lo >= 0 and b.lo is not None and b.lo >= 0:
            return IV(a.lo * b.lo, None if a.hi is None or b.hi is None else a.hi * b.hi)
        return IV.top()
    c = [a.lo * b.lo, a.lo * b.hi, a.hi * b.lo, a.hi * b.hi]
    return IV(min(c), max(c))


def _floordiv(a: IV, b: IV) -> IV:
    if b.lo is not None and b.lo >= 1:
        lo = None
        hi = None
        if a.lo is not None:
            lo = a.lo // b.lo if a.lo < 0 else (a.lo // b.hi if b.hi is not None else 0)
        if a.hi is not None:
            hi = a.hi // b.lo if a.hi >= 0 else (a.hi // b.hi if b.hi is not None else -1)
        return IV(lo, hi)
    return IV.top()


def _mod(a: IV, b: IV) -> IV:
    if b.lo is not None and b.lo >= 1 and b.hi is not None:
        if a.lo is not None and a.lo >= 0 and a.hi is not None and a.hi < b.lo:
            return a
        return IV(0, b.hi - 1)
    return IV.top()


Env = t.Dict[str, IV]


class World:
    """Interprocedural context: memoised per-function results, parameter and field ranges."""

    def __init__(self, repo: Repo, types: t.Optional[t.Any] = None) -> None:
        self.repo = repo
        self.types = types
        self.results: t.Dict[str, "FuncIntervals"] = {}
        self.in_progress: t.Set[str] = set()
        self.param_override: t.Dict[t.Tuple[str, str], IV] = {}
        self.field_override: t.Dict[t.Tuple[str, str], IV] = {}
        self._callsites: t.Optional[t.Dict[str, t.List[t.Tuple[Func, ast.Call]]]] = None
        self._ctor_sites: t.Optional[t.Dict[str, t.List[t.Tuple[Func, ast.Call]]]] = None
        self.depth = 0
        self.cutoffs = 0
        self.int_of_str: t.Dict[str, t.Callable[[ast.expr], t.Optional[IV]]] = {}  # established by grammar rules (C08)
        self.len_of: t.Dict[t.Tuple[str, str], IV] = {}
        self._fcache: t.Dict[t.Tuple[str, str], IV] = {}
        self._fbusy: t.Set[t.Tuple[str, str]] = set()
        self._pcache: t.Dict[t.Tuple[str, str], IV] = {}
        self._pbusy: t.Set[t.Tuple[str, str]] = set()

    def analyse(self, func: Func) -> "FuncIntervals":
        if func.qual in self.results:
            return self.results[func.qual]
        if func.qual in self.in_progress or self.depth > 6:
            self.cutoffs += 1
            return FuncIntervals(self, func, skeleton=True)
        self.in_progress.add(func.qual)
        self.depth += 1
        before = self.cutoffs
        try:
            res = FuncIntervals(self, func)
            if self.cutoffs == before or self.depth == 1:
                self.results[func.qual] = res
            return res
        finally:
            self.depth -= 1
            self.in_progress.discard(func.qual)

    # ------------------------------------------------------------ call sites
    def callsites(self) -> t.Dict[str, t.List[t.Tuple[Func, ast.Call]]]:
        if self._callsites is None:
            from .load import body_nodes

            cs: t.Dict[str, t.List[t.Tuple[Func, ast.Call]]] = {}
            ct: t.Dict[str, t.List[t.Tuple[Func, ast.Call]]] = {}
            for f in self.repo.funcs.values():
                for n in body_nodes(f.node):
                    if isinstance(n, ast.Call):
                        tgt = self.resolve_call(f, n)
                        if isinstance(tgt, Func):
                            cs.setdefault(tgt.qual, []).append((f, n))
                        elif isinstance(tgt, Cls):
                            ct.setdefault(tgt.qual, []).append((f, n))
            self._callsites, self._ctor_sites = cs, ct
        return self._callsites

    def resolve_call(self, f: Func, call: ast.Call) -> t.Any:
        fn = call.func
        r = self.repo.resolve(fn, f.mod) if isinstance(fn, (ast.Name, ast.Attribute)) else None
        if isinstance(r, (Func, Cls)):
            return r
        if isinstance(fn, ast.Name) and fn.id == "cls" and f.cls is not None:
            return f.cls
        if isinstance(fn, ast.Attribute) and isinstance(fn.value, ast.Name) and fn.value.id in ("self", "cls") and f.cls is not None:
            m = f.cls.find_method(fn.attr)
            if m is not None:
                return m
        if isinstance(fn, ast.Attribute):
            # unique method name in the package (receiver type unknown without mypy)
            cands = [g for g in self.repo.funcs.values() if g.cls is not None and g.name == fn.attr]
            if len(cands) == 1 and not fn.attr.startswith("__"):
                return cands[0]
        return None

    def param_iv(self, func: Func, name: str) -> IV:
        key = (func.qual, name)
        if key in self.param_override:
            return self.param_override[key]
        if key in self._pcache:
            return self._pcache[key]
        if key in self._pbusy:
            self.cutoffs += 1
            return IV.top()
        self._pbusy.add(key)
        before = self.cutoffs
        try:
            v = self._param_iv(func, name)
        finally:
            self._pbusy.discard(key)
        if self.cutoffs == before or (not self._fbusy and not self._pbusy and not self.in_progress):
            self._pcache[key] = v
        return v

    def _param_iv(self, func: Func, name: str) -> IV:
        key = (func.qual, name)
        sites = self.callsites().get(func.qual, [])
        if not sites:
            return IV.top()
        if self.depth > 4:
            self.cutoffs += 1
            return IV.top()
        params = func.params
        if func.cls is not None and not func.is_staticmethod and params and params[0] in ("self", "cls"):
            params = params[1:]
        out = BOTTOM
        for caller, call in sites:
            arg = None
            for kw in call.keywords:
                if kw.arg == name:
                    arg = kw.value
            if arg is None and name in params:
                i = params.index(name)
                if i < len(call.args) and not any(isinstance(a, ast.Starred) for a in call.args[: i + 1]):
                    arg = call.args[i]
            if arg is None:
                d = func.param_default(name)
                if d is None:
                    return IV.top()
                ok, v = self.repo.try_fold(d, func.mod)
                if ok and isinstance(v, int) and not isinstance(v, bool):
                    out = out.join(IV.const(v))
                    continue
                return IV.top()
            if caller.qual in self.in_progress:
                self.cutoffs += 1
                return IV.top()
            res = self.analyse(caller)
            out = out.join(res.iv_of(arg))
            if out.lo is None and out.hi is None:
                break
        return out

    def field_iv(self, cls: Cls, name: str) -> IV:
        key = (cls.qual, name)
        if key in self.field_override:
            return self.field_override[key]
        if key in self._fcache:
            return self._fcache[key]
        if key in self._fbusy:
            self.cutoffs += 1
            return IV.top()
        self._fbusy.add(key)
        before = self.cutoffs
        try:
            v = self._field_iv(cls, name)
        finally:
            self._fbusy.discard(key)
        if self.cutoffs == before or (not self._fbusy and not self._pbusy and not self.in_progress):
            self._fcache[key] = v
        return v

    def _field_iv(self, cls: Cls, name: str) -> IV:
        self.callsites()
        assert self._ctor_sites is not None
        out = BOTTOM
        seen = False
        classes = [cls] + self.repo.subclasses(cls)
        fld = cls.field(name)
        if fld is None:
            return IV.top()
        for c in classes:
            for caller, call in self._ctor_sites.get(c.qual, []):
                params = [p.name for p in c.init_params()]
                arg = None
                for kw in call.keywords:
                    if kw.arg == name:
                        arg = kw.value
                if arg is None and name in params and params.index(name) < len(call.args):
                    arg = call.args[params.index(name)]
                if arg is None:
                    if fld.default is not None:
                        ok, v = self.repo.try_fold(fld.default, self.repo.classes[fld.owner].mod)
                        if ok and isinstance(getattr(v, "value", v), int):
                            out = out.join(IV.const(int(getattr(v, "value", v))))
                            seen = True
                            continue
                    return IV.top()
                if caller.qual in self.in_progress or self.depth > 4:
                    self.cutoffs += 1
                    return IV.top()
                seen = True
                out = out.join(self.analyse(caller).iv_of(arg))
        return out if seen else IV.top()


class FuncIntervals:
    def __init__(self, world: World, func: Func, skeleton: bool = False) -> None:
        self.world = world
        self.repo = world.repo
        self.func = func
        self.cfg: CFG = build(func.node)
        self.inn: t.Dict[int, Env] = {}
        self.node_of_expr: t.Dict[int, int] = {}
        self.bytes_like: t.Set[str] = set()
        self.ret = BOTTOM
        self.ret_elems: t.Dict[int, IV] = {}
        self.alias: t.Dict[str, str] = {}
        self.comp_of: t.Dict[int, t.List[ast.comprehension]] = {}
        self._index_exprs()
        if not skeleton:
            self._solve()

    # --------------------------------------------------------------- indexing
    def _index_exprs(self) -> None:
        for n in self.cfg.nodes:
            payloads: t.List[ast.AST] = []
            if n.kind == "for":
                payloads = [n.ast.iter]  # type: ignore[union-attr]
            elif n.kind == "with":
                payloads = list(n.ast.items)  # type: ignore[union-attr]
            elif n.ast is not None and not isinstance(n.ast, (ast.FunctionDef, ast.AsyncFunctionDef, ast.ClassDef)):
                payloads = [n.ast]
            for p in payloads:
                for sub in ast.walk(p):
                    if isinstance(sub, (ast.expr, ast.stmt, ast.withitem, ast.keyword)):  # ctx/operator nodes are shared singletons
                        self.node_of_expr.setdefault(id(sub), n.id)
        # variables bound by comprehensions: every node of the element / conditions sees the generators around it
        def bind(node: ast.AST, gens: t.List[ast.comprehension]) -> None:
            if isinstance(node, (ast.ListComp, ast.SetComp, ast.GeneratorExp, ast.DictComp)):
                inner = list(gens)
                for g in node.generators:
                    bind(g.iter, list(inner))
                    inner = inner + [g]
                    for c in g.ifs:
                        bind(c, inner)
                for part in ([node.key, node.value] if isinstance(node, ast.DictComp) else [node.elt]):
                    bind(part, inner)
                return
            if gens and isinstance(node, ast.expr):
                self.comp_of[id(node)] = gens
            for c in ast.iter_child_nodes(node):
                bind(c, gens)

        bind(self.func.node, [])
        a = self.func.node.args
        for arg in a.posonlyargs + a.args + a.kwonlyargs:
            ann = unparse(arg.annotation)
            if any(k in ann for k in ("bytes", "bytearray", "memoryview")) and "Optional" not in ann:
                self.bytes_like.add(arg.arg)
        for node in ast.walk(self.func.node):
            if isinstance(node, ast.Assign) and len(node.targets) == 1 and isinstance(node.targets[0], ast.Name):
                if self._is_bytes_expr(node.value):
                    self.bytes_like.add(node.targets[0].id)

    def _is_bytes_expr(self, e: ast.expr) -> bool:
        if isinstance(e, ast.Call):
            d = unparse(e.func)
            if d in ("memoryview", "bytearray", "bytes"):
                return True
            if isinstance(e.func, ast.Attribute) and e.func.attr in ("tobytes", "to_bytes", "encode", "pack"):
                return True
        if isinstance(e, ast.Subscript) and isinstance(e.slice, ast.Slice) and isinstance(e.value, ast.Name) and e.value.id in self.bytes_like:
            return True
        if isinstance(e, ast.Constant) and isinstance(e.value, bytes):
            return True
        return False

    # ------------------------------------------------------------------ solve
    def _initial(self) -> Env:
        env: Env = {}
        for p in self.func.params:
            if p in ("self", "cls"):
                continue
            env[p] = self.world.param_iv(self.func, p) if self._int_param(p) else IV.top()
        return env

    def _int_param(self, p: str) -> bool:
        a = self.func.node.args
        for arg in a.posonlyargs + a.args + a.kwonlyargs:
            if arg.arg == p:
                return unparse(arg.annotation) in ("int",)
        return False

    def _solve(self) -> None:
        g = self.cfg
        self.inn = {g.entry: self._initial()}
        visits: t.Dict[int, int] = {}
        work = [g.entry]
        steps = 0
        while work:
            steps += 1
            if steps > 20000:
                break
            nid = work.pop(0)
            env = self.inn.get(nid)
            if env is None:
                continue
            for succ, lab in g.succ[nid]:
                out = self._transfer(g.nodes[nid], env, lab)
                if out is None:
                    continue
                old = self.inn.get(succ)
                if old is None:
                    self.inn[succ] = out
                    work.append(succ)
                    continue
                new = self._join_env(old, out)
                if new != old:
                    visits[succ] = visits.get(succ, 0) + 1
                    if visits[succ] > 4:
                        new = self._widen(old, new)
                    self.inn[succ] = new
                    if succ not in work:
                        work.append(succ)
        # one narrowing sweep in node order (re-evaluate joins without widening)
        for _ in range(2):
            for nid in sorted(self.inn):
                preds = [(p, lab) for p, lab in g.pred[nid] if p in self.inn]
                if not preds or nid == g.entry:
                    continue
                acc: t.Optional[Env] = None
                for p, lab in preds:
                    out = self._transfer(g.nodes[p], self.inn[p], lab)
                    if out is None:
                        continue
                    acc = out if acc is None else self._join_env(acc, out)
                if acc is not None:
                    # narrowing: only accept values that are inside the widened ones
                    cur = self.inn[nid]
                    self.inn[nid] = {k: (acc[k].meet(cur[k]) if k in cur else acc[k]) for k in acc}
        # return interval
        for n in g.nodes:
            if n.kind == "stmt" and isinstance(n.ast, ast.Return) and n.id in self.inn and n.ast.value is not None:
                v = n.ast.value
                if isinstance(v, ast.Tuple):
                    for i, el in enumerate(v.elts):
                        self.ret_elems[i] = self.ret_elems.get(i, BOTTOM).join(self.eval(el, self.inn[n.id]))
                else:
                    self.ret = self.ret.join(self.eval(v, self.inn[n.id]))

    @staticmethod
    def _join_env(a: Env, b: Env) -> Env:
        out: Env = {}
        for k in set(a) | set(b):
            if k in a and k in b:
                out[k] = a[k].join(b[k])
            else:
                out[k] = IV.top()
        return out

    @staticmethod
    def _widen(old: Env, new: Env) -> Env:
        out: Env = {}
        for k, v in new.items():
            o = old.get(k)
            if o is None:
                out[k] = v
                continue
            lo = v.lo if (o.lo is not None and v.lo is not None and v.lo >= o.lo) else (None if o.lo is None or v.lo is None or v.lo < o.lo else v.lo)
            hi = v.hi if (o.hi is not None and v.hi is not None and v.hi <= o.hi) else (None if o.hi is None or v.hi is None or v.hi > o.hi else v.hi)
            out[k] = IV(lo, hi)
        return out

    # --------------------------------------------------------------- transfer
    def _kill(self, env: Env, name: str) -> None:
        for k in list(env):
            if k == name or k.startswith(name + ".") or k.startswith(name + "[") or ("(" in k and re.search(rf"(?<![\w.]){re.escape(name)}(?!\w)", k)):
                del env[k]

    def _assign(self, env: Env, target: ast.expr, value: t.Optional[ast.expr], iv: t.Optional[IV] = None) -> None:
        if isinstance(target, ast.Name):
            v = iv if iv is not None else (self.eval(value, env) if value is not None else IV.top())
            self._kill(env, target.id)
            env[target.id] = v
        elif isinstance(target, (ast.Tuple, ast.List)):
            elems: t.List[IV] = []
            if value is not None and isinstance(value, (ast.Tuple, ast.List)) and len(value.elts) == len(target.elts):
                elems = [self.eval(e, env) for e in value.elts]
            elif value is not None and isinstance(value, ast.Call):
                elems = self._call_tuple(value, env, len(target.elts))
            for i, el in enumerate(target.elts):
                self._assign(env, el, None, elems[i] if i < len(elems) else IV.top())
        elif isinstance(target, ast.Attribute):
            key = unparse(target)
            env[key] = iv if iv is not None else (self.eval(value, env) if value is not None else IV.top())
        elif isinstance(target, ast.Subscript):
            if isinstance(target.value, ast.Name):
                for k in list(env):
                    if k.startswith(target.value.id + "["):
                        del env[k]

    def _transfer(self, node: Node, env: Env, label: t.Any) -> t.Optional[Env]:
        if node.kind == "cond":
            return self._refine(t.cast(ast.expr, node.ast), bool(label), env)
        out = dict(env)
        a = node.ast
        if node.kind == "for":
            if label == "iter":
                st = t.cast(ast.For, a)
                it = st.iter
                iv = IV.top()
                if isinstance(it, ast.Call) and unparse(it.func) == "range":
                    args = [self.eval(x, env) for x in it.args]
                    if len(args) == 1:
                        lo, hi = IV.const(0), args[0]
                    else:
                        lo, hi = args[0], args[1]
                    step_neg = len(args) == 3 and args[2].hi is not None and args[2].hi < 0
                    if step_neg:
                        iv = IV(None if hi.lo is None else hi.lo + 1, lo.hi)
                    else:
                        iv = IV(lo.lo, None if hi.hi is None else hi.hi - 1)
                    if iv.is_bottom():
                        return None
                    self._assign(out, st.target, None, iv)
                elif isinstance(it, ast.Call) and unparse(it.func) == "enumerate" and isinstance(st.target, ast.Tuple):
                    start = IV.const(0)
                    if len(it.args) > 1:
                        start = self.eval(it.args[1], env)
                    for kw in it.keywords:
                        if kw.arg == "start":
                            start = self.eval(kw.value, env)
                    self._assign(out, st.target.elts[0], None, IV(start.lo, None))
                    ev = self._elem_iv(it.args[0], env)
                    self._assign(out, st.target.elts[1], None, ev)
                    if isinstance(it.args[0], ast.Name) and all(isinstance(x, ast.Name) for x in st.target.elts):
                        # val is X[idx] until X is written: remember the alias so that guards on val refine X[idx]
                        alias = f"{it.args[0].id}[{st.target.elts[0].id}]"  # type: ignore[attr-defined]
                        self.alias[st.target.elts[1].id] = alias  # type: ignore[attr-defined]
                        out[alias] = ev
                else:
                    if not self._assign_rows(out, st.target, it, env):
                        self._assign(out, st.target, None, self._elem_iv(it, env))
            return out
        if node.kind == "with":
            for item in t.cast(ast.With, a).items:
                if item.optional_vars is not None:
                    self._assign(out, item.optional_vars, None, IV.top())
            return out
        if isinstance(a, ast.Assign):
            for tg in a.targets:
                self._assign(out, tg, a.value)
        elif isinstance(a, ast.AnnAssign) and a.value is not None:
            self._assign(out, a.target, a.value)
        elif isinstance(a, ast.AugAssign):
            cur = self.eval(a.target, env)
            rhs = self.eval(a.value, env)
            res = self._binop(a.op, cur, rhs)
            self._assign(out, a.target, None, res)
        elif isinstance(a, ast.ExceptHandler):
            if a.name:
                out[a.name] = IV.top()
        elif isinstance(a, ast.Delete):
            for tg in a.targets:
                base = tg.value if isinstance(tg, ast.Subscript) else tg
                if isinstance(base, ast.Name):
                    self._kill(out, base.id)
        # a method that can shrink (or arbitrarily change) a container invalidates what is known about its length;
        # append / extend / add only grow it, so lower bounds stay valid and upper bounds go
        for c in (x for x in ast.walk(a) if isinstance(a, ast.AST) and isinstance(x, ast.Call) and isinstance(x.func, ast.Attribute) and isinstance(x.func.value, ast.Name)) if isinstance(a, ast.AST) else ():
            name, meth = c.func.value.id, c.func.attr  # type: ignore[attr-defined]
            k = f"len({name})"
            if k in out:
                if meth in ("append", "extend", "add", "insert", "update", "setdefault"):
                    out[k] = IV(out[k].lo, None)
                elif meth in ("pop", "popitem", "clear", "remove", "discard", "release"):
                    del out[k]
        return out

    def _literal_rows(self, it: ast.expr) -> t.Optional[t.List[ast.expr]]:
        """The elements of a tuple / list display, directly or through a local that is assigned once to one."""
        if isinstance(it, ast.Name) and it.id not in self.func.params:
            defs = [n for n in ast.walk(self.func.node) if isinstance(n, (ast.Assign, ast.AnnAssign, ast.AugAssign, ast.For, ast.NamedExpr)) and any(isinstance(x, ast.Name) and x.id == it.id and isinstance(x.ctx, ast.Store) for x in ast.walk(n))]
            muts = [n for n in ast.walk(self.func.node) if isinstance(n, ast.Call) and isinstance(n.func, ast.Attribute) and isinstance(n.func.value, ast.Name) and n.func.value.id == it.id]
            if len(defs) == 1 and isinstance(defs[0], (ast.Assign, ast.AnnAssign)) and defs[0].value is not None and not muts:
                it = defs[0].value
        if isinstance(it, (ast.Tuple, ast.List)) and it.elts and not any(isinstance(x, ast.Starred) for x in it.elts):
            return list(it.elts)
        return None

    def _assign_rows(self, env: Env, target: ast.expr, it: ast.expr, env_in: Env) -> bool:
        """for a, b in ((x1, y1), (x2, y2)): a is one of the x, b one of the y."""
        rows = self._literal_rows(it)
        if rows is None:
            return False
        if isinstance(target, ast.Name):
            iv = BOTTOM
            for x in rows:
                iv = iv.join(self.eval(x, env_in))
            self._assign(env, target, None, iv)
            return True
        if isinstance(target, (ast.Tuple, ast.List)) and all(isinstance(r, (ast.Tuple, ast.List)) and len(r.elts) == len(target.elts) and not any(isinstance(x, ast.Starred) for x in r.elts) for r in rows):
            for i, el in enumerate(target.elts):
                iv = BOTTOM
                for r in rows:
                    iv = iv.join(self.eval(t.cast(ast.Tuple, r).elts[i], env_in))
                self._assign(env, el, None, iv)
            return True
        return False

    def _elem_iv(self, it: ast.expr, env: Env) -> IV:
        if isinstance(it, ast.Name) and it.id in self.bytes_like:
            return IV(0, 255)
        if isinstance(it, (ast.Tuple, ast.List)) and it.elts and not any(isinstance(x, ast.Starred) for x in it.elts):
            iv = BOTTOM  # for x in (a, b, c): x is one of them
            for x in it.elts:
                iv = iv.join(self.eval(x, env))
            return iv
        return IV.top()

    # ------------------------------------------------------------- refinement
    def _refine(self, cond: ast.expr, pol: bool, env: Env) -> t.Optional[Env]:
        out = dict(env)
        if isinstance(cond, ast.Compare):
            operands = [cond.left] + list(cond.comparators)
            if not pol and len(cond.ops) > 1:
                return out  # negation of a chain is a disjunction: no refinement
            for i, op in enumerate(cond.ops):
                a, b = operands[i], operands[i + 1]
                o = op
                if not pol:
                    o = {ast.Lt: ast.GtE, ast.LtE: ast.Gt, ast.Gt: ast.LtE, ast.GtE: ast.Lt, ast.Eq: ast.NotEq, ast.NotEq: ast.Eq}.get(type(op), type(None))()  # type: ignore[assignment]
                    if o is None:
                        return out
                if not self._apply_cmp(out, a, o, b):
                    return None
            return out
        if isinstance(cond, ast.Name) and (cond.id in self.bytes_like or f"len({cond.id})" in out or self._seq_like(cond.id)):
            # truthiness of a sequence is `len(x) != 0`
            k2 = f"len({cond.id})"
            cur2 = out.get(k2, IV(0, None)).meet(IV(0, None))
            cur2 = cur2.meet(IV(1, None)) if pol else cur2.meet(IV(0, 0))
            if cur2.is_bottom():
                return None
            out[k2] = cur2
            return out
        key = self._key(cond)
        if key is not None and key in out or (key is not None and self._intlike(cond)):
            cur = self.eval(cond, env)
            if pol:
                # truthy: non zero
                if cur.lo == 0:
                    cur = IV(1, cur.hi)
                elif cur.hi == 0:
                    cur = IV(cur.lo, -1)
            else:
                cur = cur.meet(IV(0, 0))
            if cur.is_bottom():
                return None
            out[key] = cur
        return out

    def _seq_like(self, name: str) -> bool:
        """The local is only ever bound to displays / slices / memoryview / bytes constructors: a sequence, not a number."""
        vals = [n.value for n in ast.walk(self.func.node) if isinstance(n, (ast.Assign, ast.AnnAssign)) and n.value is not None and any(isinstance(x, ast.Name) and x.id == name and isinstance(x.ctx, ast.Store) for tg in (n.targets if isinstance(n, ast.Assign) else [n.target]) for x in [tg])]
        used_as_seq = any((isinstance(n, ast.Subscript) and isinstance(n.value, ast.Name) and n.value.id == name) or (isinstance(n, ast.Call) and unparse(n.func) == "len" and len(n.args) == 1 and isinstance(n.args[0], ast.Name) and n.args[0].id == name) for n in ast.walk(self.func.node))
        arith = any(isinstance(n, ast.BinOp) and any(isinstance(x, ast.Name) and x.id == name for x in (n.left, n.right)) and not isinstance(n.op, ast.Add) for n in ast.walk(self.func.node))
        if used_as_seq and not arith:
            return True
        if not vals:
            return False
        for v in vals:
            ok = isinstance(v, (ast.List, ast.Tuple, ast.ListComp)) or (isinstance(v, ast.Subscript) and isinstance(v.slice, ast.Slice)) or (isinstance(v, ast.Call) and unparse(v.func) in ("memoryview", "bytes", "bytearray", "list", "tuple"))
            if not ok:
                return False
        return True

    def _intlike(self, e: ast.expr) -> bool:
        k = self._key(e)
        return k is not None and self.eval(e, {}) != IV.top()

    def _key(self, e: ast.expr) -> t.Optional[str]:
        if isinstance(e, ast.Name):
            return e.id
        if isinstance(e, ast.Attribute):
            base = e.value
            while isinstance(base, ast.Attribute):
                base = base.value
            if isinstance(base, ast.Name):
                return unparse(e)
        if isinstance(e, ast.Call) and unparse(e.func) == "len" and len(e.args) == 1 and isinstance(e.args[0], (ast.Name, ast.Attribute)):
            return unparse(e)
        if isinstance(e, ast.Call) and unparse(e.func) == "int" and len(e.args) == 1 and not e.keywords and isinstance(e.args[0], ast.Name):
            return unparse(e)  # int(s) of an unchanged local string is the same number each time it is written
        if isinstance(e, ast.Subscript) and isinstance(e.value, ast.Name) and isinstance(e.slice, ast.Name):
            return unparse(e)
        return None

    def _apply_cmp(self, env: Env, a: ast.expr, op: ast.cmpop, b: ast.expr) -> bool:
        ia, ib = self.eval(a, env), self.eval(b, env)
        ka, kb = self._key(a), self._key(b)

        def set_(k: t.Optional[str], iv: IV) -> bool:
            if iv.is_bottom():
                return False
            if k is not None:
                env[k] = iv
                if k in self.alias and self.alias[k] in env:
                    env[self.alias[k]] = iv
            return True

        if isinstance(op, ast.Lt):
            return set_(ka, ia.meet(IV(None, None if ib.hi is None else ib.hi - 1))) and set_(kb, ib.meet(IV(None if ia.lo is None else ia.lo + 1, None)))
        if isinstance(op, ast.LtE):
            return set_(ka, ia.meet(IV(None, ib.hi))) and set_(kb, ib.meet(IV(ia.lo, None)))
        if isinstance(op, ast.Gt):
            return set_(ka, ia.meet(IV(None if ib.lo is None else ib.lo + 1, None))) and set_(kb, ib.meet(IV(None, None if ia.hi is None else ia.hi - 1)))
        if isinstance(op, ast.GtE):
            return set_(ka, ia.meet(IV(ib.lo, None))) and set_(kb, ib.meet(IV(None, ia.hi)))
        if isinstance(op, ast.Eq):
            m = ia.meet(ib)
            return set_(ka, m) and set_(kb, m)
        if isinstance(op, ast.NotEq):
            # only point exclusion at the borders
            if ib.lo is not None and ib.lo == ib.hi:
                if ia.lo == ib.lo:
                    return set_(ka, IV(ia.lo + 1, ia.hi))  # type: ignore[operator]
                if ia.hi == ib.lo:
                    return set_(ka, IV(ia.lo, ia.hi - 1))  # type: ignore[operator]
            if ia.lo is not None and ia.lo == ia.hi:
                if ib.lo == ia.lo:
                    return set_(kb, IV(ib.lo + 1, ib.hi))  # type: ignore[operator]
                if ib.hi == ia.lo:
                    return set_(kb, IV(ib.lo, ib.hi - 1))  # type: ignore[operator]
            return True
        return True

    # ------------------------------------------------------------- evaluation
    def iv_of(self, expr: ast.expr) -> IV:
        """Interval of an expression occurrence (evaluated in the state before its CFG node)."""
        nid = self.node_of_expr.get(id(expr))
        if nid is None or nid not in self.inn:
            return BOTTOM if nid is not None and self.inn else IV.top()
        env = self.inn[nid]
        gens = self.comp_of.get(id(expr))
        if gens:
            env = dict(env)
            for g in gens:
                self._bind_iter(env, g.target, g.iter)
        return self.eval(expr, env)

    def _bind_iter(self, env: Env, target: ast.expr, it: ast.expr) -> None:
        """Range of a comprehension / loop variable from what it iterates over."""
        iv = IV.top()
        if self._literal_rows(it) is not None and self._assign_rows(env, target, it, dict(env)):
            return
        if isinstance(it, (ast.Tuple, ast.List)) and it.elts and not any(isinstance(x, ast.Starred) for x in it.elts):
            iv = BOTTOM
            for x in it.elts:
                iv = iv.join(self.eval(x, env))
        elif isinstance(it, ast.Call) and unparse(it.func) == "range" and it.args:
            args = [self.eval(x, env) for x in it.args]
            lo, hi = (IV.const(0), args[0]) if len(args) == 1 else (args[0], args[1])
            if len(args) == 3 and args[2].hi is not None and args[2].hi < 0:
                iv = IV(None if hi.lo is None else hi.lo + 1, lo.hi)
            else:
                iv = IV(lo.lo, None if hi.hi is None else hi.hi - 1)
        else:
            iv = self._elem_iv(it, env)
        if isinstance(target, ast.Name):
            env[target.id] = iv

    def reachable(self, expr: ast.AST) -> bool:
        nid = self.node_of_expr.get(id(expr))
        return nid is not None and nid in self.inn

    def env_at(self, expr: ast.AST) -> Env:
        nid = self.node_of_expr.get(id(expr))
        return self.inn.get(nid, {}) if nid is not None else {}

    def _binop(self, op: ast.operator, a: IV, b: IV) -> IV:
        if isinstance(op, ast.Add):
            return _add(a, b)
        if isinstance(op, ast.Sub):
            return _add(a, _neg(b))
        if isinstance(op, ast.Mult):
            return _mul(a, b)
        if isinstance(op, ast.FloorDiv):
            return _floordiv(a, b)
        if isinstance(op, ast.Mod):
            return _mod(a, b)
        if isinstance(op, ast.LShift):
            if a.lo is not None and a.lo >= 0 and b.lo is not None and b.lo >= 0:
                return IV(a.lo << b.lo, None if a.hi is None or b.hi is None or b.hi > 4096 else a.hi << b.hi)
            return IV.top()
        if isinstance(op, ast.RShift):
            if a.lo is not None and a.lo >= 0 and b.lo is not None and b.lo >= 0:
                return IV(0 if b.hi is None else a.lo >> b.hi, None if a.hi is None else a.hi >> b.lo)
            return IV.top()
        if isinstance(op, ast.BitAnd):
            cands = [x.hi for x in (a, b) if x.lo is not None and x.lo >= 0 and x.hi is not None]
            if cands:
                return IV(0, min(cands))
            return IV.top()
        if isinstance(op, (ast.BitOr, ast.BitXor)):
            if a.lo is not None and a.lo >= 0 and b.lo is not None and b.lo >= 0:
                if a.hi is None or b.hi is None:
                    return IV(0, None)
                bits = max(a.hi.bit_length(), b.hi.bit_length())
                return IV(max(a.lo, b.lo) if isinstance(op, ast.BitOr) else 0, (1 << bits) - 1)
            return IV.top()
        if isinstance(op, ast.Pow):
            if a.lo is not None and a.lo == a.hi and b.lo is not None and b.lo == b.hi and 0 <= b.lo <= 4096:
                return IV.const(a.lo**b.lo)
            return IV.top()
        return IV.top()

    def eval(self, e: t.Optional[ast.expr], env: Env) -> IV:
        if e is None:
            return IV.top()
        ok, v = self.repo.try_fold(e, self.func.mod) if not self._has_local(e, env) else (False, None)
        if ok:
            v = getattr(v, "value", v)
            if isinstance(v, bool):
                return IV.const(int(v))
            if isinstance(v, int):
                return IV.const(v)
            return IV.top()
        if isinstance(e, ast.Constant):
            if isinstance(e.value, bool):
                return IV.const(int(e.value))
            if isinstance(e.value, int):
                return IV.const(e.value)
            return IV.top()
        k = self._key(e)
        if k is not None and k in env:
            return env[k]
        if isinstance(e, ast.Name):
            return IV.top()
        if isinstance(e, ast.Attribute):
            return self._attr_iv(e, env)
        if isinstance(e, ast.UnaryOp):
            if isinstance(e.op, ast.USub):
                return _neg(self.eval(e.operand, env))
            if isinstance(e.op, ast.UAdd):
                return self.eval(e.operand, env)
            if isinstance(e.op, ast.Not):
                return IV(0, 1)
            return IV.top()
        if isinstance(e, ast.BinOp):
            return self._binop(e.op, self.eval(e.left, env), self.eval(e.right, env))
        if isinstance(e, ast.IfExp):
            return self.eval(e.body, env).join(self.eval(e.orelse, env))
        if isinstance(e, ast.BoolOp):
            out = BOTTOM
            for v2 in e.values:
                out = out.join(self.eval(v2, env))
            return out
        if isinstance(e, ast.Compare):
            return IV(0, 1)
        if isinstance(e, ast.Subscript):
            if not isinstance(e.slice, ast.Slice):
                if isinstance(e.value, ast.Name) and e.value.id in self.bytes_like:
                    return IV(0, 255)
                if isinstance(e.value, ast.Call) and self._is_bytes_expr(e.value):
                    return IV(0, 255)
                # struct.unpack("B", ...)[0]
                if isinstance(e.value, ast.Call) and unparse(e.value.func) == "struct.unpack" and e.value.args:
                    okf, fmt = self.repo.try_fold(e.value.args[0], self.func.mod)
                    if okf and fmt in ("B", "<B", ">B", "!B"):
                        return IV(0, 255)
                # element of a tuple returning call
                if isinstance(e.value, ast.Call):
                    okc, idx = self.repo.try_fold(e.slice, self.func.mod)
                    if okc and isinstance(idx, int):
                        el = self._call_tuple(e.value, env, idx + 1)
                        if idx < len(el):
                            return el[idx]
            return IV.top()
        if isinstance(e, ast.Call):
            return self._call_iv(e, env)
        return IV.top()

    def _has_local(self, e: ast.AST, env: Env) -> bool:
        params = set(self.func.params)
        for n in ast.walk(e):
            if isinstance(n, ast.Name) and (n.id in env or n.id in params):
                return True
        return False

    def _attr_iv(self, e: ast.Attribute, env: Env) -> IV:
        # field of a package dataclass: join over constructor sites
        cls = self._static_class(e.value)
        if cls is not None:
            fld = cls.field(e.attr)
            if fld is not None and unparse(fld.ann) == "int":
                return self.world.field_iv(cls, e.attr)
        return IV.top()

    def _static_class(self, e: ast.expr) -> t.Optional[Cls]:
        """Static class of an expression from annotations (self, annotated params)."""
        if isinstance(e, ast.Name):
            if e.id == "self" and self.func.cls is not None:
                return self.func.cls
            a = self.func.node.args
            for arg in a.posonlyargs + a.args + a.kwonlyargs:
                if arg.arg == e.id and arg.annotation is not None:
                    ann = arg.annotation
                    if isinstance(ann, ast.Constant) and isinstance(ann.value, str):
                        try:
                            ann = ast.parse(ann.value, mode="eval").body
                        except SyntaxError:
                            return None
                    r = self.repo.resolve(ann, self.func.mod) if isinstance(ann, (ast.Name, ast.Attribute)) else None
                    return r if isinstance(r, Cls) else None
            # local assigned from a constructor / classmethod returning the class
            for node in ast.walk(self.func.node):
                if isinstance(node, ast.Assign) and len(node.targets) == 1 and isinstance(node.targets[0], ast.Name) and node.targets[0].id == e.id and isinstance(node.value, ast.Call):
                    tgt = self.world.resolve_call(self.func, node.value)
                    if isinstance(tgt, Cls):
                        return tgt
                    if isinstance(tgt, Func) and tgt.node.returns is not None:
                        r = self.repo.resolve(tgt.node.returns, tgt.mod) if isinstance(tgt.node.returns, (ast.Name, ast.Attribute)) else None
                        if isinstance(r, Cls):
                            return r
        if isinstance(e, ast.Attribute):
            base = self._static_class(e.value)
            if base is not None:
                fld = base.field(e.attr)
                if fld is not None and isinstance(fld.ann, (ast.Name, ast.Attribute)):
                    r = self.repo.resolve(fld.ann, self.repo.classes[fld.owner].mod)
                    return r if isinstance(r, Cls) else None
        return None

    def _call_tuple(self, call: ast.Call, env: Env, n: int) -> t.List[IV]:
        tgt = self.world.resolve_call(self.func, call)
        if isinstance(tgt, Func):
            res = self.world.analyse(tgt)
            return [res.ret_elems.get(i, IV.top()) for i in range(n)]
        return [IV.top()] * n

    def _len_iv(self, a: ast.expr, env: Env, depth: int) -> IV:
        """len(a): a fact established by a grammar rule, the length of the sequence a slice / single-definition local
        was taken from minus the slice start, or unknown."""
        lh = self.world.len_of.get((self.func.qual, unparse(a)))
        if lh is not None:
            return lh
        if depth > 4:
            return IV(0, None)
        if isinstance(a, ast.Subscript) and isinstance(a.slice, ast.Slice) and a.slice.step is None and a.slice.upper is None:
            lo = self.eval(a.slice.lower, env) if a.slice.lower is not None else IV.const(0)
            base = self._len_iv(a.value, env, depth + 1)
            if lo.lo is not None and lo.lo == lo.hi and lo.lo >= 0:
                return IV(None if base.lo is None else max(base.lo - lo.lo, 0), None if base.hi is None else max(base.hi - lo.lo, 0))
            return IV(0, base.hi)
        if isinstance(a, ast.Name):
            defs = [n for n in ast.walk(self.func.node) if isinstance(n, (ast.Assign, ast.AnnAssign, ast.AugAssign, ast.For, ast.NamedExpr, ast.With)) and any(isinstance(x, ast.Name) and x.id == a.id and isinstance(x.ctx, ast.Store) for x in ast.walk(n.target if isinstance(n, (ast.AnnAssign, ast.AugAssign, ast.For, ast.NamedExpr)) else (ast.Tuple(elts=list(n.targets), ctx=ast.Store()) if isinstance(n, ast.Assign) else ast.Tuple(elts=[i.optional_vars for i in n.items if i.optional_vars is not None], ctx=ast.Store()))))]
            if len(defs) == 1 and isinstance(defs[0], (ast.Assign, ast.AnnAssign)) and defs[0].value is not None and a.id not in self.func.params:
                tg = defs[0].targets[0] if isinstance(defs[0], ast.Assign) and len(defs[0].targets) == 1 else getattr(defs[0], "target", None)
                if isinstance(tg, ast.Name):
                    return self._len_iv(defs[0].value, env, depth + 1)
        return IV(0, None)

    def _call_iv(self, e: ast.Call, env: Env) -> IV:
        d = unparse(e.func)
        if d == "len":
            k = self._key(e)
            if k is not None and k in env:
                return env[k].meet(IV(0, None))
            return self._len_iv(e.args[0], env, 0) if e.args else IV(0, None)
        if d == "int.from_bytes" and e.args:
            signed = any(kw.arg == "signed" and isinstance(kw.value, ast.Constant) and kw.value.value for kw in e.keywords)
            w = self._slice_width(e.args[0], env)
            if w is not None:
                return IV(-(1 << (8 * w - 1)), (1 << (8 * w - 1)) - 1) if signed and w > 0 else IV(0, (1 << (8 * w)) - 1)
            return IV.top() if signed else IV(0, None)
        if d in ("min", "max") and e.args and not e.keywords:
            ivs = [self.eval(a, env) for a in e.args]
            if d == "min":
                lo = None if any(i.lo is None for i in ivs) else min(i.lo for i in ivs)  # type: ignore[type-var]
                his = [i.hi for i in ivs if i.hi is not None]
                return IV(lo, min(his) if his else None)
            hi = None if any(i.hi is None for i in ivs) else max(i.hi for i in ivs)  # type: ignore[type-var]
            los = [i.lo for i in ivs if i.lo is not None]
            return IV(max(los) if los else None, hi)
        if d == "math.ceil" and len(e.args) == 1 and isinstance(e.args[0], ast.BinOp) and isinstance(e.args[0].op, ast.Div):
            a, b = self.eval(e.args[0].left, env), self.eval(e.args[0].right, env)
            q = _floordiv(a, b)
            return IV(q.lo, None if q.hi is None else q.hi + 1)
        if d == "int" and len(e.args) == 1:
            inner = e.args[0]
            hook = self.world.int_of_str.get(self.func.qual)
            if hook is not None:
                got = hook(inner)
                if got is not None:
                    return got
            if isinstance(inner, ast.BinOp) and isinstance(inner.op, ast.Div):
                a, b = self.eval(inner.left, env), self.eval(inner.right, env)
                if a.lo is not None and a.lo >= 0 and b.lo is not None and b.lo >= 1:
                    q = _floordiv(a, b)
                    return IV(q.lo, None if q.hi is None else q.hi + 1)
            return IV.top()
        if d == "time.time_ns":
            return IV(0, None)
        if d in ("abs",) and e.args:
            return IV(0, None)
        if d == "pow" and len(e.args) == 3:
            m = self.eval(e.args[2], env)
            return IV(0, None if m.hi is None else m.hi - 1)
        if isinstance(e.func, ast.Attribute) and e.func.attr in ("recv_into",):
            return IV(0, None)
        if isinstance(e.func, ast.Attribute) and e.func.attr == "bit_length":
            return IV(0, None)
        tgt = self.world.resolve_call(self.func, e)
        if isinstance(tgt, Func):
            if unparse(tgt.node.returns) == "int":
                return self.world.analyse(tgt).ret
            return IV.top()
        if isinstance(tgt, Cls) and tgt.enum_kind() in ("enum.IntEnum", "enum.IntFlag"):
            vals = [v for v in self.repo.enum_members(tgt).values() if isinstance(v, int)]
            if tgt.find_method("_missing_") is None and vals:
                return IV(min(vals), max(vals)) if tgt.enum_kind() == "enum.IntEnum" else IV(0, (1 << max(vals).bit_length()) - 1)
            if e.args:
                return self.eval(e.args[0], env)
        return IV.top()

    def _slice_width(self, e: ast.expr, env: Env) -> t.Optional[int]:
        """Constant byte width of view[a:b] (b - a folded with intervals), else None."""
        if isinstance(e, ast.Call) and isinstance(e.func, ast.Attribute) and e.func.attr == "tobytes":
            e = e.func.value
        if isinstance(e, ast.Subscript) and isinstance(e.slice, ast.Slice) and e.slice.step is None and e.slice.lower is not None and e.slice.upper is not None:
            # view[x + a : x + b]: the width is b - a whatever x is (linear forms over opaque atoms)
            from .linfacts import lin_of

            (ta, ca), (tb, cb) = lin_of(e.slice.lower), lin_of(e.slice.upper)
            if ta == tb and ta and cb - ca >= 0:
                return cb - ca
        if isinstance(e, ast.Subscript) and isinstance(e.slice, ast.Slice) and e.slice.step is None:
            lo = self.eval(e.slice.lower, env) if e.slice.lower is not None else IV.const(0)
            if e.slice.upper is None:
                if isinstance(e.slice.lower, ast.UnaryOp) and lo.lo is not None and lo.lo == lo.hi and lo.lo < 0:
                    return -lo.lo
                return None
            hi = self.eval(e.slice.upper, env)
            d = _add(hi, _neg(lo))
            if d.lo is not None and d.lo == d.hi and d.lo >= 0:
                return d.lo
            # symbolic but syntactically `x : x + k`
            if isinstance(e.slice.upper, ast.BinOp) and isinstance(e.slice.upper.op, ast.Add) and e.slice.lower is not None:
                if unparse(e.slice.upper.left) == unparse(e.slice.lower):
                    k = self.eval(e.slice.upper.right, env)
                    if k.lo is not None and k.lo == k.hi and k.lo >= 0:
                        return k.lo
        return None
