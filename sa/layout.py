"""E4 - layout tables.  Structured abstract interpretation of pack()/unpack() bodies
into writer segment tables and reader read tables (see DESIGN 3.4)."""

from __future__ import annotations

import ast
import typing as t

from .load import AnalysisError, Cls, Func, Repo, strip_docstring, unparse  # noqa: F401
from .sym import Lin, Ref, SBytes, Seg, SObj, SStr, STuple, Unknown
from .symeval import BSlice, CallVal, BoolVal, Evaluator, Read, ReadVal, SCat, State, SView, TRef, Unsupported, parse_type, typed_value


from .symeval import NeedFork  # noqa: E402  (the evaluator raises it for conditional expressions)


class LoopInfo:
    def __init__(self, lid: int, node: ast.AST) -> None:
        self.lid = lid
        self.node = node
        self.count: t.Any = None
        self.over: t.Optional[str] = None
        self.deltas: t.Dict[str, SBytes] = {}
        self.reads: t.List[Read] = []
        self.advance: t.Dict[str, Lin] = {}
        self.appends: t.Dict[str, t.Any] = {}
        self.append_n: t.Dict[str, int] = {}
        self.outer_lists: t.Set[str] = set()


class Outcome:
    def __init__(self, kind: str, value: t.Any = None, node: t.Optional[ast.AST] = None) -> None:
        self.kind = kind  # return | raise | fall | break | continue
        self.value = value
        self.node = node


class ForkingEvaluator(Evaluator):
    def e_IfExp(self, e: ast.IfExp, st: State) -> t.Any:
        c = self.truth(self.eval(e.test, st), e.test, st)
        if isinstance(c, bool):
            return self.eval(e.body if c else e.orelse, st)
        d = getattr(st, "decisions", {}).get(id(e))
        if d is None:
            raise NeedFork(e, c)
        return self.eval(e.body if d else e.orelse, st)

    def e_BoolOp(self, e: ast.BoolOp, st: State) -> t.Any:
        if isinstance(e.op, ast.Or) and len(e.values) == 2:
            a = self.eval(e.values[0], st)
            tr = self.truth(a, e.values[0], st)
            if tr is True:
                return a
            if tr is False:
                return self.eval(e.values[1], st)
            d = getattr(st, "decisions", {}).get(id(e))
            if d is None:
                raise NeedFork(e, t.cast(BoolVal, tr))
            return a if d else self.eval(e.values[1], st)
        return super().e_BoolOp(e, st)


def _fork(st: State) -> State:
    s = st.fork()
    s.decisions = dict(getattr(st, "decisions", {}))  # type: ignore[attr-defined]
    s.loops = list(getattr(st, "loops", []))  # type: ignore[attr-defined]
    s.windows = list(getattr(st, "windows", []))  # type: ignore[attr-defined]  # (loop statement, views it consumes at entry)
    return s


class Interp:
    """Structured interpreter of one function body with path forking."""

    MAX_PATHS = 64

    def __init__(self, repo: Repo, func: Func) -> None:
        self.repo = repo
        self.func = func
        self.ev = ForkingEvaluator(repo, func)

    # ------------------------------------------------------------- entry points
    def run(self, st: State) -> t.List[t.Tuple[State, Outcome]]:
        st.decisions = {}  # type: ignore[attr-defined]
        st.loops = []  # type: ignore[attr-defined]
        body = strip_docstring(list(self.func.node.body))
        return self.block(body, st)

    def block(self, stmts: t.List[ast.stmt], st: State) -> t.List[t.Tuple[State, Outcome]]:
        live: t.List[State] = [st]
        done: t.List[t.Tuple[State, Outcome]] = []
        for s in stmts:
            nxt: t.List[State] = []
            for cur in live:
                for st2, out in self.stmt(s, cur):
                    if out.kind == "fall":
                        nxt.append(st2)
                    else:
                        done.append((st2, out))
            live = nxt
            if len(live) + len(done) > self.MAX_PATHS:
                raise Unsupported(f"{self.func.qual}: more than {self.MAX_PATHS} paths")
        return done + [(x, Outcome("fall")) for x in live]

    def attempt(self, st: State, fn: t.Callable[[State], t.List[t.Tuple[State, Outcome]]]) -> t.List[t.Tuple[State, Outcome]]:
        """Run fn on a copy of st; on NeedFork split into both decisions and retry."""
        work = [st]
        out: t.List[t.Tuple[State, Outcome]] = []
        guard = 0
        while work:
            guard += 1
            if guard > 200:
                raise Unsupported(f"{self.func.qual}: fork explosion")
            base = work.pop()
            trial = _fork(base)
            mark = base.counter[0]
            try:
                out += fn(trial)
            except NeedFork as nf:
                # the statement is evaluated again under each decision: give its reads the same ids again, so that the
                # recorded condition speaks about the reads of the path it is recorded on
                base.counter[0] = mark
                # `not C` is a decision about C: conditions are recorded (and looked up) in their positive form
                core, flip = nf.cond, False
                while isinstance(core.info.get("neg"), BoolVal):
                    core, flip = core.info["neg"], not flip
                prior = [pol for c, pol in base.conds if c.desc == core.desc]
                if prior:
                    # the same atomic condition was decided earlier on this path: stay consistent
                    b = _fork(base)
                    b.decisions[id(nf.node)] = prior[-1] != flip  # type: ignore[attr-defined]
                    work.append(b)
                    continue
                for d in (True, False):
                    b = _fork(base)
                    b.decisions[id(nf.node)] = d  # type: ignore[attr-defined]
                    b.conds.append((core, d != flip))
                    work.append(b)
        return out

    # --------------------------------------------------------------- statements
    def stmt(self, s: ast.stmt, st: State) -> t.List[t.Tuple[State, Outcome]]:
        m = getattr(self, "s_" + type(s).__name__, None)
        if m is None:
            raise Unsupported(f"{self.func.qual}:{s.lineno}: statement kind {type(s).__name__}")
        return self.attempt(st, lambda trial: m(s, trial))

    def s_Assert(self, s: ast.Assert, st: State) -> t.List[t.Tuple[State, Outcome]]:
        # assert test  ==  if not test: raise AssertionError
        c = self.ev.truth(self.ev.eval(s.test, st), s.test, st)
        if isinstance(c, BoolVal):
            d = st.decisions.get(id(s))  # type: ignore[attr-defined]
            if d is None:
                raise NeedFork(s, c)
            c = d
        return [(st, Outcome("fall"))] if c else [(st, Outcome("raise", None, s))]

    def s_Try(self, s: ast.Try, st: State) -> t.List[t.Tuple[State, Outcome]]:
        """try/except/else/finally: the normal path runs body + else; one more path per handler starts from the state
        before the body (what the body assigned is unknown there, its calls may not have completed) under the condition
        'the body raised <type>'; finally runs after each."""
        out: t.List[t.Tuple[State, Outcome]] = []
        for st2, o in self.block(list(s.body), _fork(st)):
            if o.kind == "fall" and s.orelse:
                out += self.block(list(s.orelse), st2)
            else:
                out.append((st2, o))
        assigned = {n.id for b in s.body for n in ast.walk(b) if isinstance(n, ast.Name) and isinstance(n.ctx, ast.Store)}
        for h in s.handlers:
            hs = _fork(st)
            for name in assigned:
                hs.env[name] = Unknown(f"{name} (try body at line {s.lineno} interrupted)")
            what = unparse(h.type) if h.type is not None else "BaseException"
            hs.conds.append((BoolVal(f"try@{s.lineno} raised {what}", {"raised": what, "try": s}), True))
            if h.name:
                hs.env[h.name] = Unknown(h.name)
            out += self.block(list(h.body), hs)
        if s.finalbody:
            fin: t.List[t.Tuple[State, Outcome]] = []
            for st2, o in out:
                for st3, o3 in self.block(list(s.finalbody), st2):
                    fin.append((st3, o if o3.kind == "fall" else o3))
            out = fin
        return out

    def s_With(self, s: ast.With, st: State) -> t.List[t.Tuple[State, Outcome]]:
        """with E as v: B   -   v := value of E (a memoryview / file like object is its own __enter__ result), then B;
        what __exit__ does is outside the layout model (it releases, it does not change bytes)."""
        for item in s.items:
            v = self.ev.eval(item.context_expr, st)
            if item.optional_vars is not None:
                self.assign(item.optional_vars, v, st, s)
        return self.block(list(s.body), st)

    s_AsyncWith = s_With  # type: ignore[assignment]

    def s_Pass(self, s: ast.Pass, st: State) -> t.List[t.Tuple[State, Outcome]]:
        return [(st, Outcome("fall"))]

    def s_Expr(self, s: ast.Expr, st: State) -> t.List[t.Tuple[State, Outcome]]:
        if isinstance(s.value, ast.Constant):
            return [(st, Outcome("fall"))]
        # list.append(x) inside a loop is an accumulation
        v = s.value
        if (
            isinstance(v, ast.Call)
            and isinstance(v.func, ast.Attribute)
            and v.func.attr == "append"
            and isinstance(v.func.value, ast.Name)
            and getattr(st, "loops", [])
            and not isinstance(st.env.get(v.func.value.id), SBytes)
        ):
            self._loop_append(st, v.func.value.id, [self.ev.eval(v.args[0], st)], s)
            return [(st, Outcome("fall"))]
        # L.extend([a, b, ..]) on a list that lives across the iterations of the enclosing loop
        if (
            isinstance(v, ast.Call)
            and isinstance(v.func, ast.Attribute)
            and v.func.attr == "extend"
            and isinstance(v.func.value, ast.Name)
            and getattr(st, "loops", [])
            and v.func.value.id in st.loops[-1].outer_lists  # type: ignore[attr-defined]
            and len(v.args) == 1
        ):
            items = self.ev.eval(v.args[0], st)
            if not isinstance(items, (list, STuple)):
                raise Unsupported(f"{self.func.qual}:{s.lineno}: {unparse(v)} inside a loop")
            self._loop_append(st, v.func.value.id, list(items if isinstance(items, list) else items.items), s)
            return [(st, Outcome("fall"))]
        self.ev.eval(s.value, st)
        return [(st, Outcome("fall"))]

    def _loop_append(self, st: State, name: str, values: t.List[t.Any], node: ast.AST) -> None:
        """One trip of the innermost loop adds `values` to the list `name`.  A single element per trip is kept as it is
        (the list then has one entry per trip); several are kept as their concatenation, which is all a later
        b"".join(name) can see - the number of entries per trip is remembered for len(name)."""
        loop: LoopInfo = st.loops[-1]  # type: ignore[attr-defined]
        if name not in loop.appends and len(values) == 1:
            loop.appends[name] = values[0]
            loop.append_n[name] = 1
            return
        acc = SBytes([])
        if name in loop.appends:
            acc = acc + self.ev.seq_to_bytes(loop.appends[name], node)
        for v in values:
            acc = acc + self.ev.seq_to_bytes(v, node)
        loop.appends[name] = acc
        loop.append_n[name] = loop.append_n.get(name, 0) + len(values)

    def assign(self, target: ast.expr, value: t.Any, st: State, node: ast.AST) -> None:
        if isinstance(target, ast.Name):
            st.env[target.id] = value
        elif isinstance(target, (ast.Tuple, ast.List)):
            items = value.items if isinstance(value, STuple) else (value if isinstance(value, list) else None)
            if isinstance(value, CallVal):
                items = []
                for i in range(len(target.elts)):
                    u = Unknown(f"{value!r}[{i}]")
                    u._elem_of = (value.rec, i)  # type: ignore[attr-defined]
                    items.append(u)
            if isinstance(value, TRef):
                typ = value.typ[1] if value.typ[0] == "opt" else value.typ
                if typ[0] == "cls" and len(typ[1].fields()) == len(target.elts):
                    items = [self.ev.attr(value, fld.name, node, st) for fld in typ[1].fields()]
                elif typ[0] == "tuple" and len(typ[1]) == len(target.elts):
                    items = [typed_value(f"{value.path}[{i}]", ty) for i, ty in enumerate(typ[1])]
            if items is None or len(items) != len(target.elts):
                for el in target.elts:
                    self.assign(el, Unknown(unparse(node)), st, node)
            else:
                for el, it in zip(target.elts, items):
                    self.assign(el, it, st, node)
        elif isinstance(target, ast.Subscript):
            base = self.ev.eval(target.value, st)
            idx = self.ev.eval(target, st) if isinstance(base, (SView, SBytes, BSlice)) and isinstance(target.slice, ast.Slice) else unparse(target.slice)
            st.stores.append((base, idx, value, node))
        elif isinstance(target, ast.Attribute):
            st.setattrs.append((unparse(target), "=", value))
        else:
            raise Unsupported(f"{self.func.qual}:{getattr(node, 'lineno', 0)}: assignment target {unparse(target)}")

    def s_Assign(self, s: ast.Assign, st: State) -> t.List[t.Tuple[State, Outcome]]:
        v = self.ev.eval(s.value, st)
        for tg in s.targets:
            self.assign(tg, v, st, s)
        return [(st, Outcome("fall"))]

    def s_AnnAssign(self, s: ast.AnnAssign, st: State) -> t.List[t.Tuple[State, Outcome]]:
        if s.value is not None:
            self.assign(s.target, self.ev.eval(s.value, st), st, s)
        return [(st, Outcome("fall"))]

    def s_AugAssign(self, s: ast.AugAssign, st: State) -> t.List[t.Tuple[State, Outcome]]:
        if not isinstance(s.target, ast.Name):
            raise Unsupported(f"{self.func.qual}:{s.lineno}: augmented assignment to {unparse(s.target)}")
        name = s.target.id
        cur = st.env.get(name)
        val = self.ev.eval(s.value, st)
        if isinstance(s.op, ast.Add) and isinstance(cur, SBytes):
            add = self.ev.as_bytes(val, s.value)
            loops = getattr(st, "loops", [])
            if loops and name in loops[-1].deltas:
                loops[-1].deltas[name] = loops[-1].deltas[name] + add
            st.env[name] = cur + add
            return [(st, Outcome("fall"))]
        if isinstance(s.op, ast.Add) and isinstance(cur, list) and isinstance(val, (list, STuple)) and getattr(st, "loops", []) and name in st.loops[-1].outer_lists:  # type: ignore[attr-defined]
            self._loop_append(st, name, list(val if isinstance(val, list) else val.items), s)
            return [(st, Outcome("fall"))]
        if isinstance(s.op, ast.Add) and isinstance(cur, list) and isinstance(val, (list, STuple)):
            st.env[name] = list(cur) + list(val if isinstance(val, list) else val.items)
            return [(st, Outcome("fall"))]
        if isinstance(s.op, ast.Add) and isinstance(cur, (CallVal, SCat)) and isinstance(val, (CallVal, SBytes, SCat)):
            st.env[name] = SCat((cur.parts if isinstance(cur, SCat) else [cur]) + (val.parts if isinstance(val, SCat) else [val]))
            return [(st, Outcome("fall"))]
        if isinstance(cur, Lin) or isinstance(cur, (int, bool)):
            a = self.ev.as_lin(cur, s)
            b = self.ev.as_lin(val, s.value)
            if a.is_const() and b.is_const() and isinstance(s.op, (ast.BitOr, ast.BitAnd, ast.BitXor, ast.LShift, ast.RShift)):
                fn = {ast.BitOr: lambda x, y: x | y, ast.BitAnd: lambda x, y: x & y, ast.BitXor: lambda x, y: x ^ y, ast.LShift: lambda x, y: x << y, ast.RShift: lambda x, y: x >> y}[type(s.op)]
                st.env[name] = Lin(fn(a.const, b.const))
                return [(st, Outcome("fall"))]
            if isinstance(s.op, ast.Add):
                st.env[name] = a + b
            elif isinstance(s.op, ast.Sub):
                st.env[name] = a - b
            elif isinstance(s.op, ast.BitOr):
                st.env[name] = Lin.atom(("bitor",) + tuple(sorted([a, b], key=lambda z: repr(z.key()))))
            else:
                st.env[name] = Lin.atom((type(s.op).__name__.lower(), a, b))
            return [(st, Outcome("fall"))]
        raise Unsupported(f"{self.func.qual}:{s.lineno}: augmented assignment {unparse(s)}")

    def s_Return(self, s: ast.Return, st: State) -> t.List[t.Tuple[State, Outcome]]:
        v = self.ev.eval(s.value, st) if s.value is not None else None
        return [(st, Outcome("return", v, s))]

    def s_Raise(self, s: ast.Raise, st: State) -> t.List[t.Tuple[State, Outcome]]:
        return [(st, Outcome("raise", None, s))]

    def s_Break(self, s: ast.Break, st: State) -> t.List[t.Tuple[State, Outcome]]:
        return [(st, Outcome("break", None, s))]

    def s_Continue(self, s: ast.Continue, st: State) -> t.List[t.Tuple[State, Outcome]]:
        return [(st, Outcome("continue", None, s))]

    def s_If(self, s: ast.If, st: State) -> t.List[t.Tuple[State, Outcome]]:
        c = self.ev.truth(self.ev.eval(s.test, st), s.test, st)
        if isinstance(c, BoolVal):
            d = st.decisions.get(id(s))  # type: ignore[attr-defined]
            if d is None:
                raise NeedFork(s, c)
            c = d
        return self.block(s.body if c else s.orelse, st)

    # -------------------------------------------------------------------- loops
    def _loop_vars(self, body: t.List[ast.stmt]) -> t.Set[str]:
        out: t.Set[str] = set()
        for s in body:
            for n in ast.walk(s):
                if isinstance(n, ast.Assign):
                    for tg in n.targets:
                        for x in ast.walk(tg):
                            if isinstance(x, ast.Name):
                                out.add(x.id)
                elif isinstance(n, ast.AugAssign) and isinstance(n.target, ast.Name):
                    out.add(n.target.id)
                elif isinstance(n, ast.Call) and isinstance(n.func, ast.Attribute) and n.func.attr in ("append", "extend") and isinstance(n.func.value, ast.Name):
                    out.add(n.func.value.id)
        return out

    def _unroll_for(self, s: ast.For, st: State) -> t.Optional[t.List[t.Tuple[State, Outcome]]]:
        """for i in range(<constants>) with at most 16 trips: executed trip by trip on the abstract state."""
        if s.orelse or not isinstance(s.target, ast.Name) or not (isinstance(s.iter, ast.Call) and unparse(s.iter.func) == "range" and 1 <= len(s.iter.args) <= 3 and not s.iter.keywords):
            return None
        try:
            args = [self.ev.as_lin(self.ev.eval(a, st), a) for a in s.iter.args]
        except Unsupported:
            return None
        if not all(a.is_const() for a in args):
            return None
        rng = range(*[a.const for a in args])
        if len(rng) > 16:
            return None
        cur = _fork(st)
        done: t.List[t.Tuple[State, Outcome]] = []
        for k in rng:
            cur.env[s.target.id] = Lin(k)
            try:
                outs = self.block(list(s.body), cur)
            except Unsupported:
                return None
            nxt = [x for x, o in outs if o.kind in ("fall", "continue")]
            brk = [x for x, o in outs if o.kind == "break"]
            done += [(x, o) for x, o in outs if o.kind in ("raise", "return")]
            if len(nxt) + len(brk) != 1:
                return None
            if brk:
                return done + [(brk[0], Outcome("fall"))]
            cur = nxt[0]
        return done + [(cur, Outcome("fall"))]

    def s_For(self, s: ast.For, st: State) -> t.List[t.Tuple[State, Outcome]]:
        un = self._unroll_for(s, st)
        if un is not None:
            return un
        it = self.ev.eval(s.iter, st)
        loop = LoopInfo(st.new_id(), s)
        sub = _fork(st)
        # ---- iteration space
        if isinstance(s.iter, ast.Call) and unparse(s.iter.func) == "range":
            args = [self.ev.as_lin(self.ev.eval(a, st), a) for a in s.iter.args]
            loop.count = args[0] if len(args) == 1 else (args[1] - args[0])
            if isinstance(s.target, ast.Name):
                sub.env[s.target.id] = Lin.atom(("iter", loop.lid))
        elif isinstance(s.iter, ast.Call) and unparse(s.iter.func) == "enumerate":
            src = self.ev.eval(s.iter.args[0], st)
            if not (isinstance(src, TRef) and src.typ[0] == "list" and isinstance(s.target, ast.Tuple) and len(s.target.elts) == 2):
                raise Unsupported(f"{self.func.qual}:{s.lineno}: enumerate over {src!r}")
            loop.count, loop.over = Lin.atom(("len", src.path)), src.path
            start_e = s.iter.args[1] if len(s.iter.args) > 1 else next((k.value for k in s.iter.keywords if k.arg == "start"), None)
            start = self.ev.as_lin(self.ev.eval(start_e, st), start_e) if start_e is not None else Lin(0)
            self.assign(s.target.elts[0], Lin.atom(("iter", loop.lid)) + start, sub, s)
            self.assign(s.target.elts[1], typed_value(f"{src.path}[*]", src.typ[1]), sub, s)
        elif isinstance(it, TRef) and it.typ[0] == "list":
            # total = c; for x in xs: total += len(x)   ->   total = c + len(b"".join(xs))   (a pure size summation loop)
            if isinstance(s.target, ast.Name) and len(s.body) == 1 and isinstance(s.body[0], ast.AugAssign) and isinstance(s.body[0].op, ast.Add) and isinstance(s.body[0].target, ast.Name) and isinstance(st.env.get(s.body[0].target.id), Lin) and unparse(s.body[0].value) == f"len({s.target.id})" and it.typ[1][0] == "bytes":
                st.env[s.body[0].target.id] = st.env[s.body[0].target.id] + Lin.atom(("len", f"join({it.path})"))
                return [(st, Outcome("fall"))]
            # buf = ..; for x in xs: buf += x   ->   buf += b"".join(xs)   (a pure concatenation loop)
            if isinstance(s.target, ast.Name) and len(s.body) == 1 and isinstance(s.body[0], ast.AugAssign) and isinstance(s.body[0].op, ast.Add) and isinstance(s.body[0].target, ast.Name) and isinstance(st.env.get(s.body[0].target.id), SBytes) and unparse(s.body[0].value) == s.target.id and it.typ[1][0] == "bytes":
                st.env[s.body[0].target.id] = st.env[s.body[0].target.id] + self.ev.as_bytes(it, s.iter)
                return [(st, Outcome("fall"))]
            loop.count, loop.over = Lin.atom(("len", it.path)), it.path
            self.assign(s.target, typed_value(f"{it.path}[*]", it.typ[1]), sub, s)
        elif isinstance(it, (STuple, list)):
            # a loop over a literal tuple / list of known elements is unrolled
            items = it.items if isinstance(it, STuple) else it
            states: t.List[t.Tuple[State, Outcome]] = [(st, Outcome("fall"))]
            for item in items:
                nxt: t.List[t.Tuple[State, Outcome]] = []
                for cur, o in states:
                    if o.kind != "fall":
                        nxt.append((cur, o))
                        continue
                    self.assign(s.target, item, cur, s)
                    for x, o2 in self.block(s.body, cur):
                        if o2.kind in ("break",):
                            raise Unsupported(f"{self.func.qual}:{s.lineno}: break in an unrolled loop")
                        nxt.append((x, Outcome("fall") if o2.kind == "continue" else o2))
                states = nxt
            return states
        else:
            raise Unsupported(f"{self.func.qual}:{s.lineno}: loop over {unparse(s.iter)}")
        return self._loop_body(s, s.body, loop, st, sub)

    def _unroll_while(self, s: ast.While, st: State) -> t.Optional[t.List[t.Tuple[State, Outcome]]]:
        """A loop whose test has a definite value in every iteration (`while len(parts) < 3`, a counter from a constant)
        is executed iteration by iteration on the abstract state; None when some iteration is not decided."""
        if s.orelse:
            return None
        cur = _fork(st)
        done: t.List[t.Tuple[State, Outcome]] = []
        for _ in range(33):
            try:
                c = self.ev.truth(self.ev.eval(s.test, cur), s.test, cur)
            except Unsupported:
                return None
            if not isinstance(c, bool):
                return None
            if not c:
                return done + [(cur, Outcome("fall"))]
            try:
                outs = self.block(list(s.body), cur)
            except Unsupported:
                return None
            nxt = [x for x, o in outs if o.kind in ("fall", "continue")]
            brk = [x for x, o in outs if o.kind == "break"]
            done += [(x, o) for x, o in outs if o.kind in ("raise", "return")]
            if len(nxt) + len(brk) != 1:
                return None
            if brk:
                return done + [(brk[0], Outcome("fall"))]
            cur = nxt[0]
        return None

    def s_While(self, s: ast.While, st: State) -> t.List[t.Tuple[State, Outcome]]:
        un = self._unroll_while(s, st)
        if un is not None:
            return un
        loop = LoopInfo(st.new_id(), s)
        loop.count = Lin.atom(("while", loop.lid))
        sub = _fork(st)
        return self._loop_body(s, s.body, loop, st, sub)

    def _loop_body(self, s: ast.stmt, body: t.List[ast.stmt], loop: LoopInfo, st: State, sub: State) -> t.List[t.Tuple[State, Outcome]]:
        carried = self._loop_vars(body)
        base_reads = len(sub.reads)
        views: t.Dict[str, SView] = {}
        offsets: t.Dict[str, t.Tuple[Lin, SView]] = {}
        for name in carried:
            cur = st.env.get(name)
            if isinstance(cur, Lin) and name not in views:
                # a running integer offset into a view that is not rebound: `x = f(view[off:]); off += size`
                # element start IB := view.lo + off, so inside the body  off = IB - view.lo
                users = set()
                for s_ in body:
                    for n in ast.walk(s_):
                        if isinstance(n, ast.Subscript) and isinstance(n.value, ast.Name) and any(isinstance(x, ast.Name) and x.id == name for x in ast.walk(n.slice)):
                            users.add(n.value.id)
                stepped = any(isinstance(n, ast.AugAssign) and isinstance(n.target, ast.Name) and n.target.id == name and isinstance(n.op, ast.Add) for s_ in body for n in ast.walk(s_))
                if stepped and len(users) == 1:
                    vname = next(iter(users))
                    v = st.env.get(vname)
                    if isinstance(v, SView) and vname not in carried:
                        offsets[name] = (cur, v)
                        sub.env[name] = Lin.atom(("iterbase", loop.lid, name)) - v.lo
        for name in carried:
            cur = st.env.get(name)
            if isinstance(cur, SView):
                views[name] = cur
                sub.env[name] = SView(cur.src, Lin.atom(("iterbase", loop.lid, name)), cur.hi)
            elif isinstance(cur, SBytes):
                loop.deltas[name] = SBytes([])
            elif isinstance(cur, list):
                loop.outer_lists.add(name)
        sub.loops = list(getattr(st, "loops", [])) + [loop]  # type: ignore[attr-defined]
        sub.reads = list(sub.reads)
        outs = self.block(body, sub)
        normal = [(x, o) for x, o in outs if o.kind in ("fall", "break", "continue")]
        early = [(x, o) for x, o in outs if o.kind == "return"]
        if not normal:
            raise Unsupported(f"{self.func.qual}:{s.lineno}: loop body never completes normally")
        # all normally completing paths must agree on the layout facts
        sig0 = None
        chosen = normal[0][0]
        for x, o in normal:
            sig = (
                [r.describe() for r in x.reads[base_reads:]],
                {n: repr(t.cast(SView, x.env[n]).lo) for n in views if isinstance(x.env.get(n), SView)},
                {n: [sg.describe() for sg in d.segs] for n, d in x.loops[-1].deltas.items()},  # type: ignore[attr-defined]
            )
            if sig0 is None:
                sig0 = sig
            elif sig != sig0:
                raise Unsupported(f"{self.func.qual}:{s.lineno}: loop body paths disagree on layout")
        cloop: LoopInfo = chosen.loops[-1]  # type: ignore[attr-defined]
        cloop.reads = chosen.reads[base_reads:]
        after = _fork(st)
        after.counter = [max([st.counter[0]] + [x.counter[0] for x, _o in outs])]
        after.windows = list(getattr(st, "windows", [])) + [(s, dict(views), {n_: (o_[0], o_[1]) for n_, o_ in offsets.items()})]  # type: ignore[attr-defined]
        for name, v0 in views.items():
            v1 = chosen.env.get(name)
            if not isinstance(v1, SView):
                raise Unsupported(f"{self.func.qual}:{s.lineno}: loop rebinding of {name}")
            adv = v1.lo - Lin.atom(("iterbase", loop.lid, name))
            cloop.advance[name] = adv
            after.env[name] = SView(v0.src, v0.lo + Lin.atom(("loopspan", loop.lid, name)), v0.hi)
        for name, (off0, v) in offsets.items():
            v1 = chosen.env.get(name)
            if not isinstance(v1, Lin):
                raise Unsupported(f"{self.func.qual}:{s.lineno}: loop rebinding of {name}")
            cloop.advance[name] = v1 - (Lin.atom(("iterbase", loop.lid, name)) - v.lo)
            after.env[name] = off0 + Lin.atom(("loopspan", loop.lid, name))
        rid = after.new_id()
        src = next(iter(views.values())).src if views else (next(iter(offsets.values()))[1].src if offsets else "")
        lo0 = next(iter(views.values())).lo if views else ((next(iter(offsets.values()))[1].lo + next(iter(offsets.values()))[0]) if offsets else Lin(0))
        after.reads.append(
            Read(rid, "repeat", src, lo0, lo0, count=cloop.count, body=cloop.reads, advance=dict(cloop.advance), lid=loop.lid, node=s, appends=dict(cloop.appends))
        )
        for name, delta in cloop.deltas.items():
            ew = delta.length()
            if ew is not None and ew.is_const() and isinstance(cloop.count, Lin):
                width = cloop.count.scale(ew.const)
            else:
                width = Lin.atom(("span", cloop.over or f"loop{loop.lid}", repr(delta)))
            after.env[name] = t.cast(SBytes, st.env[name]) + SBytes(
                [Seg("repeat", width, over=cloop.over, count=cloop.count, body=delta.segs, var=None)]
            )
        for name, elem in cloop.appends.items():
            k = cloop.append_n.get(name, 1)
            before = st.env.get(name)
            if cloop.over and not cloop.reads:
                # a list built from the elements of a field (writer side): same value as [ELT for v in field]
                rep: t.Any = ("repeat", cloop.over, cloop.count, elem, None) if k == 1 else ("repeatk", cloop.over, cloop.count, elem, None, k)
                after.env[name] = list(before) + [rep] if isinstance(before, list) and before else rep
            elif k == 1 and not (isinstance(before, list) and before):
                after.env[name] = ("rrepeat", rid, elem)
            else:
                raise Unsupported(f"{self.func.qual}:{s.lineno}: list {name} receives {k} entries per iteration of a reading loop")
        # what the summary does not model must not survive the loop with its entry value: a carried plain variable the body
        # rebinds is unknown afterwards, and the calls the body makes stay on the record (marked by their position) so that
        # call-counting / provenance rules of the clients see them
        from .sym import Unknown

        modelled = set(views) | set(offsets) | set(cloop.deltas) | set(cloop.appends) | set(loop.outer_lists)
        for name in carried:
            if name in modelled or name not in st.env:
                continue
            v0_, v1_ = st.env.get(name), chosen.env.get(name)
            if v1_ is v0_:
                continue
            if isinstance(v0_, (int, str, bytes, bool, type(None))) and v1_ == v0_:
                continue
            after.env[name] = Unknown(f"{name} after the loop at line {s.lineno}")
        seen_calls = {id(c) for c in after.calls}
        for c in chosen.calls:
            if id(c) not in seen_calls:
                after.calls.append(c)
        res: t.List[t.Tuple[State, Outcome]] = [(after, Outcome("fall"))]
        for x, o in early:
            res.append((x, o))
        return res


# ------------------------------------------------------------------ public API
class WriterPath:
    def __init__(self, conds: t.List[t.Tuple[BoolVal, bool]], segs: t.List[Seg]) -> None:
        self.conds = conds
        self.segs = segs

    def describe(self) -> t.Dict[str, t.Any]:
        return {"when": [f"{'' if p else 'not '}{c.desc}" for c, p in self.conds], "segments": [s.describe() for s in self.segs]}


class ReaderPath:
    def __init__(self, conds: t.List[t.Tuple[BoolVal, bool]], reads: t.List[Read], result: t.Any, setattrs: t.List[t.Any]) -> None:
        self.conds = conds
        self.reads = reads
        self.result = result
        self.setattrs = setattrs

    def describe(self) -> t.Dict[str, t.Any]:
        return {
            "when": [f"{'' if p else 'not '}{c.desc}" for c, p in self.conds],
            "reads": [r.describe() for r in self.reads],
            "result": repr(self.result),
        }


def self_state(repo: Repo, func: Func, extra: t.Optional[t.Dict[str, t.Any]] = None) -> State:
    st = State()
    if func.cls is not None and not func.is_staticmethod:
        first = func.params[0] if func.params else None
        if first and not func.is_classmethod:
            st.env[first] = TRef("self", ("cls", func.cls))
        elif first:
            st.env[first] = func.cls
    a = func.node.args
    for arg in a.posonlyargs + a.args + a.kwonlyargs:
        if arg.arg in st.env:
            continue
        typ = parse_type(repo, arg.annotation, func.mod)
        if typ == ("bytes",):
            st.env[arg.arg] = SView(arg.arg, Lin(0), Lin.atom(("end", arg.arg)))
        else:
            st.env[arg.arg] = typed_value(arg.arg, typ)
    if extra:
        st.env.update(extra)
    return st


def writer_paths(repo: Repo, func: Func, env: t.Optional[t.Dict[str, t.Any]] = None) -> t.List[WriterPath]:
    """Segment tables of a pack()-like method, one per non-raising path."""
    st = self_state(repo, func, env)
    # writer parameters of bytes type are data, not input buffers
    for k, v in list(st.env.items()):
        if isinstance(v, SView):
            st.env[k] = SBytes([Seg("raw", Lin.atom(("len", k)), ref=Ref(k))])
    out: t.List[WriterPath] = []
    for s2, o in Interp(repo, func).run(st):
        if o.kind == "raise":
            continue
        if o.kind != "return":
            raise Unsupported(f"{func.qual}: writer path without return")
        b = o.value
        if not isinstance(b, SBytes):
            raise Unsupported(f"{func.qual}: writer returns {b!r}, not a byte layout")
        out.append(WriterPath(s2.conds, b.segs))
    if not out:
        raise Unsupported(f"{func.qual}: no returning writer path")
    return out


def reader_paths(repo: Repo, func: Func, env: t.Optional[t.Dict[str, t.Any]] = None) -> t.List[ReaderPath]:
    st = self_state(repo, func, env)
    out: t.List[ReaderPath] = []
    for s2, o in Interp(repo, func).run(st):
        if o.kind == "raise":
            continue
        if o.kind != "return":
            raise Unsupported(f"{func.qual}: reader path without return")
        out.append(ReaderPath(s2.conds, s2.reads, o.value, s2.setattrs))
    if not out:
        raise Unsupported(f"{func.qual}: no returning reader path")
    return out
