"""E3 - loop variant certificates (termination / bounded work), see DESIGN 3.3.

`certify(world, func)` returns one Certificate per for/while/comprehension of the
function: kind (V-ITER, V-RANGE, V-SHIFT, V-COUNT-DOWN, V-COUNT-UP, V-CONSUME, V-SCAN,
V-PEER) with the facts that discharge it, or kind None with the reason no certificate fits.
"""

from __future__ import annotations

import ast
import typing as t

from .cfg import CFG
from .intervals import IV, FuncIntervals, World
from .load import Func, body_nodes, unparse

SMALL = 65535  # a count field of at most two bytes bounds work by a constant


class Certificate:
    def __init__(self, node: ast.AST, func: Func) -> None:
        self.node = node
        self.func = func
        self.kind: t.Optional[str] = None
        self.why = ""
        self.bound: t.Optional[str] = None

    @property
    def text(self) -> str:
        n = self.node
        if isinstance(n, (ast.For, ast.AsyncFor)):
            return f"for {unparse(n.target)} in {unparse(n.iter)}"
        if isinstance(n, ast.While):
            return f"while {unparse(n.test)}"
        return unparse(n)[:120]

    def ok(self, kind: str, why: str, bound: t.Optional[str] = None) -> "Certificate":
        self.kind, self.why, self.bound = kind, why, bound
        return self

    def fail(self, why: str) -> "Certificate":
        self.kind, self.why = None, why
        return self


def _assigned_names(stmts: t.Sequence[ast.AST]) -> t.Set[str]:
    out: t.Set[str] = set()
    for s in stmts:
        for n in ast.walk(s):
            if isinstance(n, (ast.Assign, ast.AugAssign, ast.AnnAssign)):
                tgts = n.targets if isinstance(n, ast.Assign) else [n.target]
                for tg in tgts:
                    for x in ast.walk(tg):
                        if isinstance(x, ast.Name):
                            out.add(x.id)
    return out


def _mutates(body: t.Sequence[ast.stmt], name: str) -> bool:
    for s in body:
        for n in ast.walk(s):
            if isinstance(n, ast.Call) and isinstance(n.func, ast.Attribute) and isinstance(n.func.value, ast.Name):
                if n.func.value.id == name and n.func.attr in ("append", "extend", "insert", "add", "update"):
                    return True
    return False


class LoopChecker:
    def __init__(self, world: World, func: Func) -> None:
        self.world = world
        self.func = func
        self.res: FuncIntervals = world.analyse(func)
        self.cfg: CFG = self.res.cfg

    def all(self) -> t.List[Certificate]:
        out: t.List[Certificate] = []
        for n in body_nodes(self.func.node):
            if isinstance(n, (ast.For, ast.AsyncFor)):
                out.append(self.for_loop(n))
            elif isinstance(n, ast.While):
                out.append(self.while_loop(n))
            elif isinstance(n, (ast.ListComp, ast.GeneratorExp, ast.SetComp, ast.DictComp)):
                out.append(self.comprehension(n))
        out.sort(key=lambda c: getattr(c.node, "lineno", 0))
        return out

    # ---------------------------------------------------------------- helpers
    def _guards(self, node: ast.AST) -> t.List[t.Tuple[ast.expr, bool]]:
        nid = self.res.node_of_expr.get(id(node))
        if nid is None:
            for st, first in self.cfg.first_of_stmt.items():
                if st is node:
                    nid = first
        return self.cfg.guards_of(nid) if nid is not None else []

    def _size_guard(self, count: ast.expr, at: ast.AST) -> t.Optional[str]:
        """A dominating guard `count <= f(len(buffer))` (raise otherwise) relates the count to the input size."""
        from .flow import ReachingDefs, prov_ast

        ctext = unparse(count)
        rd = getattr(self, "_rd", None)
        if rd is None:
            rd = self._rd = ReachingDefs(self.func, self.cfg)  # type: ignore[attr-defined]
        guards = list(self._guards(at))
        try:
            cprov = ctext  # the count written in terms of the inputs (what the expanded guards mention)
            for where in (at, count, getattr(at, "iter", None), getattr(at, "test", None)):
                if where is not None and cprov == ctext:
                    cprov = unparse(prov_ast(rd, count, where))
        except Exception:
            cprov = ctext
        # a bound held in a local (`limit = len(v) // 8; if n > limit: raise`) counts as the bound it was computed from
        expanded = []
        for cond, pol in guards:
            expanded.append((cond, pol))
            if isinstance(cond, ast.Compare) and len(cond.ops) == 1:
                import copy as _copy

                c2 = _copy.copy(cond)
                c2.left = cond.left if unparse(cond.left) == ctext else prov_ast(rd, cond.left, cond)
                c2.comparators = [cond.comparators[0] if unparse(cond.comparators[0]) == ctext else prov_ast(rd, cond.comparators[0], cond)]
                expanded.append((c2, pol))
        for cond, pol in expanded:
            if not isinstance(cond, ast.Compare) or len(cond.ops) != 1:
                continue
            a, op, b = cond.left, cond.ops[0], cond.comparators[0]
            ta, tb = unparse(a), unparse(b)

            def sized(e: ast.expr) -> bool:
                return any(isinstance(x, ast.Call) and unparse(x.func) == "len" for x in ast.walk(e))

            def konst(e: ast.expr) -> t.Optional[int]:
                if any(isinstance(x, (ast.Name, ast.Call, ast.Attribute)) for x in ast.walk(e)):
                    return None
                def fold_(x: ast.expr) -> t.Optional[int]:
                    if isinstance(x, ast.Constant):
                        return x.value if isinstance(x.value, int) and not isinstance(x.value, bool) else None
                    if isinstance(x, ast.UnaryOp) and isinstance(x.op, ast.USub):
                        y = fold_(x.operand)
                        return -y if y is not None else None
                    if isinstance(x, ast.BinOp):
                        l_, r_ = fold_(x.left), fold_(x.right)
                        if l_ is None or r_ is None:
                            return None
                        if isinstance(x.op, ast.Add):
                            return l_ + r_
                        if isinstance(x.op, ast.Sub):
                            return l_ - r_
                        if isinstance(x.op, ast.Mult):
                            return l_ * r_
                        if isinstance(x.op, ast.LShift) and 0 <= r_ < 64:
                            return l_ << r_
                    return None

                v_ = fold_(e)
                return v_ if isinstance(v_, int) and not isinstance(v_, bool) else None

            def over(e: ast.expr) -> bool:
                """e >= count whenever count >= 0 (a negative count means no iteration at all): count itself,
                k * e' / e' << k / e' + k with a constant k (>= 1, >= 0, >= 0) and e' such an expression."""
                if unparse(e) in (ctext, cprov):
                    return True
                if isinstance(e, ast.BinOp) and isinstance(e.op, ast.Mult):
                    for x, y in ((e.left, e.right), (e.right, e.left)):
                        k = konst(y)
                        if k is not None and k >= 1 and over(x):
                            return True
                if isinstance(e, ast.BinOp) and isinstance(e.op, ast.LShift):
                    k = konst(e.right)
                    return k is not None and k >= 0 and over(e.left)
                if isinstance(e, ast.BinOp) and isinstance(e.op, ast.Add):
                    for x, y in ((e.left, e.right), (e.right, e.left)):
                        k = konst(y)
                        if k is not None and k >= 0 and over(x):
                            return True
                return False

            # holds: count <= sized  (directly, or as the negation of count > sized)
            le = (isinstance(op, (ast.LtE, ast.Lt)) and pol) or (isinstance(op, (ast.Gt, ast.GtE)) and not pol)
            ge = (isinstance(op, (ast.GtE, ast.Gt)) and pol) or (isinstance(op, (ast.Lt, ast.LtE)) and not pol)
            if over(a) and sized(b) and le and not self._scaled_up(b):
                return f"{ctext} is bounded by {tb} on every path here" + ("" if ta == ctext else f" (through {ta})")
            if over(b) and sized(a) and ge and not self._scaled_up(a):
                return f"{ctext} is bounded by {ta} on every path here" + ("" if tb == ctext else f" (through {tb})")
        return None

    def _scaled_up(self, e: ast.expr) -> bool:
        """len(x) * k or len(x) << k would not bound the count by the input size."""
        for x in ast.walk(e):
            if isinstance(x, ast.BinOp) and isinstance(x.op, (ast.Mult, ast.LShift, ast.Pow)):
                return True
        return False

    def _consumes(self, body: t.Sequence[ast.stmt], name: str) -> t.Optional[str]:
        """Every normal path through `body` rebinds name = name[k:] with k >= 1 or calls a consuming method."""
        facts: t.List[str] = []
        for s in body:
            for n in ast.walk(s):
                if isinstance(n, ast.Assign) and len(n.targets) == 1 and isinstance(n.targets[0], ast.Name) and n.targets[0].id == name:
                    v = n.value
                    if isinstance(v, ast.Subscript) and isinstance(v.value, ast.Name) and v.value.id == name and isinstance(v.slice, ast.Slice) and v.slice.lower is not None and v.slice.upper is None:
                        iv = self.res.iv_of(v.slice.lower)
                        if iv.lo is not None and iv.lo >= 1:
                            facts.append(f"{unparse(n)} with {unparse(v.slice.lower)} in {iv}")
                        else:
                            return None
                    else:
                        return None
        return "; ".join(facts) if facts and self._on_every_path(body, name) else None

    def _on_every_path(self, body: t.Sequence[ast.stmt], name: str) -> bool:
        """The rebinding statement is reached on every path through the body that continues the loop."""

        def passes(stmts: t.Sequence[ast.stmt]) -> bool:
            for s in stmts:
                if isinstance(s, ast.Assign) and len(s.targets) == 1 and isinstance(s.targets[0], ast.Name) and s.targets[0].id == name:
                    return True
                if isinstance(s, ast.If):
                    tb, eb = self._terminates(s.body), self._terminates(s.orelse)
                    if (tb or passes(s.body)) and (eb or passes(s.orelse)) and not (tb and eb):
                        return True
                    if tb and eb:
                        return True
                if isinstance(s, (ast.Continue,)):
                    return False
                if isinstance(s, (ast.Raise, ast.Return, ast.Break)):
                    return True
            return False

        return passes(body)

    @staticmethod
    def _terminates(stmts: t.Sequence[ast.stmt]) -> bool:
        return bool(stmts) and isinstance(stmts[-1], (ast.Raise, ast.Return, ast.Break))

    # ------------------------------------------------------------------ loops
    def comprehension(self, n: ast.AST) -> Certificate:
        c = Certificate(n, self.func)
        gens = n.generators  # type: ignore[attr-defined]
        for g in gens:
            it = g.iter
            if isinstance(it, ast.Call) and unparse(it.func) == "range":
                stop = it.args[-1 if len(it.args) < 3 else 1]
                iv = self.res.iv_of(stop)
                if len(it.args) == 3:
                    # range(a, b, s) with a constant step s >= 1 makes at most ceil((b - a) / s) trips
                    lo_iv, st_iv = self.res.iv_of(it.args[0]), self.res.iv_of(it.args[2])
                    if st_iv.lo is not None and st_iv.lo == st_iv.hi and st_iv.lo >= 1 and iv.hi is not None and lo_iv.lo is not None:
                        trips = max(0, -(-(iv.hi - lo_iv.lo) // st_iv.lo))
                        if trips <= SMALL:
                            continue
                        return c.fail(f"comprehension over {unparse(it)} with up to {trips} trips")
                if iv.hi is None or iv.hi > SMALL:
                    return c.fail(f"comprehension over {unparse(it)} with count in {iv}")
        return c.ok("V-ITER", "comprehension over a finite collection")

    def for_loop(self, n: t.Union[ast.For, ast.AsyncFor]) -> Certificate:
        c = Certificate(n, self.func)
        it = n.iter
        if isinstance(it, ast.Call) and unparse(it.func) == "range":
            args = it.args
            stop = args[0] if len(args) == 1 else args[1]
            iv = self.res.iv_of(stop)
            if len(args) == 3:
                step = self.res.iv_of(args[2])
                if step.hi is not None and step.hi < 0:
                    start = self.res.iv_of(args[0])
                    if start.hi is not None:
                        return c.ok("V-RANGE", f"descending range from {start}", f"<= {start.hi}")
                    g = self._len_only(args[0])
                    if g:
                        return c.ok("V-RANGE", f"descending range over {g}", "len of a collection")
            if iv.hi is not None and iv.hi <= SMALL:
                return c.ok("V-RANGE", f"count {unparse(stop)} in {iv}", f"<= {iv.hi}")
            g = self._len_only(stop)
            if g:
                return c.ok("V-RANGE", f"count is {g}", "len of a collection")
            sg = self._size_guard(stop, n)
            if sg:
                return c.ok("V-RANGE", sg, "proportional to the input size")
            return c.fail(f"range count {unparse(stop)} in {iv} is neither small nor related to the input size by a dominating guard")
        # iteration over a finite collection
        base = it
        if isinstance(base, ast.Call) and unparse(base.func) in ("enumerate", "reversed", "sorted", "list", "tuple", "zip"):
            if base.args:
                base = base.args[0]
        if isinstance(base, ast.Name) and _mutates(n.body, base.id):
            return c.fail(f"loop body grows the collection {base.id} it iterates")
        if isinstance(base, (ast.Name, ast.Attribute, ast.Subscript, ast.List, ast.Tuple)) or (isinstance(base, ast.Call) and isinstance(base.func, ast.Attribute) and base.func.attr in ("split", "items", "values", "keys")):
            return c.ok("V-ITER", f"iterates the finite collection {unparse(base)}")
        if isinstance(base, ast.Call):
            return c.ok("V-ITER", f"iterates the result of {unparse(base.func)}")
        return c.fail(f"iteration over {unparse(it)} not understood")

    def _len_only(self, e: ast.expr) -> t.Optional[str]:
        """Expression is len(x) +/- const, i.e. bounded by the size of an existing collection."""
        core = e
        if isinstance(core, ast.BinOp) and isinstance(core.op, (ast.Add, ast.Sub)) and isinstance(core.right, ast.Constant):
            core = core.left
        if isinstance(core, ast.Call) and unparse(core.func) == "len":
            return unparse(e)
        return None

    def while_loop(self, n: ast.While) -> Certificate:
        """The certificate shapes are written for one orientation of the loop test (`a > t`, `i < len(v)`, `i != n`);
        `t < a` is the same test, so a comparison is also tried mirrored."""
        c = self._while_loop(n, n.test)
        t_ = n.test
        flip: t.Dict[t.Any, t.Any] = {ast.Eq: ast.Eq, ast.NotEq: ast.NotEq, ast.Lt: ast.Gt, ast.LtE: ast.GtE, ast.Gt: ast.Lt, ast.GtE: ast.LtE}
        if c.kind is None and isinstance(t_, ast.Compare) and len(t_.ops) == 1 and type(t_.ops[0]) in flip:
            m = ast.copy_location(ast.Compare(left=t_.comparators[0], ops=[flip[type(t_.ops[0])]()], comparators=[t_.left]), t_)
            c2 = self._while_loop(n, m)
            if c2.kind is not None:
                return c2
        return c

    def _while_loop(self, n: ast.While, test: ast.expr) -> Certificate:
        c = Certificate(n, self.func)
        body = n.body
        assigned = _assigned_names(body)
        # ---- V-COUNT-DOWN: while a > t: ... a -= c
        if isinstance(test, ast.Compare) and len(test.ops) == 1 and isinstance(test.left, ast.Name):
            a, op, tnode = test.left.id, test.ops[0], test.comparators[0]
            dec = self._step(body, a, ast.Sub)
            inc = self._step(body, a, ast.Add)
            tnames = {x.id for x in ast.walk(tnode) if isinstance(x, ast.Name)}
            if isinstance(op, (ast.Gt, ast.GtE)) and dec is not None and not (tnames & assigned):
                hi = self._entry_iv(n, test.left)
                lo = self._entry_iv(n, tnode)
                if dec.lo is not None and dec.lo >= 1 and self._step_on_every_path(body, a):
                    bound = None
                    if hi.hi is not None and lo.lo is not None:
                        bound = f"<= {max(hi.hi - lo.lo + (1 if isinstance(op, ast.GtE) else 0), 0)} iterations"
                    return c.ok("V-COUNT-DOWN", f"{a} decreases by {dec} towards {unparse(tnode)} ({a} in {hi}, target in {lo} at entry)", bound)
            if isinstance(op, (ast.Lt, ast.LtE)) and inc is not None and not (tnames & assigned):
                if inc.lo is not None and inc.lo >= 1 and self._step_on_every_path(body, a):
                    return c.ok("V-COUNT-UP", f"{a} increases by {inc} towards {unparse(tnode)}", None)
            if isinstance(op, ast.NotEq) and inc is not None and self._step_on_every_path(body, a):
                # a != len(x) with a += d: needs d >= 1 and no overshoot: d <= len(x[a:]) by callee summary
                if inc.lo is not None and inc.lo >= 1 and self._no_overshoot(body, a, tnode):
                    return c.ok("V-COUNT-UP", f"{a} += d with d in {inc}, d never exceeds the remaining length (callee consumes a prefix of the slice it is given)")
                return c.fail(f"'!=' loop on {a}: the step {inc} is not shown to hit {unparse(tnode)} exactly")
            if isinstance(op, ast.NotEq) and dec is not None:
                return c.fail(f"'while {a} != {unparse(tnode)}' with {a} -= {dec}: no dominating order guard makes {a} >= target, the loop does not terminate when it starts below")
        # ---- V-COUNT-UP by growth: while len(L) < N: ... L.append(x) (exactly once on every path) ...
        if isinstance(test, ast.Compare) and len(test.ops) == 1 and isinstance(test.ops[0], ast.Lt) and isinstance(test.left, ast.Call) and unparse(test.left.func) == "len" and len(test.left.args) == 1 and isinstance(test.left.args[0], ast.Name):
            lst = test.left.args[0].id
            nnode = test.comparators[0]
            nnames = {x.id for x in ast.walk(nnode) if isinstance(x, ast.Name)}
            appends = [s for s in body if isinstance(s, ast.Expr) and isinstance(s.value, ast.Call) and isinstance(s.value.func, ast.Attribute) and s.value.func.attr == "append" and unparse(s.value.func.value) == lst]
            others = [x for s in body for x in ast.walk(s) if isinstance(x, ast.Call) and isinstance(x.func, ast.Attribute) and unparse(x.func.value) == lst and x.func.attr in ("pop", "remove", "clear", "insert", "extend", "reverse", "sort")]
            rebinds = lst in assigned
            skips = any(isinstance(x, ast.Continue) for s in body for x in ast.walk(s))
            if len(appends) == 1 and not others and not rebinds and not skips and not (nnames & assigned):
                iv = self._entry_iv(n, nnode)
                if iv.hi is not None and iv.hi <= SMALL:
                    return c.ok("V-COUNT-UP", f"one element appended to {lst} per iteration until it has {unparse(nnode)} in {iv}", f"<= {iv.hi}")
                sg = self._size_guard(nnode, n)
                if sg:
                    return c.ok("V-COUNT-UP", f"one element appended to {lst} per iteration; {sg}", "proportional to the input size")
                return c.fail(f"'while len({lst}) < {unparse(nnode)}': the count {unparse(nnode)} in {iv} is neither small nor related to the input size by a dominating guard")
        # ---- V-SHIFT: while x [> c]: x >>= k
        var = None
        if isinstance(test, ast.Name):
            var = test.id
        elif isinstance(test, ast.Compare) and len(test.ops) == 1 and isinstance(test.left, ast.Name) and isinstance(test.ops[0], (ast.Gt, ast.NotEq)):
            var = test.left.id
        if var is not None:
            sh = self._step(body, var, ast.RShift)
            if sh is not None and sh.lo is not None and sh.lo >= 1 and self._step_on_every_path(body, var):
                ent = self._entry_iv(n, ast.Name(id=var))
                nonneg = ent.lo is not None and ent.lo >= 0
                if isinstance(test, ast.Compare) and isinstance(test.ops[0], ast.Gt):
                    lim = self._entry_iv(n, test.comparators[0])
                    if lim.lo is not None and lim.lo >= 0:
                        nonneg = True  # inside the loop var > limit >= 0 holds before every shift
                if nonneg or self._nonneg_by_guard(n, var):
                    return c.ok("V-SHIFT", f"{var} >>= {sh} with {var} >= 0 at entry", "log2 of the value")
                return c.fail(f"{var} >>= {sh} but {var} may be negative at entry ({ent}): -1 >> k stays -1")
            # ---- V-CONSUME: while view: view = view[k:], k >= 1
            cons = self._consumes(body, var)
            if cons:
                return c.ok("V-CONSUME", cons, "proportional to the input size")
            call = self._consuming_call(body, var)
            if call:
                return c.ok("V-CONSUME", call, "proportional to the input size")
        # ---- while True: scan with exhaustion exit
        if isinstance(test, ast.Constant) and test.value:
            scan = self._scan(n)
            if scan:
                return c.ok("V-SCAN", scan, "proportional to the input size")
            return c.fail("'while True' without an exit that is forced when the input is exhausted")
        # ---- V-PEER: handshake loop, one blocking exchange per iteration
        if "complete" in unparse(test):
            sends = [x for s in body for x in ast.walk(s) if isinstance(x, ast.Call) and isinstance(x.func, ast.Attribute) and x.func.attr == "_send_pdu"]
            if sends:
                return c.ok("V-PEER", "one blocking _send_pdu exchange per iteration; termination is the peer's (C15)", "peer")
        return c.fail(f"no certificate shape matches 'while {unparse(test)}'")

    def _entry_iv(self, loop: ast.While, e: ast.expr) -> IV:
        nid = self.cfg.first_of_stmt.get(loop)
        if nid is None:
            return IV.top()
        # state flowing into the loop from outside = join over predecessors that are not in the body
        body_ids = set()
        for s in loop.body:
            for x in ast.walk(s):
                if not isinstance(x, (ast.expr, ast.stmt)):
                    continue
                k = self.res.node_of_expr.get(id(x))
                if k is not None:
                    body_ids.add(k)
        acc: t.Optional[IV] = None
        for p, lab in self.cfg.pred[nid]:
            if p in body_ids or p not in self.res.inn:
                continue
            out = self.res._transfer(self.cfg.nodes[p], self.res.inn[p], lab)
            if out is None:
                continue
            v = self.res.eval(e, out)
            acc = v if acc is None else acc.join(v)
        return acc if acc is not None else IV.top()

    def _nonneg_by_guard(self, loop: ast.While, var: str) -> bool:
        return False

    def _step(self, body: t.Sequence[ast.stmt], var: str, op: t.Type[ast.operator]) -> t.Optional[IV]:
        """Interval of the operand of every `var op= e` in the body (None when var is assigned otherwise)."""
        acc: t.Optional[IV] = None
        for s in body:
            for n in ast.walk(s):
                if isinstance(n, ast.AugAssign) and isinstance(n.target, ast.Name) and n.target.id == var:
                    if not isinstance(n.op, op):
                        return None
                    iv = self.res.iv_of(n.value)
                    acc = iv if acc is None else acc.join(iv)
                elif isinstance(n, ast.Assign) and any(isinstance(tg, ast.Name) and tg.id == var for tg in n.targets):
                    return None
        return acc

    def _step_on_every_path(self, body: t.Sequence[ast.stmt], var: str) -> bool:
        def passes(stmts: t.Sequence[ast.stmt]) -> bool:
            for s in stmts:
                if isinstance(s, ast.AugAssign) and isinstance(s.target, ast.Name) and s.target.id == var:
                    return True
                if isinstance(s, ast.If):
                    tb, eb = self._terminates(s.body), self._terminates(s.orelse)
                    if (tb or passes(s.body)) and (eb or passes(s.orelse)) and (s.orelse or tb):
                        if not (tb and not s.orelse):
                            return True
                if isinstance(s, ast.Continue):
                    return False
                if isinstance(s, (ast.Raise, ast.Return, ast.Break)):
                    return True
            return False

        return passes(body)

    def _no_overshoot(self, body: t.Sequence[ast.stmt], var: str, target: ast.expr) -> bool:
        """idx += k where (_, k) = f(buf[idx:]) and target is len(buf); f returns a consumed count <= len(arg)."""
        if not (isinstance(target, ast.Call) and unparse(target.func) == "len" and len(target.args) == 1):
            return False
        buf = unparse(target.args[0])
        for s in body:
            for n in ast.walk(s):
                if isinstance(n, ast.Assign) and isinstance(n.value, ast.Call) and n.value.args:
                    arg = n.value.args[0]
                    if isinstance(arg, ast.Subscript) and unparse(arg.value) == buf and isinstance(arg.slice, ast.Slice) and unparse(arg.slice.lower) == var and arg.slice.upper is None:
                        tgt = self.world.resolve_call(self.func, n.value)
                        if isinstance(tgt, Func) and consumed_at_most_len(self.world, tgt):
                            return True
        return False

    def _consuming_call(self, body: t.Sequence[ast.stmt], var: str) -> t.Optional[str]:
        """First statement of the body (on every path) passes the reader `var` to a callee that consumes >= 1 byte or raises."""
        for s in body:
            for n in ast.walk(s):
                if isinstance(n, ast.Call):
                    uses = [a for a in n.args if isinstance(a, ast.Name) and a.id == var]
                    recv = isinstance(n.func, ast.Attribute) and isinstance(n.func.value, ast.Name) and n.func.value.id == var
                    if recv and n.func.attr.startswith(("read_", "skip_value", "get_remaining_data")):  # type: ignore[union-attr]
                        return f"{unparse(n.func)} consumes a TLV or raises"
                    if uses:
                        tgt = self.world.resolve_call(self.func, n)
                        if isinstance(tgt, Func):
                            why = consumes_or_raises(self.world, tgt, tgt.params[1] if tgt.is_classmethod else tgt.params[0], 0)
                            if why:
                                return f"{tgt.qual}: {why}"
            break  # only the first statement counts: it is on every path through the body
        return None

    def _scan(self, loop: ast.While) -> t.Optional[str]:
        """while True: an exhaustion test that raises/breaks precedes (dominates) the rest of the body, and every
        iteration advances an index by >= 1 or consumes >= 1 byte."""
        body = loop.body
        if not body or not isinstance(body[0], ast.If) or not self._terminates(body[0].body):
            return None
        test = body[0].test
        ttxt = unparse(test)
        # shape 1: if len(data) < idx + 1: raise ; ... idx += 1
        for var in sorted(_assigned_names(body)):
            inc = self._step(body, var, ast.Add)
            if inc is not None and inc.lo is not None and inc.lo >= 1 and self._step_on_every_path(body[1:], var):
                from .linfacts import ge0_facts

                # the test, when false, bounds var from above by a length:  len(x) - var - c >= 0
                bounded = any(terms.get(var, 0) < 0 and any(k.startswith("len(") and v > 0 for k, v in terms.items()) for terms, _ in ge0_facts([(test, False)]))
                if bounded:
                    return f"exhaustion exit '{ttxt}' precedes every iteration; {var} += {inc}"
        # shape 2: if not view: raise ; ... view = view[k:], k >= 1
        if isinstance(test, ast.UnaryOp) and isinstance(test.op, ast.Not) and isinstance(test.operand, ast.Name):
            var = test.operand.id
            cons = self._consumes(body[1:], var)
            if cons:
                return f"exhaustion exit 'if not {var}' precedes every iteration; {cons}"
            call = self._consuming_call(body[1:], var)
            if call:
                return f"exhaustion exit 'if not {var}' precedes every iteration; {call}"
        return None


# ------------------------------------------------------------- callee summaries
def consumed_at_most_len(world: World, f: Func) -> bool:
    """f(buf) returns (value, n) with n <= len(buf): n counts index steps each preceded by a bounds check, or is the
    1-based position of the element an `enumerate(buf, start=1)` loop stopped at."""
    p0 = f.params[0] if f.params else None
    rets = [n for n in body_nodes(f.node) if isinstance(n, ast.Return)]
    if p0 is not None and rets and all(isinstance(r.value, ast.Tuple) and len(r.value.elts) == 2 and isinstance(r.value.elts[1], ast.Name) for r in rets):
        ok_all = True
        for r in rets:
            cnt = t.cast(ast.Name, t.cast(ast.Tuple, r.value).elts[1]).id
            loops = [x for x in body_nodes(f.node) if isinstance(x, ast.For) and any(y is r for y in ast.walk(x))]
            ok = False
            for lp in loops:
                it = lp.iter
                if isinstance(it, ast.Call) and unparse(it.func) == "enumerate" and it.args and unparse(it.args[0]) == p0 and isinstance(lp.target, ast.Tuple) and len(lp.target.elts) == 2 and unparse(lp.target.elts[0]) == cnt:
                    start = it.args[1] if len(it.args) > 1 else next((k.value for k in it.keywords if k.arg == "start"), ast.Constant(value=0))
                    rebinds = any(isinstance(x, ast.Name) and x.id in (cnt, p0) and isinstance(x.ctx, ast.Store) for b_ in lp.body for x in ast.walk(b_))
                    if isinstance(start, ast.Constant) and start.value in (0, 1) and not rebinds:
                        ok = True
            ok_all = ok_all and ok
        if ok_all:
            return True
    for n in body_nodes(f.node):
        if isinstance(n, ast.Return) and isinstance(n.value, ast.Tuple) and len(n.value.elts) == 2 and isinstance(n.value.elts[1], ast.Name):
            idx = n.value.elts[1].id
            p = f.params[0]
            lc = LoopChecker(world, f)
            for loop in [x for x in body_nodes(f.node) if isinstance(x, ast.While)]:
                scan = lc._scan(loop)
                if scan and loop.body and isinstance(loop.body[0], ast.If):
                    # the exhaustion test, when it does not raise, proves idx < len(buf) before the octet is consumed
                    from .linfacts import ge0_facts, goal_ge, proves_ge0

                    facts = ge0_facts([(loop.body[0].test, False)])
                    if proves_ge0(facts, goal_ge(ast.parse(f"len({p})", mode="eval").body, ast.Name(id=idx, ctx=ast.Load()), 1)):
                        return True
    return False


def consumes_or_raises(world: World, f: Func, param: str, depth: int) -> t.Optional[str]:
    """Every returning path of f calls a consuming method on `param` (or passes it on to such a callee)."""
    if depth > 4:
        return None
    body = [s for s in f.node.body if not (isinstance(s, ast.Expr) and isinstance(s.value, ast.Constant))]

    def path_ok(stmts: t.Sequence[ast.stmt]) -> t.Optional[str]:
        for s in stmts:
            if isinstance(s, ast.If):
                a = path_ok(s.body)
                b = path_ok(s.orelse) if s.orelse else None
                if a and (b or not s.orelse and False):
                    return a
                if a and s.orelse and b:
                    return a
                continue
            if isinstance(s, ast.Raise):
                return "raises"
            for n in ast.walk(s):
                if isinstance(n, ast.Call):
                    recv = isinstance(n.func, ast.Attribute) and isinstance(n.func.value, ast.Name) and n.func.value.id == param
                    if recv and n.func.attr.startswith("read_"):  # type: ignore[union-attr]
                        return f"{param}.{n.func.attr}() consumes a TLV"  # type: ignore[union-attr]
                    if any(isinstance(a, ast.Name) and a.id == param for a in n.args):
                        tgt = world.resolve_call(f, n)
                        if isinstance(tgt, Func):
                            sub = consumes_or_raises(world, tgt, tgt.params[1] if tgt.is_classmethod else tgt.params[0], depth + 1)
                            if sub:
                                return f"-> {tgt.qual}: {sub}"
            if isinstance(s, ast.Return):
                return None
        return None

    # all returning paths: walk top level; an `if` whose body returns must itself consume first
    def all_paths(stmts: t.Sequence[ast.stmt], consumed: bool) -> bool:
        for i, s in enumerate(stmts):
            if isinstance(s, ast.If):
                if not all_paths(list(s.body) + list(stmts[i + 1 :]), consumed):
                    return False
                return all_paths(list(s.orelse) + list(stmts[i + 1 :]), consumed)
            if isinstance(s, ast.Raise):
                return True
            if isinstance(s, ast.Return):
                return consumed or path_ok([s]) is not None
            if path_ok([s]):
                consumed = True
        return consumed

    if all_paths(body, False):
        return path_ok(body) or "consumes on every returning path"
    return None
