"""Syntax directed abstract interpreter over the symbolic domain of sym.py.

It interprets the *codec idiom* of the package (see DESIGN 3.4): writers building
byte strings from ``to_bytes`` / ``join`` / nested ``pack()``, readers slicing a
memoryview.  The result of interpreting a writer is a segment table, of a reader a
read table.  No program code is executed: expressions are mapped to abstract values.
"""

from __future__ import annotations

import ast
import typing as t

from .load import AnalysisError, Cls, EnumVal, Func, Mod, Obj, Repo, Unfoldable, unparse
from .sym import Lin, Ref, SBytes, Seg, SObj, SStr, STuple, Unknown, floordiv, mod


class Unsupported(AnalysisError):
    """A construct outside the idiom table (ANALYSIS-ERROR, never a violation)."""


# ------------------------------------------------------------------ static types
Typ = t.Tuple[t.Any, ...]


def parse_type(repo: Repo, ann: t.Optional[ast.expr], mod_: Mod) -> Typ:
    if ann is None:
        return ("any",)
    if isinstance(ann, ast.Constant) and isinstance(ann.value, str):
        try:
            ann = ast.parse(ann.value, mode="eval").body
        except SyntaxError:
            return ("any",)
    if isinstance(ann, ast.Constant) and ann.value is None:
        return ("none",)
    txt = unparse(ann)
    if txt in ("int",):
        return ("int",)
    if txt in ("bool",):
        return ("bool",)
    if txt in ("bytes", "bytearray", "memoryview"):
        return ("bytes",)
    if txt == "str":
        return ("str",)
    if txt in ("uuid.UUID", "UUID"):
        return ("uuid",)
    if isinstance(ann, ast.Subscript):
        head = unparse(ann.value)
        sl = ann.slice
        elts = list(sl.elts) if isinstance(sl, ast.Tuple) else [sl]
        if head in ("t.Optional", "typing.Optional", "Optional"):
            return ("opt", parse_type(repo, elts[0], mod_))
        if head in ("t.List", "typing.List", "List", "list", "t.Sequence"):
            return ("list", parse_type(repo, elts[0], mod_))
        if head in ("t.Union", "typing.Union", "Union"):
            inner = [parse_type(repo, e, mod_) for e in elts]
            non_none = [x for x in inner if x != ("none",)]
            if all(x == ("bytes",) for x in non_none):
                return ("bytes",) if len(non_none) == len(inner) else ("opt", ("bytes",))
            if len(non_none) == 1:
                return ("opt", non_none[0]) if len(inner) > 1 else non_none[0]
            return ("any",)
        if head in ("tuple", "t.Tuple", "typing.Tuple", "Tuple"):
            return ("tuple", tuple(parse_type(repo, e, mod_) for e in elts))
        if head in ("t.Type", "typing.Type", "type"):
            return ("any",)
        return ("any",)
    r = repo.resolve(ann, mod_) if isinstance(ann, (ast.Name, ast.Attribute)) else None
    if isinstance(r, Cls):
        if r.enum_kind() in ("enum.IntEnum", "enum.IntFlag"):
            return ("intenum", r)
        if r.enum_kind():
            return ("enum", r)
        return ("cls", r)
    return ("any",)


class TRef:
    """A typed reference to program data (``self.contexts``, loop variable ``c``...)."""

    def __init__(self, path: str, typ: Typ) -> None:
        self.path = path
        self.typ = typ

    def __repr__(self) -> str:
        return f"TRef({self.path}:{self.typ[0]})"


class SView:
    """A window [lo, hi) into the input buffer `src` of a reader."""

    def __init__(self, src: str, lo: Lin, hi: Lin) -> None:
        self.src = src
        self.lo = lo
        self.hi = hi

    def __repr__(self) -> str:
        return f"SView({self.src}[{self.lo!r}:{self.hi!r}])"


class ReadVal:
    """Non integer result of a read (raw bytes, decoded string, uuid, nested object)."""

    def __init__(self, rid: int, kind: str, cls: t.Optional[Cls] = None) -> None:
        self.rid = rid
        self.kind = kind
        self.cls = cls

    def __repr__(self) -> str:
        return f"<r{self.rid}:{self.kind}>"


class Read:
    def __init__(self, rid: int, kind: str, src: str, lo: Lin, hi: Lin, **kw: t.Any) -> None:
        self.rid = rid
        self.kind = kind  # int | raw | str | uuid | nested | lit | repeat
        self.src = src
        self.lo = lo
        self.hi = hi
        self.a = kw
        self.node: t.Optional[ast.AST] = kw.get("node")

    def describe(self) -> t.Dict[str, t.Any]:
        d = {"id": self.rid, "kind": self.kind, "src": self.src, "lo": repr(self.lo), "hi": repr(self.hi)}
        for k, v in self.a.items():
            if k == "node":
                continue
            if k == "body":
                d[k] = [r.describe() for r in v]
            elif isinstance(v, bytes):
                d[k] = v.hex()
            elif isinstance(v, Cls):
                d[k] = v.qual
            else:
                d[k] = v if isinstance(v, (str, int, bool, type(None))) else repr(v)
        return d


class DictMap:
    """``{const: const, ...}.get(key)`` with a symbolic key: a table driven conversion."""

    def __init__(self, table: t.Dict[t.Any, t.Any], key: t.Any) -> None:
        self.table = table
        self.key = key

    def __repr__(self) -> str:
        return f"DictMap({self.table!r}[{self.key!r}])"


class BoolVal:
    """A condition the interpreter forks on.  `desc` identifies it, `info` carries structure."""

    def __init__(self, desc: str, info: t.Optional[t.Dict[str, t.Any]] = None) -> None:
        self.desc = desc
        self.info = info or {}

    def __repr__(self) -> str:
        return f"Bool({self.desc})"


class NeedFork(Exception):
    """Raised by the evaluator when a condition has to be decided both ways; the interpreter re-runs the statement."""

    def __init__(self, node: ast.AST, cond: "BoolVal") -> None:
        self.node = node
        self.cond = cond


class CallRec:
    """A call seen on a path with its abstract argument values (for provenance rules)."""

    def __init__(self, node: ast.Call, name: str, args: t.List[t.Any], kwargs: t.Dict[str, t.Any], recv: t.Any = None) -> None:
        self.node = node
        self.name = name
        self.args = args
        self.kwargs = kwargs
        self.recv = recv
        self.result: t.Any = None
        self.func: t.Optional[Func] = None

    def arg(self, pos: int, name: t.Optional[str] = None) -> t.Any:
        if name and name in self.kwargs:
            return self.kwargs[name]
        if 0 <= pos < len(self.args):
            return self.args[pos]
        return None

    def __repr__(self) -> str:
        return f"Call({self.name}({', '.join(map(repr, self.args))}{', ' if self.kwargs else ''}{', '.join(f'{k}={v!r}' for k, v in self.kwargs.items())}))"


class BSlice:
    """A slice [lo:hi) of a byte string datum (``stub_data[:n]``)."""

    def __init__(self, base: t.Any, lo: t.Optional[Lin], hi: t.Optional[Lin]) -> None:
        self.base = base
        self.lo = lo
        self.hi = hi

    def __repr__(self) -> str:
        return f"{self.base!r}[{'' if self.lo is None else repr(self.lo)}:{'' if self.hi is None else repr(self.hi)}]"


class SBuf:
    """A mutable buffer of a known (symbolic) size: ``bytearray(n)``."""

    def __init__(self, bid: str, size: Lin) -> None:
        self.bid = bid
        self.size = size

    def __repr__(self) -> str:
        return f"buf#{self.bid}[{self.size!r}]"


class SCat:
    """Bytes built by appending opaque pieces to one another (`buf = bytearray(a); buf += b`): the pieces in order."""

    def __init__(self, parts: t.List[t.Any]) -> None:
        self.parts = parts

    def __repr__(self) -> str:
        return "cat(" + ", ".join(repr(p) for p in self.parts) + ")"


class CallVal:
    """The (unmodelled) result of a recorded call."""

    def __init__(self, rec: CallRec) -> None:
        self.rec = rec

    def __repr__(self) -> str:
        return f"result-of-{self.rec.name}@{self.rec.node.lineno}"


class State:
    def __init__(self) -> None:
        self.env: t.Dict[str, t.Any] = {}
        self.reads: t.List[Read] = []
        self.conds: t.List[t.Tuple[BoolVal, bool]] = []
        self.setattrs: t.List[t.Tuple[t.Any, str, t.Any]] = []
        self.calls: t.List["CallRec"] = []
        self.stores: t.List[t.Tuple[t.Any, t.Any, t.Any, ast.AST]] = []  # (target value, index/slice, value, node)
        self.counter = [0]

    def fork(self) -> "State":
        s = State()
        # list values are grown in place by append/extend/+=: a fork gets its own copy so sibling paths do not share them
        s.env = {k: (list(v) if type(v) is list else v) for k, v in self.env.items()}
        s.reads = list(self.reads)
        s.conds = list(self.conds)
        s.setattrs = list(self.setattrs)
        s.calls = list(self.calls)
        s.stores = list(self.stores)
        s.counter = [self.counter[0]]  # ids are unique along a path; sibling paths number their own reads
        return s

    def new_id(self) -> int:
        self.counter[0] += 1
        return self.counter[0]


def typed_value(path: str, typ: Typ) -> t.Any:
    k = typ[0]
    if k in ("int", "intenum", "bool"):
        return Lin.atom(("field", path))
    if k == "bytes":
        return SBytes([Seg("raw", Lin.atom(("len", path)), ref=Ref(path))])
    if k == "str":
        return SStr([Ref(path)])
    return TRef(path, typ)


def _negative(x: Lin) -> bool:
    """x < 0 for all non-negative atom values (sizes, unsigned wire fields): index counts from the end."""
    if x.is_const():
        return x.const < 0
    return x.const <= 0 and all(c < 0 for c in x.terms.values())


class Evaluator:
    """Expression evaluator.  `fork` is a callback used when a condition must be split."""

    def __init__(self, repo: Repo, func: Func) -> None:
        self.repo = repo
        self.func = func
        self.mod = func.mod

    # ----------------------------------------------------------------- helpers
    def fold(self, e: ast.expr) -> t.Tuple[bool, t.Any]:
        return self.repo.try_fold(e, self.mod)

    def const_to_value(self, v: t.Any) -> t.Any:
        if isinstance(v, bool) or v is None:
            return v
        if isinstance(v, EnumVal):
            return Lin(v.value) if isinstance(v.value, int) else v
        if isinstance(v, int):
            return Lin(v)
        if isinstance(v, (bytes, bytearray)):
            return SBytes([Seg("lit", Lin(len(v)), value=bytes(v))]) if v else SBytes([])
        if isinstance(v, str):
            return SStr([v])
        if isinstance(v, dict):
            return ("constdict", v)
        return v

    def as_lin(self, v: t.Any, node: ast.AST) -> Lin:
        if isinstance(v, Lin):
            return v
        if isinstance(v, bool):
            return Lin(int(v))
        if isinstance(v, int):
            return Lin(v)
        if isinstance(v, EnumVal) and isinstance(v.value, int):
            return Lin(v.value)
        if isinstance(v, TRef) and v.typ[0] in ("int", "intenum", "any", "opt"):
            return Lin.atom(("field", v.path))
        if isinstance(v, Unknown):
            return Lin.atom(("opaque", v.what))
        if isinstance(v, CallVal):
            return Lin.atom(("opaque", repr(v)))
        raise Unsupported(f"{self.func.qual}:{getattr(node, 'lineno', 0)}: expected an integer, got {v!r} in {unparse(node)}")

    def as_bytes(self, v: t.Any, node: ast.AST) -> SBytes:
        if isinstance(v, SBytes):
            return v
        if isinstance(v, (bytes, bytearray)):
            return t.cast(SBytes, self.const_to_value(bytes(v)))
        if isinstance(v, TRef) and v.typ[0] in ("bytes", "any"):
            return SBytes([Seg("raw", Lin.atom(("len", v.path)), ref=Ref(v.path))])
        if isinstance(v, TRef) and v.typ[0] == "opt" and v.typ[1][0] == "bytes":
            return SBytes([Seg("raw", Lin.atom(("len", v.path)), ref=Ref(v.path))])
        if isinstance(v, CallVal):
            return SBytes([Seg("raw", Lin.atom(("len", repr(v))), ref=Ref(repr(v)), call=v)])
        if isinstance(v, TRef) and (v.typ[0] == "list" or (v.typ[0] == "opt" and v.typ[1][0] == "list")):
            return SBytes([Seg("raw", Lin.atom(("len", f"join({v.path})")), ref=Ref(f"join({v.path})"))])
        if isinstance(v, DictMap) and v.table and all(isinstance(x, bytes) for x in v.table.values()):
            widths = {len(x) for x in v.table.values()}
            key = v.key
            path = key.parts[0].path if isinstance(key, SStr) and len(key.parts) == 1 and isinstance(key.parts[0], Ref) else repr(key)
            if len(widths) == 1:
                return SBytes([Seg("enum", Lin(widths.pop()), mapping=dict(v.table), ref=Ref(path))])
        if isinstance(v, Unknown):
            return SBytes([Seg("raw", Lin.atom(("len", v.what)), ref=Ref(v.what))])
        if isinstance(v, SView):
            # the bytes of a window of a buffer: opaque content of known width
            return SBytes([Seg("raw", v.hi - v.lo, ref=Ref(f"{v.src}[{v.lo!r}:{v.hi!r}]"))])
        raise Unsupported(f"{self.func.qual}:{getattr(node, 'lineno', 0)}: expected bytes, got {v!r} in {unparse(node)}")

    # ------------------------------------------------------------- expressions
    def eval(self, e: ast.expr, st: State) -> t.Any:
        m = getattr(self, "e_" + type(e).__name__, None)
        if m is None:
            raise Unsupported(f"{self.func.qual}:{e.lineno}: expression kind {type(e).__name__}: {unparse(e)}")
        return m(e, st)

    def e_Constant(self, e: ast.Constant, st: State) -> t.Any:
        return self.const_to_value(e.value)

    def e_Name(self, e: ast.Name, st: State) -> t.Any:
        if e.id in st.env:
            return st.env[e.id]
        ok, v = self.fold(e)
        if ok:
            return self.const_to_value(v)
        r = self.repo.resolve_name(e.id, self.mod)
        if isinstance(r, (Cls, Func)):
            return r
        if e.id in ("int", "len", "bytes", "bytearray", "memoryview", "range", "enumerate", "bool", "str", "object", "isinstance", "getattr"):
            return ("builtin", e.id)
        return Unknown(e.id)

    def e_Attribute(self, e: ast.Attribute, st: State) -> t.Any:
        ok, v = self.fold(e) if not self._mentions_local(e, st) else (False, None)
        if ok:
            return self.const_to_value(v)
        base = self.eval(e.value, st)
        return self.attr(base, e.attr, e, st)

    def _mentions_local(self, e: ast.AST, st: State) -> bool:
        return any(isinstance(n, ast.Name) and n.id in st.env for n in ast.walk(e))

    def attr(self, base: t.Any, name: str, node: ast.AST, st: State) -> t.Any:
        if isinstance(base, STuple) and base.names is not None and name in base.names:
            return base.items[base.names.index(name)]
        if isinstance(base, TRef):
            typ = base.typ
            if typ[0] == "opt":
                typ = typ[1]
            if typ[0] == "cls" and typ[1].qual in getattr(self.repo, "new_classes", set()) and any(x.endswith("NamedTuple") for x in typ[1].ext_bases) and not typ[1].methods and name in [p.name for p in typ[1].init_params()]:
                # a field of a NamedTuple value is its item: seal.start is seal[0]
                return self._nt_item(base, typ[1], [p.name for p in typ[1].init_params()].index(name))
            if typ[0] == "cls":
                cls: Cls = typ[1]
                fld = cls.field(name)
                if fld is not None and not fld.init and fld.default is not None:
                    ok, v = self.repo.try_fold(fld.default, self.repo.classes[fld.owner].mod)
                    if ok:
                        return self.const_to_value(v)
                if fld is not None:
                    return typed_value(f"{base.path}.{name}", parse_type(self.repo, fld.ann, self.repo.classes[fld.owner].mod))
                for c in cls.mro():
                    if name in c.class_consts:
                        ok, v = self.repo.try_fold(c.class_consts[name], c.mod)
                        if ok:
                            return self.const_to_value(v)
                # an instance attribute of a plain class: typed by `self.name: T = ..` or `self.name = <annotated parameter>`
                # in __init__ when that is its only assignment in the class
                for c in cls.mro():
                    init = c.methods.get("__init__")
                    if init is None:
                        continue
                    writes = [n for m_ in c.methods.values() for n in ast.walk(m_.node) if isinstance(n, (ast.Assign, ast.AnnAssign, ast.AugAssign)) and any(isinstance(tg, ast.Attribute) and tg.attr == name and isinstance(tg.value, ast.Name) and tg.value.id == "self" for tg in (n.targets if isinstance(n, ast.Assign) else [n.target]))]
                    if len(writes) != 1 or not any(writes[0] is n for n in ast.walk(init.node)):
                        continue
                    w = writes[0]
                    ann: t.Optional[ast.expr] = None
                    if isinstance(w, ast.AnnAssign):
                        ann = w.annotation
                    elif isinstance(w, ast.Assign) and isinstance(w.value, ast.Name):
                        for a in init.node.args.posonlyargs + init.node.args.args + init.node.args.kwonlyargs:
                            if a.arg == w.value.id:
                                ann = a.annotation
                    if ann is not None:
                        typ2 = parse_type(self.repo, ann, c.mod)
                        if typ2 and typ2[0] in ("cls", "opt"):
                            return typed_value(f"{base.path}.{name}", typ2)
                m = cls.find_method(name)
                if m is not None:
                    if m.is_property:
                        return Unknown(f"{base.path}.{name}")
                    return ("method", base, m)
                return Unknown(f"{base.path}.{name}")
            if typ[0] == "uuid":
                if name == "bytes_le":
                    return SBytes([Seg("uuid", Lin(16), ref=Ref(base.path), form="bytes_le")])
                if name == "bytes":
                    return SBytes([Seg("uuid", Lin(16), ref=Ref(base.path), form="bytes")])
            if typ[0] in ("intenum", "enum") and name == "value":
                return Lin.atom(("field", base.path))
            if typ[0] == "tuple":
                return Unknown(f"{base.path}.{name}")
            return Unknown(f"{base.path}.{name}")
        if isinstance(base, Lin) and name == "value":
            return base
        if isinstance(base, Lin) and name in ("to_bytes",):
            return ("int_method", base, name)
        if isinstance(base, SObj):
            if name in base.fields:
                return base.fields[name]
            m = base.cls.find_method(name)
            if m is not None:
                return ("method", base, m)
            fld = base.cls.field(name)
            if fld is not None and fld.default is not None:
                ok, v = self.repo.try_fold(fld.default, self.repo.classes[fld.owner].mod)
                if ok:
                    return self.const_to_value(v)
            return Unknown(f"{base!r}.{name}")
        if isinstance(base, ReadVal) and base.kind == "nested" and base.cls is not None:
            fld = base.cls.field(name)
            if fld is not None:
                return typed_value(f"<r{base.rid}>.{name}", parse_type(self.repo, fld.ann, self.repo.classes[fld.owner].mod))
            return Unknown(f"<r{base.rid}>.{name}")
        if isinstance(base, Cls):
            m = base.find_method(name)
            if m is not None:
                return ("method", base, m)
            for c in base.mro():
                if name in c.class_consts:
                    ok, v = self.repo.try_fold(c.class_consts[name], c.mod)
                    if ok:
                        return self.const_to_value(v)
            if name == "__name__":
                return SStr([base.name])
            return Unknown(f"{base.qual}.{name}")
        if isinstance(base, SView) and name in ("tobytes",):
            return ("view_method", base, name)
        if isinstance(base, (SBytes, SStr, SView, ReadVal, Lin)):
            return ("value_method", base, name)
        if isinstance(base, Obj):
            if name in base.attrs:
                return self.const_to_value(base.attrs[name])
        if isinstance(base, tuple) and base and base[0] == "builtin":
            return ("builtin", f"{base[1]}.{name}")
        if isinstance(base, Unknown):
            return Unknown(f"{base.what}.{name}")
        if isinstance(base, CallVal):
            fn_ = base.rec.func
            if fn_ is not None and fn_.node.returns is not None:
                rt = parse_type(self.repo, fn_.node.returns, fn_.mod)
                if rt[0] == "opt":
                    rt = rt[1]
                if rt[0] == "cls":
                    fld = rt[1].field(name)
                    if fld is not None:
                        return typed_value(f"{base!r}.{name}", parse_type(self.repo, fld.ann, self.repo.classes[fld.owner].mod))
            return Unknown(f"{base!r}.{name}")
        if isinstance(base, tuple) and base and base[0] == "method":
            return Unknown(unparse(node))
        return Unknown(unparse(node))

    def e_JoinedStr(self, e: ast.JoinedStr, st: State) -> t.Any:
        parts: t.List[t.Any] = []
        for v in e.values:
            if isinstance(v, ast.Constant):
                parts.append(str(v.value))
            elif isinstance(v, ast.FormattedValue) and v.format_spec is None and v.conversion == -1:
                val = self.eval(v.value, st)
                if isinstance(val, SStr):
                    parts += val.parts
                elif isinstance(val, TRef) and (val.typ[0] == "str" or (val.typ[0] == "opt" and val.typ[1][0] == "str")):
                    parts.append(Ref(val.path))
                else:
                    parts.append(Unknown(unparse(v.value)))
            else:
                parts.append(Unknown(unparse(v)))
        return SStr(parts)

    def _elements(self, elts: t.List[ast.expr], st: State) -> t.List[t.Any]:
        out: t.List[t.Any] = []
        for x in elts:
            if isinstance(x, ast.Starred):
                v = self.eval(x.value, st)
                if isinstance(v, list):
                    out.extend(v)
                elif isinstance(v, STuple):
                    out.extend(v.items)
                else:
                    raise Unsupported(f"{self.func.qual}:{x.lineno}: starred element {unparse(x)} of unknown length")
            else:
                out.append(self.eval(x, st))
        return out

    def e_Tuple(self, e: ast.Tuple, st: State) -> t.Any:
        return STuple(self._elements(e.elts, st))

    def e_List(self, e: ast.List, st: State) -> t.Any:
        return self._elements(e.elts, st)

    def e_Dict(self, e: ast.Dict, st: State) -> t.Any:
        ok, v = self.fold(e)
        if ok and isinstance(v, dict):
            return ("constdict", v)
        return Unknown(unparse(e))

    def e_DictComp(self, e: ast.DictComp, st: State) -> t.Any:
        ok, v = self.fold(e) if not self._mentions_local(e.generators[0].iter, st) else (False, None)
        if ok and isinstance(v, dict):
            return ("constdict", v)
        return Unknown(unparse(e))

    def e_UnaryOp(self, e: ast.UnaryOp, st: State) -> t.Any:
        v = self.eval(e.operand, st)
        if isinstance(e.op, ast.USub):
            return -self.as_lin(v, e)
        if isinstance(e.op, ast.Not):
            b = self.truth(v, e.operand, st)
            if isinstance(b, bool):
                return not b
            return BoolVal("not " + b.desc, {"neg": b})
        if isinstance(e.op, ast.UAdd):
            return self.as_lin(v, e)
        if isinstance(e.op, ast.Invert):
            x = self.as_lin(v, e)
            return Lin(-1) - x  # ~x == -x - 1 for integers
        raise Unsupported(f"{self.func.qual}:{e.lineno}: unary {unparse(e)}")

    def e_BinOp(self, e: ast.BinOp, st: State) -> t.Any:
        ok, v = self.fold(e) if not self._mentions_local(e, st) else (False, None)
        if ok:
            return self.const_to_value(v)
        a = self.eval(e.left, st)
        b = self.eval(e.right, st)
        op = e.op
        # bytes / str concatenation and repetition
        if isinstance(op, ast.Add):
            def _s(x: t.Any) -> t.Any:
                if isinstance(x, TRef) and (x.typ[0] == "str" or (x.typ[0] == "opt" and x.typ[1][0] == "str")):
                    return SStr([Ref(x.path)])
                return x

            a, b = _s(a), _s(b)
            if isinstance(a, SStr) and isinstance(b, SStr):
                return a + b
            def _byteslike(x: t.Any) -> bool:
                return isinstance(x, SBytes) or (isinstance(x, DictMap) and bool(x.table) and all(isinstance(y, bytes) for y in x.table.values()))

            if _byteslike(a) or _byteslike(b):
                if isinstance(a, (SBytes, TRef, DictMap, CallVal, BSlice, Unknown, SView)) and isinstance(b, (SBytes, TRef, DictMap, CallVal, BSlice, Unknown, SView)):
                    return self.as_bytes(a, e.left) + self.as_bytes(b, e.right)
            if isinstance(a, list) and isinstance(b, list):
                return a + b
        if isinstance(op, ast.Mult):
            if isinstance(a, SBytes) and not isinstance(b, SBytes):
                return self._repeat_bytes(a, self.as_lin(b, e.right), e)
            if isinstance(b, SBytes) and not isinstance(a, SBytes):
                return self._repeat_bytes(b, self.as_lin(a, e.left), e)
        la, lb = self.as_lin(a, e.left), self.as_lin(b, e.right)
        if isinstance(op, ast.Add):
            return la + lb
        if isinstance(op, ast.Sub):
            return la - lb
        if isinstance(op, ast.Mult):
            if la.is_const():
                return lb.scale(la.const)
            if lb.is_const():
                return la.scale(lb.const)
            return Lin.atom(("mul", la, lb))
        if isinstance(op, ast.Mod):
            if lb.is_const() and lb.const > 0:
                return mod(la, lb.const)
            return Lin.atom(("modv", la, lb))
        if isinstance(op, ast.FloorDiv):
            return floordiv(la, lb)
        name = type(op).__name__
        if la.is_const() and lb.is_const():
            try:
                return Lin(
                    {
                        "LShift": lambda x, y: x << y,
                        "RShift": lambda x, y: x >> y,
                        "BitOr": lambda x, y: x | y,
                        "BitAnd": lambda x, y: x & y,
                        "BitXor": lambda x, y: x ^ y,
                    }[name](la.const, lb.const)
                )
            except KeyError:
                pass
        if name == "BitAnd":
            # an octet read has bits 0..7 only: a negative mask (~0x80) selects the same bits as its low byte
            for x_, m_ in ((la, lb), (lb, la)):
                if m_.is_const() and m_.const < 0 and len(x_.terms) == 1 and x_.const == 0:
                    (atom_, coef_), = x_.terms.items()
                    if coef_ == 1 and atom_[0] == "read" and any(r_.rid == atom_[1] and r_.kind == "int" and (r_.hi - r_.lo) == Lin(1) and not r_.a.get("signed") for r_ in st.reads):
                        la, lb = x_, Lin(m_.const & 0xFF)
                        break
        if name in ("BitOr", "BitXor"):
            # commutative: canonical operand order
            x, y = sorted([la, lb], key=lambda z: repr(z.key()))
            return Lin.atom((name.lower(), x, y))
        return Lin.atom((name.lower(), la, lb))

    def _struct_pack(self, e: ast.Call, st: State) -> t.Optional[SBytes]:
        """struct.pack(FMT, v1, ..) with FMT a constant or an f-string whose placeholders are repeat counts: the layout
        it writes.  Explicit byte order only (native alignment is not modelled)."""
        fmt_e = e.args[0]
        toks: t.List[t.Any] = []  # characters and Lin counts
        if isinstance(fmt_e, ast.JoinedStr):
            for part in fmt_e.values:
                if isinstance(part, ast.Constant) and isinstance(part.value, str):
                    toks.extend(part.value)
                elif isinstance(part, ast.FormattedValue) and part.format_spec is None and part.conversion == -1:
                    try:
                        toks.append(self.as_lin(self.eval(part.value, st), part.value))
                    except Unsupported:
                        return None
                else:
                    return None
        else:
            okf, fmt = self.fold(fmt_e)
            if not okf or not isinstance(fmt, str):
                return None
            toks.extend(fmt)
        toks = [x for x in toks if not (isinstance(x, str) and x.isspace())]
        if not toks or toks[0] not in ("<", ">", "!", "="):
            return None
        order = "little" if toks[0] in ("<", "=") else "big"
        widths = {"B": (1, False), "b": (1, True), "H": (2, False), "h": (2, True), "I": (4, False), "i": (4, True), "L": (4, False), "l": (4, True), "Q": (8, False), "q": (8, True)}
        args = list(e.args[1:])
        out = SBytes([])
        i = 1
        while i < len(toks):
            count: t.Optional[Lin] = None
            if isinstance(toks[i], Lin):
                count = toks[i]
                i += 1
            else:
                digits = ""
                while i < len(toks) and isinstance(toks[i], str) and toks[i].isdigit():
                    digits += toks[i]
                    i += 1
                if digits:
                    count = Lin(int(digits))
            if i >= len(toks) or not isinstance(toks[i], str):
                return None
            code = toks[i]
            i += 1
            if code == "x":
                out = out + self._repeat_bytes(t.cast(SBytes, self.const_to_value(b"\x00")), count if count is not None else Lin(1), e)
            elif code == "s":
                if not args:
                    return None
                a = args.pop(0)
                width = count if count is not None else Lin(1)
                val = self.as_bytes(self.eval(a, st), a)
                ln = val.length()
                if ln is not None and ln == width:
                    out = out + val
                else:
                    # a value of another length is NUL-padded or cut to the field width: not the value's own bytes
                    out = out + SBytes([Seg("raw", width, ref=Ref(f"struct_s[{width!r}]({val!r})"))])
            elif code in widths:
                if count is not None and not count.is_const():
                    return None
                for _ in range(count.const if count is not None else 1):
                    if not args:
                        return None
                    a = args.pop(0)
                    w_, sg_ = widths[code]
                    out = out + SBytes([Seg("int", Lin(w_), value=self.as_lin(self.eval(a, st), a), order=order, signed=sg_, node=e)])
            else:
                return None
        return out if not args else None

    def _repeat_bytes(self, b: SBytes, n: Lin, node: ast.AST) -> SBytes:
        if len(b.segs) == 1 and b.segs[0].kind == "lit":
            val = b.segs[0].value
            if n.is_const():
                rep = val * max(n.const, 0)
                return SBytes([Seg("lit", Lin(len(rep)), value=rep)]) if rep else SBytes([])
            if len(val) == 1:
                return SBytes([Seg("pad", n, byte=val, formula=n)])
        if not b.segs:
            return b
        raise Unsupported(f"{self.func.qual}: byte repetition {unparse(node)}")

    def e_IfExp(self, e: ast.IfExp, st: State) -> t.Any:
        c = self.truth(self.eval(e.test, st), e.test, st)
        if isinstance(c, bool):
            return self.eval(e.body if c else e.orelse, st)
        # an undecided conditional expression anywhere in a statement: the interpreter runs the statement once per outcome
        decisions = getattr(st, "decisions", None)
        if decisions is not None and isinstance(c, BoolVal):
            d = decisions.get(id(e))
            if d is None:
                raise NeedFork(e, c)
            return self.eval(e.body if d else e.orelse, st)
        return ("ifexp", c, e)

    def e_BoolOp(self, e: ast.BoolOp, st: State) -> t.Any:
        if isinstance(e.op, ast.Or) and len(e.values) == 2:
            a = self.eval(e.values[0], st)
            tr = self.truth(a, e.values[0], st)
            if tr is True:
                return a
            if tr is False:
                return self.eval(e.values[1], st)
            return ("orexp", tr, a, e.values[1])
        vals = []
        for v in e.values:
            tv = self.truth(self.eval(v, st), v, st)
            if isinstance(tv, bool):
                if tv == isinstance(e.op, ast.Or):
                    return tv  # short circuit: a known-false conjunct / known-true disjunct decides the test
                continue  # neutral element
            vals.append(tv)
        if not vals:
            return isinstance(e.op, ast.And)
        if len(vals) == 1:
            return vals[0]
        return BoolVal(unparse(e), {"op": type(e.op).__name__, "values": vals})

    def e_Compare(self, e: ast.Compare, st: State) -> t.Any:
        if len(e.ops) != 1:
            return BoolVal(unparse(e))
        a = self.eval(e.left, st)
        b = self.eval(e.comparators[0], st)
        op = e.ops[0]
        if isinstance(op, (ast.Is, ast.IsNot)) and isinstance(e.comparators[0], ast.Constant) and e.comparators[0].value is None and isinstance(a, DictMap) and a.table and all(x for x in a.table.values()):
            # table.get(key) is None  <=>  the key is unknown (every table value is truthy): same atom as `not table.get(key)`
            known = self.truth(a, e.left, st)
            if isinstance(op, ast.IsNot):
                return known
            return BoolVal("not " + t.cast(BoolVal, known).desc, {"neg": known})
        if isinstance(op, (ast.Eq, ast.NotEq)):
            neg = isinstance(op, ast.NotEq)
            view, lit = None, None
            for x, y in ((a, b), (b, a)):
                if isinstance(x, SView) and isinstance(y, SBytes) and all(s.kind == "lit" for s in y.segs):
                    view, lit = x, b"".join(s.value for s in y.segs)
            if view is not None:
                rid = st.new_id()
                st.reads.append(Read(rid, "lit", view.src, view.lo, view.hi, expect=lit, node=e))
                return BoolVal(f"<r{rid}> {'!=' if neg else '=='} {lit!r}", {"lit_read": rid, "neg": neg, "expect": lit})
            if isinstance(a, Lin) and isinstance(b, Lin):
                if a == b:
                    return not neg
                if a.is_const() and b.is_const():
                    return (a.const != b.const) if neg else (a.const == b.const)
                return BoolVal(f"{a!r} {'!=' if neg else '=='} {b!r}", {"cmp": ("ne" if neg else "eq", a, b)})
        if isinstance(op, (ast.Lt, ast.LtE, ast.Gt, ast.GtE)):
            try:
                la, lb = self.as_lin(a, e.left), self.as_lin(b, e.comparators[0])
            except Unsupported:
                return BoolVal(unparse(e))
            name = {ast.Lt: "lt", ast.LtE: "le", ast.Gt: "gt", ast.GtE: "ge"}[type(op)]
            if la.is_const() and lb.is_const():
                return {"lt": la.const < lb.const, "le": la.const <= lb.const, "gt": la.const > lb.const, "ge": la.const >= lb.const}[name]
            return BoolVal(unparse(e), {"cmp": (name, la, lb)})
        return BoolVal(unparse(e))

    def truth(self, v: t.Any, node: ast.AST, st: State) -> t.Union[bool, BoolVal]:
        if isinstance(v, bool):
            return v
        if v is None:
            return False
        if isinstance(v, BoolVal):
            return v
        if isinstance(v, Lin):
            if v.is_const():
                return v.const != 0
            return BoolVal(f"{v!r} != 0", {"nonzero": v})
        if isinstance(v, TRef):
            if v.typ[0] == "cls" and not any(c_.find_method(m_) is not None for c_ in v.typ[1].mro() for m_ in ("__bool__", "__len__")) and (not any(x.endswith("NamedTuple") for x in v.typ[1].ext_bases) or v.typ[1].init_params()):
                return True  # an instance (declared non-optional) of a class without __bool__ / __len__ is truthy
            return BoolVal(f"truthy({v.path})", {"truthy": v.path})
        if isinstance(v, SBytes):
            if not v.segs:
                return False
            if any(s.kind == "lit" and s.value for s in v.segs):
                return True
            if len(v.segs) == 1 and v.segs[0].kind == "raw":
                return BoolVal(f"truthy({v.segs[0].ref})", {"truthy": v.segs[0].ref.path})
            return BoolVal(f"nonempty({v!r})")
        if isinstance(v, SStr):
            if v.is_const():
                return bool(v.const())
            if len(v.parts) == 1 and isinstance(v.parts[0], Ref):
                return BoolVal(f"truthy({v.parts[0].path})", {"truthy": v.parts[0].path})
            return BoolVal(f"nonempty({v!r})")
        if isinstance(v, SView):
            n = v.hi - v.lo
            if n.is_const():
                return n.const > 0
            return BoolVal(f"nonempty({v!r})", {"view_nonempty": v})
        if isinstance(v, (list, STuple)):
            return bool(v if isinstance(v, list) else v.items)
        if isinstance(v, CallVal) and v.rec.func is not None and v.rec.func.node.returns is not None:
            # the result of a package function declared to return an instance of a package class (not Optional) whose
            # class defines neither __bool__ nor __len__ is truthy
            ann = v.rec.func.node.returns
            if isinstance(ann, ast.Constant) and isinstance(ann.value, str):
                try:
                    ann = ast.parse(ann.value, mode="eval").body
                except SyntaxError:
                    ann = None
            if isinstance(ann, ast.Name):
                rc = self.repo.resolve_name(ann.id, v.rec.func.mod)
                if isinstance(rc, Cls) and not rc.enum_kind() and not any(m_ in c_.methods for c_ in rc.mro() for m_ in ("__bool__", "__len__")) and not any(x.endswith("NamedTuple") or x in ("tuple", "list", "dict", "bytes", "str", "int") for c_ in rc.mro() for x in c_.ext_bases):
                    return True
        if isinstance(v, (CallVal, BSlice)):
            return BoolVal(f"truthy({v!r})", {"truthy": repr(v)})
        if isinstance(v, SBuf):
            return BoolVal(f"nonempty({v!r})", {"nonzero": v.size})
        if isinstance(v, DictMap):
            return BoolVal(f"known({v.key!r})", {"dictmap": v})
        if isinstance(v, Unknown):
            return BoolVal(f"truthy({v.what})", {"truthy": v.what})
        if isinstance(v, (SObj, Cls, Func, ReadVal)):
            return True
        return BoolVal(unparse(node))

    def e_Subscript(self, e: ast.Subscript, st: State) -> t.Any:
        base = self.eval(e.value, st)
        if isinstance(base, SView):
            if isinstance(e.slice, ast.Slice):
                if e.slice.step is not None:
                    raise Unsupported("slice step")
                lo, hi = base.lo, base.hi
                if e.slice.lower is not None:
                    a = self.as_lin(self.eval(e.slice.lower, st), e.slice.lower)
                    lo = (base.hi + a) if _negative(a) else (base.lo + a)
                if e.slice.upper is not None:
                    b = self.as_lin(self.eval(e.slice.upper, st), e.slice.upper)
                    hi = (base.hi + b) if _negative(b) else (base.lo + b)
                return SView(base.src, lo, hi)
            k = self.as_lin(self.eval(e.slice, st), e.slice)
            pos = (base.hi + k) if (k.is_const() and k.const < 0) else (base.lo + k)
            # the same octet read again (an alias `b = v[0]` written out at each use) is the same value,
            # as long as nothing was stored into that buffer on this path
            if not any(getattr(b_, "src", None) == base.src or (isinstance(i_, SView) and i_.src == base.src) for b_, i_, _v, _n in st.stores):
                for r_ in st.reads:
                    if r_.kind == "int" and r_.src == base.src and r_.lo == pos and r_.hi == pos + 1 and r_.a.get("order") == "any" and not r_.a.get("signed") and not getattr(st, "loops", []):
                        return Lin.atom(("read", r_.rid))
            rid = st.new_id()
            st.reads.append(Read(rid, "int", base.src, pos, pos + 1, order="any", signed=False, node=e))
            return Lin.atom(("read", rid))
        if isinstance(base, list):
            ok, idx = self.fold(e.slice) if not isinstance(e.slice, ast.Slice) else (False, None)
            if ok and isinstance(idx, int) and -len(base) <= idx < len(base):
                return base[idx]
        if isinstance(base, STuple):
            ok, idx = self.fold(e.slice) if not isinstance(e.slice, ast.Slice) else (False, None)
            if ok and isinstance(idx, int) and -len(base.items) <= idx < len(base.items):
                return base.items[idx]
        if isinstance(base, TRef) and base.typ[0] in ("tuple", "opt"):
            typ = base.typ[1] if base.typ[0] == "opt" else base.typ
            ok, idx = self.fold(e.slice) if not isinstance(e.slice, ast.Slice) else (False, None)
            if typ[0] == "tuple" and ok and isinstance(idx, int) and 0 <= idx < len(typ[1]):
                return typed_value(f"{base.path}[{idx}]", typ[1][idx])
        if isinstance(base, (SBytes, BSlice, CallVal)) and isinstance(e.slice, ast.Slice) and e.slice.step is None:
            lo = self.as_lin(self.eval(e.slice.lower, st), e) if e.slice.lower is not None else None
            hi = self.as_lin(self.eval(e.slice.upper, st), e) if e.slice.upper is not None else None
            return BSlice(base, lo, hi)
        ok, v = self.fold(e) if not self._mentions_local(e, st) else (False, None)
        if ok:
            return self.const_to_value(v)
        return Unknown(unparse(e))

    def e_Lambda(self, e: ast.Lambda, st: State) -> t.Any:
        return Unknown(unparse(e))

    def e_ListComp(self, e: ast.ListComp, st: State) -> t.Any:
        return self._comp(e, st)

    def e_GeneratorExp(self, e: ast.GeneratorExp, st: State) -> t.Any:
        return self._comp(e, st)

    def _comp(self, e: t.Union[ast.ListComp, ast.GeneratorExp], st: State) -> t.Any:
        if len(e.generators) != 1 or e.generators[0].ifs or not isinstance(e.generators[0].target, ast.Name):
            raise Unsupported(f"{self.func.qual}:{e.lineno}: comprehension {unparse(e)}")
        gen = e.generators[0]
        it = self.eval(gen.iter, st)
        var = t.cast(ast.Name, gen.target).id
        if isinstance(it, TRef) and it.typ[0] == "list":
            sub = st.fork()
            sub.env[var] = typed_value(f"{it.path}[*]", it.typ[1])
            elem = self.eval(e.elt, sub)
            st.counter[0] = max(st.counter[0], sub.counter[0])
            return ("repeat", it.path, Lin.atom(("len", it.path)), elem, var)
        if isinstance(gen.iter, ast.Call) and unparse(gen.iter.func) == "range" and 1 <= len(gen.iter.args) <= 3 and not gen.iter.keywords:
            ra = [self.as_lin(self.eval(a, st), gen.iter) for a in gen.iter.args]
            start, stop = (Lin(0), ra[0]) if len(ra) == 1 else (ra[0], ra[1])
            step = ra[2] if len(ra) == 3 else Lin(1)
            if not step.is_const() or step.const <= 0:
                raise Unsupported(f"{self.func.qual}:{e.lineno}: comprehension over a range with step {step!r}")
            count = (stop - start) if step.const == 1 else floordiv(stop - start + Lin(step.const - 1), step)
            if count.is_const() and 0 <= count.const <= 16:
                # a small constant range is unrolled: [f(i) for i in range(3)] = [f(0), f(1), f(2)]
                out_u = []
                for k_ in range(count.const):
                    sub_u = st.fork()
                    sub_u.env[var] = start + Lin(k_ * step.const)
                    out_u.append(self.eval(e.elt, sub_u))
                    st.reads[:] = sub_u.reads
                    st.calls[:] = sub_u.calls
                    st.counter[0] = max(st.counter[0], sub_u.counter[0])
                return out_u
            return self._comp_range(e, var, count, st, start, step.const)
        if isinstance(it, STuple):
            it = list(it.items)
        if isinstance(it, list):
            out = []
            for item in it:
                sub = st.fork()
                sub.env[var] = item
                out.append(self.eval(e.elt, sub))
                st.reads[:] = sub.reads
                st.calls[:] = sub.calls
                st.counter[0] = max(st.counter[0], sub.counter[0])
            return out
        raise Unsupported(f"{self.func.qual}:{e.lineno}: comprehension over {it!r}")

    def _comp_range(self, e: t.Union[ast.ListComp, ast.GeneratorExp], var: str, count: Lin, st: State, start: t.Optional[Lin] = None, step: int = 1) -> t.Any:
        """[ELT for i in range(n)] over a byte window: every read of ELT must sit at  base + k*i + c  with one common
        stride k; the comprehension is then the repeated read  (count n, element stride k)  of a loop that advances
        its view by k per element, and evaluates to the list of the element values."""
        import copy

        lid = st.new_id()
        itv = Lin.atom(("iter", lid))
        sub = st.fork()
        sub.env[var] = (start if start is not None else Lin(0)) + itv.scale(step)
        base = len(sub.reads)
        elem = self.eval(e.elt, sub)
        st.counter[0] = max(st.counter[0], sub.counter[0])
        body = sub.reads[base:]
        st.calls[:] = sub.calls if len(sub.calls) >= len(st.calls) else st.calls
        key = ("iter", lid)
        stride: t.Optional[int] = None
        bases: t.List[Lin] = []
        for r in body:
            k = r.lo.terms.get(key, 0)
            if k <= 0:
                raise Unsupported(f"{self.func.qual}:{e.lineno}: comprehension element does not read at an offset growing with the index")
            kh = r.hi.terms.get(key, 0)
            if kh not in (0, k):
                raise Unsupported(f"{self.func.qual}:{e.lineno}: comprehension element window is not affine in the index")
            if stride is None:
                stride = k
            elif stride != k:
                raise Unsupported(f"{self.func.qual}:{e.lineno}: comprehension reads with different strides {stride} and {k}")
            bases.append(r.lo - itv.scale(k))
        if not body or stride is None:
            raise Unsupported(f"{self.func.qual}:{e.lineno}: comprehension over range without reads")
        lo0 = bases[0]
        for b in bases[1:]:
            d = b - lo0
            if not d.is_const():
                raise Unsupported(f"{self.func.qual}:{e.lineno}: comprehension reads at unrelated offsets")
            if d.const < 0:
                lo0 = b
        name = f"<comp{lid}>"
        ib = Lin.atom(("iterbase", lid, name))
        shift = ib - lo0 - itv.scale(stride)
        new_body = []
        for r in body:
            r2 = copy.copy(r)
            r2.lo = r.lo + shift
            r2.hi = r.hi + shift if r.hi.terms.get(key, 0) else r.hi
            new_body.append(r2)
        rid = st.new_id()
        st.reads.append(Read(rid, "repeat", body[0].src, lo0, lo0, count=count, body=new_body, advance={name: Lin(stride)}, lid=lid, node=e, appends={}))
        return ("rrepeat", rid, elem)

    # ------------------------------------------------------------------- calls
    def e_Await(self, e: ast.Await, st: State) -> t.Any:
        return self.eval(e.value, st)

    def e_Call(self, e: ast.Call, st: State) -> t.Any:
        ok, v = self.fold(e) if not self._mentions_local(e, st) else (False, None)
        if ok and not isinstance(v, (Cls, Func)):
            return self.const_to_value(v)
        fn = e.func
        dotted = self.repo.dotted(fn, self.mod)
        kw = {k.arg: k.value for k in e.keywords if k.arg}
        # ---- builtins on values
        if dotted == "bool" and len(e.args) == 1 and not e.keywords:
            v0 = self.eval(e.args[0], st)
            if not isinstance(v0, Lin):
                # bool(x) of an object / optional / byte string is its truth value: the same condition as `if x:`
                return self.truth(v0, e.args[0], st)
        if dotted == "sum" and 1 <= len(e.args) <= 2 and not e.keywords:
            # sum of a list / generator of integers whose elements are known: the sum of the elements
            try:
                items = self.eval(e.args[0], st)
                if isinstance(items, STuple):
                    items = list(items.items)
                if isinstance(items, list) and all(isinstance(x, (Lin, int)) and not isinstance(x, bool) for x in items):
                    total = self.as_lin(self.eval(e.args[1], st), e) if len(e.args) == 2 else Lin(0)
                    for x in items:
                        total = total + self.as_lin(x, e)
                    return total
            except Unsupported:
                pass
        if dotted == "len" and len(e.args) == 1:
            v = self.eval(e.args[0], st)
            if isinstance(v, SBytes):
                n = v.length()
                if n is None:
                    raise Unsupported("len of unsized bytes")
                return n
            if isinstance(v, SView):
                return v.hi - v.lo
            if isinstance(v, TRef):
                return Lin.atom(("len", v.path))
            if isinstance(v, list):
                if any(isinstance(x, tuple) and x and x[0] in ("repeat", "repeatk", "rrepeat") for x in v):
                    raise Unsupported(f"{self.func.qual}:{e.lineno}: len of a list with loop-built entries")
                return Lin(len(v))
            if isinstance(v, tuple) and v and v[0] == "repeatk":
                return v[2].scale(v[5])
            if isinstance(v, SStr):
                return Lin.atom(("strlen", repr(v)))
            if isinstance(v, tuple) and v and v[0] == "repeat":
                return v[2]
            if isinstance(v, Unknown):
                return Lin.atom(("len", v.what))
            if isinstance(v, SBuf):
                return v.size
            if isinstance(v, CallVal) and v.rec.name.endswith("readexactly") and isinstance(v.rec.arg(0), Lin):
                return v.rec.arg(0)  # StreamReader.readexactly(n) returns exactly n bytes or raises
            if isinstance(v, SCat):
                tot = Lin(0)
                for p_ in v.parts:
                    if isinstance(p_, CallVal) and p_.rec.name.endswith("readexactly") and isinstance(p_.rec.arg(0), Lin):
                        tot = tot + p_.rec.arg(0)
                    elif isinstance(p_, SBytes) and p_.length() is not None:
                        tot = tot + p_.length()
                    else:
                        tot = tot + Lin.atom(("len", repr(p_)))
                return tot
            if isinstance(v, (BSlice, CallVal)):
                return Lin.atom(("len", repr(v)))
            raise Unsupported(f"{self.func.qual}:{e.lineno}: len({v!r})")
        if dotted in ("memoryview", "bytes", "bytearray") and len(e.args) <= 1:
            if not e.args:
                return SBytes([])
            v = self.eval(e.args[0], st)
            if isinstance(v, (SView, SBytes)):
                return v
            if isinstance(v, Lin) and dotted == "bytearray":
                return SBuf(f"{e.lineno}", v)
            if isinstance(v, (list, STuple)) and dotted in ("bytes", "bytearray"):
                items = v if isinstance(v, list) else v.items
                if all(isinstance(x, Lin) for x in items):
                    # bytes([a, b]): one octet per element; runs of constant octets are literal bytes
                    segs_: t.List[Seg] = []
                    for x in items:
                        if x.is_const() and 0 <= x.const <= 255:
                            if segs_ and segs_[-1].kind == "lit":
                                segs_[-1] = Seg("lit", segs_[-1].width + Lin(1), value=segs_[-1].value + bytes([x.const]))
                            else:
                                segs_.append(Seg("lit", Lin(1), value=bytes([x.const])))
                        else:
                            segs_.append(Seg("int", Lin(1), value=x, order="little", signed=False, node=e))
                    return SBytes(segs_)
            if isinstance(v, Lin) and dotted == "bytes":
                # bytes(n): n zero bytes, the same value as b"\x00" * n
                return self._repeat_bytes(t.cast(SBytes, self.const_to_value(b"\x00")), v, e)
            if isinstance(v, SBuf):
                return SView(f"buf#{v.bid}", Lin(0), v.size) if dotted == "memoryview" else v
            if isinstance(v, CallVal):
                return v
            if isinstance(v, TRef):
                return self.as_bytes(v, e)
            return v
        if dotted == "int.from_bytes":
            v = self.eval(e.args[0], st)
            order = self._const_str(kw.get("byteorder") or (e.args[1] if len(e.args) > 1 else None), "big", st)
            signed = bool(self._const(kw.get("signed"), False))
            if isinstance(v, SView):
                rid = st.new_id()
                st.reads.append(Read(rid, "int", v.src, v.lo, v.hi, order=order, signed=signed, node=e))
                return Lin.atom(("read", rid))
            if isinstance(v, SBytes) and len(v.segs) == 1 and v.segs[0].kind == "raw":
                return Lin.atom(("from_bytes", v.segs[0].ref.path, order, signed))
            return Lin.atom(("from_bytes", repr(v), order, signed))
        if dotted == "struct.pack" and e.args and not kw and not any(isinstance(a, ast.Starred) for a in e.args):
            r_ = self._struct_pack(e, st)
            if r_ is not None:
                return r_
        if dotted == "struct.unpack" and len(e.args) == 2:
            okf, fmt = self.fold(e.args[0])
            v = self.eval(e.args[1], st)
            widths = {"B": (1, False), "b": (1, True), "H": (2, False), "h": (2, True), "I": (4, False), "i": (4, True), "L": (4, False), "Q": (8, False), "q": (8, True)}
            if okf and isinstance(fmt, str) and isinstance(v, SView):
                order = "big" if fmt[:1] in (">", "!") else "little"
                code = fmt.lstrip("<>=!@")
                if code in widths:
                    rid = st.new_id()
                    st.reads.append(Read(rid, "int", v.src, v.lo, v.hi, order=order if widths[code][0] > 1 else "any", signed=widths[code][1], node=e, struct_width=widths[code][0]))
                    return STuple([Lin.atom(("read", rid))])
        if dotted == "uuid.UUID":
            src = kw.get("bytes_le") or kw.get("bytes")
            if src is not None:
                v = self.eval(src, st)
                form = "bytes_le" if "bytes_le" in kw else "bytes"
                if isinstance(v, SView):
                    rid = st.new_id()
                    st.reads.append(Read(rid, "uuid", v.src, v.lo, v.hi, form=form, node=e))
                    return ReadVal(rid, "uuid")
                return Unknown(unparse(e))
            return Unknown(unparse(e))
        if dotted == "object.__setattr__" and len(e.args) == 3:
            tgt = self.eval(e.args[0], st)
            okn, name = self.fold(e.args[1])
            st.setattrs.append((tgt, name if okn else unparse(e.args[1]), self.eval(e.args[2], st)))
            return None
        if dotted == "isinstance":
            # isinstance(x, C) for x declared Optional[C] is "x is present"; for x declared C it holds
            if len(e.args) == 2:
                try:
                    xv = self.eval(e.args[0], st)
                    cv = self.repo.resolve(e.args[1], self.func.mod) if isinstance(e.args[1], (ast.Name, ast.Attribute)) else None
                except Exception:
                    xv, cv = None, None
                if isinstance(xv, TRef) and isinstance(cv, Cls):
                    typ = xv.typ
                    if typ[0] == "cls" and typ[1].is_subclass_of(cv):
                        return True
                    if typ[0] == "opt" and typ[1][0] == "cls" and typ[1][1].is_subclass_of(cv):
                        return self.truth(xv, e.args[0], st)
            return BoolVal(unparse(e))
        # ---- in-place growth of a local byte buffer: b.append(x) / b.extend(y) / b.reverse()
        if isinstance(fn, ast.Attribute) and isinstance(fn.value, ast.Name) and isinstance(st.env.get(fn.value.id), SBytes) and fn.attr in ("append", "extend", "reverse"):
            cur = st.env[fn.value.id]
            if fn.attr == "append" and len(e.args) == 1:
                v = self.as_lin(self.eval(e.args[0], st), e.args[0])
                add = SBytes([Seg("int", Lin(1), value=v, order="little", signed=False, node=e)])
            elif fn.attr == "extend" and len(e.args) == 1:
                add = self.as_bytes(self.eval(e.args[0], st), e.args[0])
            else:
                add = None
            if add is not None:
                loops = getattr(st, "loops", [])
                if loops and fn.value.id in loops[-1].deltas:
                    loops[-1].deltas[fn.value.id] = loops[-1].deltas[fn.value.id] + add
                st.env[fn.value.id] = cur + add
                return None
            st.env[fn.value.id] = SBytes([Seg("reversed", cur.length(), body=cur.segs)]) if cur.segs else cur
            return None
        # ---- methods on values
        if isinstance(fn, ast.Attribute):
            base = self.eval(fn.value, st)
            r = self.call_method(base, fn.attr, e, kw, st)
            if r is not NotImplemented:
                return r
        recv = None
        if isinstance(fn, ast.Attribute):
            recv = self.eval(fn.value, st)
            target = self.attr(recv, fn.attr, fn, st)
        else:
            target = self.eval(fn, st)
        res = self.call_target(target, e, kw, st)
        if isinstance(res, Unknown):
            args = [self.eval(a.value if isinstance(a, ast.Starred) else a, st) for a in e.args]
            kwv = {k: self.eval(x, st) for k, x in kw.items()}
            name = target.qual if isinstance(target, (Cls, Func)) else (target[2].qual if isinstance(target, tuple) and target and target[0] == "method" else dotted)
            rec = CallRec(e, name, args, kwv, recv)
            rec.func = target if isinstance(target, Func) else (target[2] if isinstance(target, tuple) and target and target[0] == "method" else None)
            st.calls.append(rec)
            res = CallVal(rec)
            rec.result = res
        return res

    def _const(self, e: t.Optional[ast.expr], default: t.Any) -> t.Any:
        if e is None:
            return default
        ok, v = self.fold(e)
        if not ok:
            raise Unsupported(f"{self.func.qual}:{e.lineno}: expected a constant: {unparse(e)}")
        return v

    def _const_str(self, e: t.Optional[ast.expr], default: str, st: State) -> str:
        if e is None:
            return default
        v = self.eval(e, st)
        if isinstance(v, SStr) and v.is_const():
            return v.const()
        raise Unsupported(f"{self.func.qual}:{e.lineno}: expected a constant string: {unparse(e)}")

    def call_method(self, base: t.Any, name: str, e: ast.Call, kw: t.Dict[str, ast.expr], st: State) -> t.Any:
        if name == "to_bytes" and isinstance(base, DictMap) and base.table and all(isinstance(x, int) and not isinstance(x, bool) for x in base.table.values()):
            # TABLE.get(key).to_bytes(n, order): a table of codes, each value encoded on its own
            w_ = self.as_lin(self.eval(kw.get("length") or e.args[0], st), e)
            order_ = self._const_str(kw.get("byteorder") or (e.args[1] if len(e.args) > 1 else None), "big", st)
            signed_ = bool(self._const(kw.get("signed"), False))
            if w_.is_const():
                try:
                    return DictMap({k: int(v).to_bytes(w_.const, order_, signed=signed_) for k, v in base.table.items()}, base.key)
                except (OverflowError, ValueError):
                    raise Unsupported(f"{self.func.qual}:{e.lineno}: a table value does not fit {w_.const} bytes")
        if name == "to_bytes":
            x = self.as_lin(base, e)
            width = self.as_lin(self.eval(kw.get("length") or e.args[0], st), e)
            order = self._const_str(kw.get("byteorder") or (e.args[1] if len(e.args) > 1 else None), "big", st)
            signed = bool(self._const(kw.get("signed"), False))
            return SBytes([Seg("int", width, value=x, order=order, signed=signed, node=e)])
        if name == "join" and isinstance(base, SBytes) and not base.segs and len(e.args) == 1:
            v = self.eval(e.args[0], st)
            return self.join(v, e)
        if name == "join" and isinstance(base, SStr) and base.is_const() and len(e.args) == 1:
            v = self.eval(e.args[0], st)
            if isinstance(v, (list, STuple)):
                items = v if isinstance(v, list) else v.items
                out_parts: t.List[t.Any] = []
                for i, it in enumerate(items):
                    if isinstance(it, TRef) and (it.typ[0] == "str" or (it.typ[0] == "opt" and it.typ[1][0] == "str")):
                        it = SStr([Ref(it.path)])
                    if not isinstance(it, SStr):
                        return NotImplemented
                    if i:
                        out_parts.append(base.const())
                    out_parts += it.parts
                return SStr(out_parts)
        if name == "tobytes" and isinstance(base, (SView, BSlice, SBytes)):
            return base
        if name == "encode" and isinstance(base, SStr):
            enc = self._const_str(e.args[0] if e.args else None, "utf-8", st)
            segs: t.List[Seg] = []
            for p in base.parts:
                if isinstance(p, str):
                    b = p.encode(enc)
                    segs.append(Seg("lit", Lin(len(b)), value=b))
                elif isinstance(p, Ref):
                    segs.append(Seg("str", Lin.atom(("enclen", p.path, enc)), ref=p, enc=enc))
                else:
                    segs.append(Seg("str", Lin.atom(("enclen", repr(p), enc)), ref=Ref(repr(p)), enc=enc))
            return SBytes(segs)
        if name == "decode" and isinstance(base, SView):
            enc = self._const_str(e.args[0] if e.args else None, "utf-8", st)
            rid = st.new_id()
            st.reads.append(Read(rid, "str", base.src, base.lo, base.hi, enc=enc, node=e))
            return ReadVal(rid, "str")
        if name in ("append", "extend") and isinstance(base, list) and len(e.args) == 1:
            v = self.eval(e.args[0], st)
            if name == "append":
                base.append(v)
            elif isinstance(v, list):
                base.extend(v)
            else:
                base.append(("splat", v))
            return None
        if name == "get" and isinstance(base, tuple) and base and base[0] == "constdict" and e.args:
            key = self.eval(e.args[0], st)
            tbl = base[1]
            if isinstance(key, SView) and tbl and all(isinstance(k_, bytes) for k_ in tbl):
                # a table keyed by the raw bytes of a window is the table keyed by the integer those bytes spell
                w_ = key.hi - key.lo
                if w_.is_const() and all(len(k_) == w_.const for k_ in tbl):
                    rid = st.new_id()
                    st.reads.append(Read(rid, "int", key.src, key.lo, key.hi, order="little", signed=False, node=e))
                    return DictMap({int.from_bytes(k_, "little"): v_ for k_, v_ in tbl.items()}, Lin.atom(("read", rid)))
            return DictMap(tbl, key)
        if name == "get" and isinstance(base, Unknown):
            return Unknown(unparse(e))
        return NotImplemented

    def join(self, v: t.Any, node: ast.AST) -> SBytes:
        if isinstance(v, TRef) and (v.typ[0] == "list" or (v.typ[0] == "opt" and v.typ[1][0] == "list")):
            return self.as_bytes(v, node)
        if isinstance(v, list):
            out = SBytes([])
            for item in v:
                out = out + self.seq_to_bytes(item, node)
            return out
        return self.seq_to_bytes(v, node)

    def seq_to_bytes(self, item: t.Any, node: ast.AST) -> SBytes:
        if isinstance(item, tuple) and item and item[0] in ("repeat", "repeatk"):
            _, path, count, elem, var = item[:5]
            body = self.seq_to_bytes(elem, node)
            ew = body.length()
            width = ew.scale(1) if False else None
            if ew is not None and ew.is_const():
                width = count.scale(ew.const)
            else:
                width = Lin.atom(("span", path, repr(body)))
            return SBytes([Seg("repeat", width, over=path, count=count, body=body.segs, var=var)])
        if isinstance(item, tuple) and item and item[0] == "ifexp":
            raise Unsupported(f"{self.func.qual}: conditional expression must be split by the interpreter: {unparse(node)}")
        return self.as_bytes(item, node)

    def call_target(self, target: t.Any, e: ast.Call, kw: t.Dict[str, ast.expr], st: State) -> t.Any:
        if isinstance(target, tuple) and target and target[0] == "method":
            _, recv, m = target
            return self.call_pkg_method(recv, m, e, kw, st)
        if isinstance(target, Cls):
            return self.construct(target, e, kw, st)
        if isinstance(target, Func) and target.cls is None:
            inl = self.inline(target, e, kw, st)
            if inl is not NotImplemented:
                return inl
            return Unknown(unparse(e))
        return Unknown(unparse(e))

    def inline(self, fn: Func, e: ast.Call, kw: t.Dict[str, ast.expr], st: State) -> t.Any:
        """Inline a package helper whose body is `return <expr>` (after simple assignments)."""
        depth = getattr(self, "_inline_depth", 0)
        if depth >= 3:
            return NotImplemented
        body = [b for b in fn.node.body if not (isinstance(b, ast.Expr) and isinstance(b.value, ast.Constant))]
        if not body or not isinstance(body[-1], ast.Return) or body[-1].value is None:
            return NotImplemented
        def simple(b: ast.stmt) -> bool:
            if isinstance(b, ast.Assign):
                return len(b.targets) == 1 and isinstance(b.targets[0], ast.Name)
            if isinstance(b, ast.AnnAssign):
                return isinstance(b.target, ast.Name) and b.value is not None
            if isinstance(b, ast.AugAssign):
                return isinstance(b.target, ast.Name)
            return False

        if not all(simple(b) for b in body[:-1]):
            return NotImplemented
        sub = State()
        sub.counter = st.counter
        sub.reads = st.reads
        sub.calls = st.calls
        names = fn.params
        for n, a in zip(names, e.args):
            sub.env[n] = self.eval(a, st)
        for k, a in kw.items():
            sub.env[k] = self.eval(a, st)
        ev = type(self)(self.repo, fn)
        ev._inline_depth = depth + 1  # type: ignore[attr-defined]
        for n in names:
            if n not in sub.env:
                d = fn.param_default(n)
                if d is None:
                    return NotImplemented
                sub.env[n] = ev.eval(d, sub)
        if hasattr(st, "decisions"):
            sub.decisions = st.decisions  # type: ignore[attr-defined]
            sub.loops = getattr(st, "loops", [])  # type: ignore[attr-defined]
        for b in body[:-1]:
            if isinstance(b, ast.Assign):
                sub.env[b.targets[0].id] = ev.eval(b.value, sub)  # type: ignore[attr-defined,union-attr]
            elif isinstance(b, ast.AnnAssign):
                sub.env[b.target.id] = ev.eval(b.value, sub)  # type: ignore[attr-defined,union-attr,arg-type]
            else:
                aug = t.cast(ast.AugAssign, b)
                cur = ast.copy_location(ast.Name(id=aug.target.id, ctx=ast.Load()), aug)  # type: ignore[attr-defined]
                sub.env[aug.target.id] = ev.eval(ast.copy_location(ast.BinOp(left=cur, op=aug.op, right=aug.value), aug), sub)  # type: ignore[attr-defined]
        return ev.eval(body[-1].value, sub)

    def _spread(self, v: t.Any, want: int, node: ast.AST) -> t.List[t.Any]:
        """*v in a call: the items of a tuple value (known items, or the components of a tuple typed parameter)."""
        if isinstance(v, STuple):
            return list(v.items)
        if isinstance(v, list):
            return list(v)
        if isinstance(v, TRef):
            typ = v.typ[1] if v.typ[0] == "opt" else v.typ
            if typ[0] == "tuple":
                return [typed_value(f"{v.path}[{i}]", ty) for i, ty in enumerate(typ[1])]
            if typ[0] == "cls" and any(x.endswith("NamedTuple") for x in typ[1].ext_bases):
                return [self._nt_item(v, typ[1], i) for i in range(len(typ[1].init_params()))]
        raise Unsupported(f"{self.func.qual}:{getattr(node, 'lineno', 0)}: starred argument {unparse(node)} of unknown arity")

    def _nt_item(self, base: "TRef", cls: Cls, i: int) -> t.Any:
        fld = cls.init_params()[i]
        return typed_value(f"{base.path}[{i}]", parse_type(self.repo, fld.ann, self.repo.classes[fld.owner].mod))

    def construct(self, cls: Cls, e: ast.Call, kw: t.Dict[str, ast.expr], st: State) -> t.Any:
        if cls.enum_kind():
            v = self.eval(e.args[0], st)
            return v
        params = cls.init_params()
        fields: t.Dict[str, t.Any] = {}
        argvals: t.List[t.Any] = []
        for a in e.args:
            if isinstance(a, ast.Starred):
                argvals.extend(self._spread(self.eval(a.value, st), len(params) - len(argvals), a))
            else:
                argvals.append(self.eval(a, st))
        for p, av in zip(params, argvals):
            fields[p.name] = av
        for p, a in zip([], e.args):
            fields[p.name] = self.eval(a, st)
        for k, a in kw.items():
            fields[k] = self.eval(a, st)
        if cls.qual in getattr(self.repo, "new_classes", set()) and any(x.endswith("NamedTuple") for x in cls.ext_bases) and not cls.methods and all(p.name in fields for p in params):
            # a plain NamedTuple is a tuple whose items also have names
            return STuple([fields[p.name] for p in params], [p.name for p in params])
        return SObj(cls, fields)

    def call_pkg_method(self, recv: t.Any, m: Func, e: ast.Call, kw: t.Dict[str, ast.expr], st: State) -> t.Any:
        """pack()/unpack() of package codecs are summarised, not inlined."""
        if m.name == "pack" and isinstance(recv, TRef):
            cls = recv.typ[1] if recv.typ[0] != "opt" else recv.typ[1][1]
            return SBytes([Seg("nested", Lin.atom(("size", recv.path)), ref=Ref(recv.path), cls=cls)])
        if m.name == "pack" and isinstance(recv, SObj):
            return SBytes([Seg("nested", Lin.atom(("size", repr(recv))), obj=recv, cls=recv.cls, ref=Ref(repr(recv)))])
        if m.name in ("unpack", "_unpack") and isinstance(recv, Cls) and e.args:
            v = self.eval(e.args[0], st)
            if isinstance(v, SView):
                rid = st.new_id()
                st.reads.append(Read(rid, "nested", v.src, v.lo, v.hi, cls=recv, node=e))
                return ReadVal(rid, "nested", recv)
            if isinstance(v, SBytes):
                return Unknown(unparse(e))
        return Unknown(unparse(e))
