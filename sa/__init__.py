"""Static-analysis library for the dpapi-ng property checks (see DESIGN.md)."""
