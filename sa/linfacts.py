"""Tiny linear-inequality reasoning over the guards that dominate a program point.

Expressions are read as integer linear forms over opaque atoms (the text of every non-arithmetic sub-expression,
e.g. `len(view)`, `idx`).  A guard `a < b` known true gives the fact  b - a - 1 >= 0, `not (a < b + 1)` gives
a - b - 1 >= 0, and so on.  A goal  E + c >= 0  is proved by a single fact  E + c' >= 0  with c' <= c.  That is all the
package's bounds checks need, and it does not depend on which of the equivalent spellings a guard uses."""

from __future__ import annotations

import ast
import typing as t

from .load import unparse

LinForm = t.Tuple[t.Tuple[t.Tuple[str, int], ...], int]  # (sorted (atom, coeff) pairs, constant)


def lin_of(e: ast.expr) -> t.Tuple[t.Dict[str, int], int]:
    if isinstance(e, ast.Constant) and isinstance(e.value, int) and not isinstance(e.value, bool):
        return {}, e.value
    if isinstance(e, ast.UnaryOp) and isinstance(e.op, ast.USub):
        t_, c = lin_of(e.operand)
        return {k: -v for k, v in t_.items()}, -c
    if isinstance(e, ast.BinOp) and isinstance(e.op, (ast.Add, ast.Sub)):
        a, ca = lin_of(e.left)
        b, cb = lin_of(e.right)
        s = 1 if isinstance(e.op, ast.Add) else -1
        out = dict(a)
        for k, v in b.items():
            out[k] = out.get(k, 0) + s * v
        return {k: v for k, v in out.items() if v}, ca + s * cb
    if isinstance(e, ast.BinOp) and isinstance(e.op, ast.Mult):
        for x, y in ((e.left, e.right), (e.right, e.left)):
            if isinstance(x, ast.Constant) and isinstance(x.value, int) and not isinstance(x.value, bool):
                t_, c = lin_of(y)
                return {k: v * x.value for k, v in t_.items() if v * x.value}, c * x.value
    return {unparse(e): 1}, 0


def _sub(a: t.Tuple[t.Dict[str, int], int], b: t.Tuple[t.Dict[str, int], int]) -> t.Tuple[t.Dict[str, int], int]:
    out = dict(a[0])
    for k, v in b[0].items():
        out[k] = out.get(k, 0) - v
    return {k: v for k, v in out.items() if v}, a[1] - b[1]


def ge0_facts(atoms: t.List[t.Tuple[ast.expr, bool]]) -> t.List[t.Tuple[t.Dict[str, int], int]]:
    """Facts `form >= 0` from comparison atoms (integers: a < b  <=>  b - a - 1 >= 0)."""
    out: t.List[t.Tuple[t.Dict[str, int], int]] = []
    for e, pol in atoms:
        if not (isinstance(e, ast.Compare) and len(e.ops) == 1):
            continue
        a, b = lin_of(e.left), lin_of(e.comparators[0])
        op = type(e.ops[0])
        if not pol:
            op = {ast.Lt: ast.GtE, ast.LtE: ast.Gt, ast.Gt: ast.LtE, ast.GtE: ast.Lt, ast.Eq: ast.NotEq, ast.NotEq: ast.Eq}.get(op, op)
        if op is ast.Lt:  # a < b
            d = _sub(b, a)
            out.append((d[0], d[1] - 1))
        elif op is ast.LtE:
            out.append(_sub(b, a))
        elif op is ast.Gt:
            d = _sub(a, b)
            out.append((d[0], d[1] - 1))
        elif op is ast.GtE:
            out.append(_sub(a, b))
        elif op is ast.Eq:
            out.append(_sub(a, b))
            out.append(_sub(b, a))
        elif op is ast.NotEq:
            # a length is never negative: len(x) != 0  <=>  len(x) - 1 >= 0
            for x, y in ((a, b), (b, a)):
                if not y[0] and y[1] == 0 and len(x[0]) == 1 and x[1] == 0 and next(iter(x[0].items()))[1] == 1 and next(iter(x[0])).startswith("len("):
                    out.append((dict(x[0]), -1))
    return out


def proves_ge0(facts: t.List[t.Tuple[t.Dict[str, int], int]], goal: t.Tuple[t.Dict[str, int], int]) -> bool:
    if not goal[0]:
        return goal[1] >= 0
    for terms, c in facts:
        if terms == goal[0] and c <= goal[1]:
            return True
    return False


def goal_ge(a: ast.expr, b: ast.expr, slack: int = 0) -> t.Tuple[t.Dict[str, int], int]:
    """a - b - slack >= 0"""
    d = _sub(lin_of(a), lin_of(b))
    return d[0], d[1] - slack
