"""Length summaries: an interval for len(<bytes expression>) built from the construction idiom
(to_bytes widths, joins, bytearray accumulation in counted loops, package callee summaries)."""

from __future__ import annotations

import ast
import typing as t

from .intervals import IV, World, _add, _mul
from .load import Func, body_nodes, unparse

TOP = IV(0, None)


class Lengths:
    def __init__(self, world: World) -> None:
        self.world = world
        self.repo = world.repo
        self.ret_cache: t.Dict[str, IV] = {}
        self.busy: t.Set[str] = set()

    # ------------------------------------------------------------ functions
    def retlen(self, f: Func) -> IV:
        if f.qual in self.ret_cache:
            return self.ret_cache[f.qual]
        if f.qual in self.busy:
            return TOP
        self.busy.add(f.qual)
        try:
            out: t.Optional[IV] = None
            for r in [n for n in body_nodes(f.node) if isinstance(n, ast.Return) and n.value is not None]:
                iv = self.exprlen(f, r.value, r)
                out = iv if out is None else out.join(iv)
            res = out if out is not None else TOP
        finally:
            self.busy.discard(f.qual)
        self.ret_cache[f.qual] = res
        return res

    # ---------------------------------------------------------- expressions
    def exprlen(self, f: Func, e: ast.expr, at: ast.AST, depth: int = 0) -> IV:
        if depth > 6:
            return TOP
        res = self.world.analyse(f)
        if isinstance(e, ast.Constant) and isinstance(e.value, (bytes, str)):
            return IV.const(len(e.value))
        if isinstance(e, ast.Call):
            fn = unparse(e.func)
            if isinstance(e.func, ast.Attribute) and e.func.attr == "to_bytes" and e.args:
                w = res.iv_of(e.args[0])
                return w.meet(IV(0, None))
            if self.repo.dotted(e.func, f.mod) == "struct.pack" and e.args:
                okf, fmt = self.repo.try_fold(e.args[0], f.mod)
                sizes = {"x": 1, "c": 1, "b": 1, "B": 1, "?": 1, "h": 2, "H": 2, "i": 4, "I": 4, "l": 4, "L": 4, "q": 8, "Q": 8, "f": 4, "d": 8}
                if okf and isinstance(fmt, str) and fmt[:1] in "<>!=" and all(ch in sizes for ch in fmt[1:]):
                    return IV.const(sum(sizes[ch] for ch in fmt[1:]))
                return TOP
            if fn in ("bytes", "bytearray") and len(e.args) == 1 and isinstance(e.args[0], (ast.List, ast.Tuple)) and not any(isinstance(x, ast.Starred) for x in e.args[0].elts):
                return IV.const(len(e.args[0].elts))  # bytes([a, b]): one byte per element
            if fn in ("bytes", "bytearray", "memoryview") and len(e.args) == 1:
                return self.exprlen(f, e.args[0], at, depth + 1)
            if fn in ("bytes", "bytearray") and not e.args:
                return IV.const(0)
            if isinstance(e.func, ast.Attribute) and e.func.attr == "join" and isinstance(e.func.value, ast.Constant) and e.func.value.value == b"" and len(e.args) == 1:
                a = e.args[0]
                if isinstance(a, (ast.List, ast.Tuple)):
                    total = IV.const(0)
                    for el in a.elts:
                        total = _add(total, self.exprlen(f, el, at, depth + 1))
                    return total
                if isinstance(a, ast.Name) and a.id not in f.params:
                    return self.locallist_sum(f, a.id, depth)
                if isinstance(a, ast.Name):
                    return self.listlen_sum(f, a.id)
                return TOP
            if isinstance(e.func, ast.Attribute) and e.func.attr == "tobytes":
                return TOP
            tgt = self.world.resolve_call(f, e)
            if isinstance(tgt, Func):
                return self.retlen(tgt)
            return TOP
        if isinstance(e, ast.BinOp) and isinstance(e.op, ast.Add):
            return _add(self.exprlen(f, e.left, at, depth + 1), self.exprlen(f, e.right, at, depth + 1))
        if isinstance(e, ast.BinOp) and isinstance(e.op, ast.Mult):
            for a, b in ((e.left, e.right), (e.right, e.left)):
                if isinstance(a, ast.Constant) and isinstance(a.value, bytes):
                    n = res.iv_of(b)
                    return _mul(IV.const(len(a.value)), n.meet(IV(0, None)))
            return TOP
        if isinstance(e, ast.IfExp):
            return self.exprlen(f, e.body, at, depth + 1).join(self.exprlen(f, e.orelse, at, depth + 1))
        if isinstance(e, ast.Name):
            return self.varlen(f, e.id, depth)
        return TOP

    def varlen(self, f: Func, name: str, depth: int) -> IV:
        """Length of a local byte string from *all* its definitions (flow-insensitive, additive for +=)."""
        res = self.world.analyse(f)
        base: t.Optional[IV] = None
        extra = IV.const(0)
        for n in body_nodes(f.node):
            if isinstance(n, ast.Assign) and len(n.targets) == 1 and isinstance(n.targets[0], ast.Name) and n.targets[0].id == name:
                iv = self.exprlen(f, n.value, n, depth + 1)
                base = iv if base is None else base.join(iv)
            elif isinstance(n, ast.AugAssign) and isinstance(n.target, ast.Name) and n.target.id == name and isinstance(n.op, ast.Add):
                iv = self.exprlen(f, n.value, n, depth + 1)
                trips = self.trip_count(f, n)
                cond = self.conditional(f, n)
                add = _mul(iv, trips)
                if cond:
                    add = IV(0, add.hi)
                extra = _add(extra, add)
        if base is None:
            # the variable of `for x in <list parameter>`: one of the elements the call sites put into that list
            for n in body_nodes(f.node):
                if isinstance(n, ast.For) and isinstance(n.target, ast.Name) and n.target.id == name and isinstance(n.iter, ast.Name) and n.iter.id in f.params:
                    out: t.Optional[IV] = None
                    for caller, arg in self.list_args(f, n.iter.id, 0):
                        if arg is None:
                            return TOP
                        for el in arg.elts:
                            iv = self.exprlen(caller, el, arg, depth + 1)
                            out = iv if out is None else out.join(iv)
                    if out is not None:
                        return out
            return TOP
        del res
        return _add(base, extra)

    def locallist_sum(self, f: Func, name: str, depth: int) -> IV:
        """len(b''.join(<local list>)): the list literal it starts from plus everything appended to it (flow-insensitive;
        appends inside loops count once per trip, conditional ones from zero)."""
        base: t.Optional[IV] = None
        extra = IV.const(0)

        def total(elts: t.List[ast.expr], at: ast.AST) -> IV:
            out = IV.const(0)
            for el in elts:
                out = _add(out, TOP if isinstance(el, ast.Starred) else self.exprlen(f, el, at, depth + 1))
            return out

        for n in body_nodes(f.node):
            add: t.Optional[IV] = None
            if isinstance(n, (ast.Assign, ast.AnnAssign)) and n.value is not None and [unparse(x) for x in (n.targets if isinstance(n, ast.Assign) else [n.target])] == [name]:
                iv = total(n.value.elts, n) if isinstance(n.value, (ast.List, ast.Tuple)) else TOP
                base = iv if base is None else base.join(iv)
                continue
            if isinstance(n, ast.AugAssign) and unparse(n.target) == name:
                add = total(n.value.elts, n) if isinstance(n.op, ast.Add) and isinstance(n.value, (ast.List, ast.Tuple)) else TOP
            elif isinstance(n, ast.Call) and isinstance(n.func, ast.Attribute) and unparse(n.func.value) == name:
                if n.func.attr == "append" and len(n.args) == 1:
                    add = self.exprlen(f, n.args[0], n, depth + 1)
                elif n.func.attr == "extend" and len(n.args) == 1 and isinstance(n.args[0], (ast.List, ast.Tuple)):
                    add = total(n.args[0].elts, n)
                elif n.func.attr in ("copy", "index", "count"):
                    continue
                else:
                    add = TOP
            elif isinstance(n, (ast.Subscript, ast.Starred)) and isinstance(getattr(n, "ctx", None), (ast.Store, ast.Del)) and unparse(n.value) == name:
                add = TOP
            if add is not None:
                add = _mul(add, self.trip_count(f, n))
                if self.conditional(f, n):
                    add = IV(0, add.hi)
                extra = _add(extra, add)
        return TOP if base is None else _add(base, extra)

    def trip_count(self, f: Func, node: ast.AST) -> IV:
        res = self.world.analyse(f)
        out = IV.const(1)
        for loop in [n for n in body_nodes(f.node) if isinstance(n, (ast.For, ast.While)) and any(x is node for x in ast.walk(n))]:
            if isinstance(loop, ast.For) and isinstance(loop.iter, ast.Call) and unparse(loop.iter.func) == "range":
                a = loop.iter.args
                lo = res.iv_of(a[0]) if len(a) > 1 else IV.const(0)
                hi = res.iv_of(a[1] if len(a) > 1 else a[0])
                n = _add(hi, IV(None if lo.hi is None else -lo.hi, None if lo.lo is None else -lo.lo))
                out = _mul(out, n.meet(IV(0, None)))
            elif isinstance(loop, ast.For) and isinstance(loop.iter, ast.Name) and loop.iter.id in f.params and self.list_count(f, loop.iter.id) != TOP:
                out = _mul(out, self.list_count(f, loop.iter.id).meet(IV(0, None)))
            elif isinstance(loop, ast.For):
                # one trip per element: len(<iterable>) where the analysis knows it (grammar facts, slices of known lists)
                n = res._len_iv(loop.iter, res.env_at(loop.iter), 0)
                out = _mul(out, n.meet(IV(0, None)))
            else:
                out = _mul(out, IV(0, None))
        return out

    def conditional(self, f: Func, node: ast.AST) -> bool:
        return any(isinstance(n, ast.If) and any(x is node for x in ast.walk(n)) for n in body_nodes(f.node))

    def listlen_sum(self, f: Func, name: str) -> IV:
        """len(b''.join(<list parameter>)): from the list literals the package's call sites pass."""
        if name not in f.params:
            return TOP
        out: t.Optional[IV] = None
        for caller, arg in self.list_args(f, name, 0):
            if arg is None:
                return TOP
            total = IV.const(0)
            for el in arg.elts:
                total = _add(total, self.exprlen(caller, el, arg))
            out = total if out is None else out.join(total)
        return out if out is not None else TOP

    def list_count(self, f: Func, name: str) -> IV:
        out: t.Optional[IV] = None
        for caller, arg in self.list_args(f, name, 0):
            if arg is None:
                return TOP
            iv = IV.const(len(arg.elts))
            out = iv if out is None else out.join(iv)
        return out if out is not None else TOP

    def _local_list(self, f: Func, name: str) -> t.Optional[ast.List]:
        """A local list as a display: assigned once to a display, or `X = []` filled by one append per row of a loop over
        a literal table (the normal form of a comprehension over that table)."""
        defs = [n for n in body_nodes(f.node) if isinstance(n, (ast.Assign, ast.AnnAssign)) and n.value is not None and [unparse(x) for x in (n.targets if isinstance(n, ast.Assign) else [n.target])] == [name]]
        others = [n for n in body_nodes(f.node) if isinstance(n, (ast.AugAssign, ast.For, ast.NamedExpr)) and any(isinstance(x, ast.Name) and x.id == name and isinstance(x.ctx, ast.Store) for x in ast.walk(n.target))]
        if len(defs) != 1 or others or not isinstance(defs[0].value, ast.List):
            return None
        calls = [n for n in body_nodes(f.node) if isinstance(n, ast.Call) and isinstance(n.func, ast.Attribute) and unparse(n.func.value) == name]
        if not calls and not any(isinstance(x, ast.Starred) for x in defs[0].value.elts):
            return defs[0].value
        if defs[0].value.elts or len(calls) != 1 or calls[0].func.attr != "append" or len(calls[0].args) != 1:  # type: ignore[attr-defined]
            return None
        loops = [n for n in body_nodes(f.node) if isinstance(n, ast.For) and any(x is calls[0] for x in ast.walk(n))]
        if len(loops) != 1 or self.conditional(f, calls[0]):
            return None
        rows = self.world.analyse(f)._literal_rows(loops[0].iter)
        if rows is None:
            return None
        return ast.List(elts=[calls[0].args[0]] * len(rows), ctx=ast.Load())

    def list_args(self, f: Func, name: str, depth: int) -> t.List[t.Tuple[Func, t.Optional[ast.List]]]:
        """List literals reaching parameter `name` of f through the package's call sites (None = unknown)."""
        if depth > 4:
            return [(f, None)]
        sites = self.world.callsites().get(f.qual, [])
        if not sites:
            return [(f, None)]
        params = [p for p in f.params if p not in ("self", "cls")]
        out: t.List[t.Tuple[Func, t.Optional[ast.List]]] = []
        for caller, call in sites:
            arg: t.Optional[ast.expr] = None
            for kw in call.keywords:
                if kw.arg == name:
                    arg = kw.value
            if arg is None and name in params and params.index(name) < len(call.args):
                arg = call.args[params.index(name)]
            if arg is None:
                d = f.param_default(name)
                if d is not None and isinstance(d, ast.Constant) and d.value is None:
                    continue  # default None: the list is absent on this path
                out.append((caller, None))
            elif isinstance(arg, ast.Constant) and arg.value is None:
                continue  # explicitly absent
            elif isinstance(arg, ast.List):
                out.append((caller, arg))
            elif isinstance(arg, ast.Name) and arg.id in caller.params:
                out += self.list_args(caller, arg.id, depth + 1)
            elif isinstance(arg, ast.Name) and self._local_list(caller, arg.id) is not None:
                out.append((caller, self._local_list(caller, arg.id)))
            else:
                out.append((caller, None))
        return out
