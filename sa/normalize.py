"""E0b - normal form of the source model.

The rules are written against the decomposition of the package as it was confirmed by hand (the *inventory*:
function, module-constant and class-constant names of the reference tree, ``sa/inventory.json``).  A behaviour-
preserving edit that introduces a new private helper, a named constant, an alias local or keyword arguments must
not change any verdict, so before any rule runs the syntax trees are brought to a normal form:

N1  calls of helpers that are *not* in the inventory (new private functions, new methods, nested defs) are inlined
    into their callers (same module; parameters substituted or bound to fresh locals, locals renamed apart,
    tail-structured returns turned into assignments).  A helper whose every call site was inlined is dropped from
    the function table; one that cannot be inlined stays and is analysed as a function of its own.
N2  calls of package functions/methods get their arguments in declaration order as positionals as far as they are
    contiguous from the left (keywords only for the rest); ``to_bytes``/``from_bytes`` get ``byteorder=`` by keyword.
N3  single-definition locals that are pure access paths (``key_id = blob.key_identifier``) or fold to constants
    are substituted into their uses.
N4  module/class constants that are not in the inventory and fold to int/bytes/str/bool are replaced by literals.

Nothing is executed; every step is a syntactic rewrite whose side conditions are checked on the tree.  The steps are
purely about *recognition*: a rewrite that cannot be justified is skipped, and the rules then see the original shape
(and may answer ANALYSIS-ERROR / report against it).
"""

from __future__ import annotations

import ast
import copy
import json
import os
import typing as t

from .load import Cls, Func, Mod, Repo, Unfoldable, strip_docstring, unparse

INVENTORY = os.path.join(os.path.dirname(os.path.abspath(__file__)), "inventory.json")
FuncNode = t.Union[ast.FunctionDef, ast.AsyncFunctionDef]


class NotInlinable(Exception):
    pass


def build_inventory(repo: Repo) -> t.Dict[str, t.Any]:
    return {
        "conv": Normalizer(repo, {}).conventions(),
        "callers": _callers(repo),
        "classes": sorted(repo.classes),
        "nparams": {q: len(f.params) for q, f in repo.funcs.items()},
        "params": {q: list(f.params) for q, f in repo.funcs.items()},
        "returns": {q: (unparse(f.node.returns) if f.node.returns is not None else "") for q, f in repo.funcs.items()},
        "funcs": sorted(repo.funcs),
        "consts": {m.name: sorted(m.consts) for m in repo.modules.values()},
        "class_consts": {c.qual: sorted(c.class_consts) for c in repo.classes.values()},
    }


def _callers(repo: Repo) -> t.Dict[str, t.List[str]]:
    """qualified function -> functions whose body mentions its name (name based: enough to tell renamed helpers apart)."""
    names: t.Dict[str, t.Set[str]] = {}
    for q, f in repo.funcs.items():
        used = set()
        for n in ast.walk(f.node):
            if isinstance(n, ast.Name):
                used.add(n.id)
            elif isinstance(n, ast.Attribute):
                used.add(n.attr)
        names[q] = used
    out: t.Dict[str, t.List[str]] = {}
    for q, f in repo.funcs.items():
        out[q] = sorted(c for c, used in names.items() if c != q and f.name in used)
    return out


def load_inventory() -> t.Optional[t.Dict[str, t.Any]]:
    if not os.path.exists(INVENTORY):
        return None
    with open(INVENTORY) as fh:
        return json.load(fh)


# ------------------------------------------------------------------------------------------------ helpers
def _own_exprs(stmt: ast.stmt) -> t.List[ast.expr]:
    """Expressions evaluated by the statement itself (not by nested statement bodies)."""
    out: t.List[ast.expr] = []
    for name, val in ast.iter_fields(stmt):
        if name in ("body", "orelse", "finalbody", "handlers", "cases"):
            continue
        if isinstance(val, ast.expr):
            out.append(val)
        elif isinstance(val, list):
            for v in val:
                if isinstance(v, ast.expr):
                    out.append(v)
                elif isinstance(v, ast.withitem):
                    out.append(v.context_expr)
                    if v.optional_vars is not None:
                        out.append(v.optional_vars)
                elif isinstance(v, ast.keyword):
                    out.append(v.value)
    return out


def _walk_no_scopes(node: ast.AST) -> t.Iterator[ast.AST]:
    """ast.walk that does not enter nested function / class scopes (lambdas and comprehensions are entered)."""
    todo = [node]
    while todo:
        n = todo.pop()
        yield n
        for c in ast.iter_child_nodes(n):
            if isinstance(c, (ast.FunctionDef, ast.AsyncFunctionDef, ast.ClassDef)):
                continue
            todo.append(c)


def stored_names(fn: FuncNode) -> t.Set[str]:
    out: t.Set[str] = set()
    for st in fn.body:
        for n in _walk_no_scopes(st):
            if isinstance(n, ast.Name) and isinstance(n.ctx, (ast.Store, ast.Del)):
                out.add(n.id)
            elif isinstance(n, ast.ExceptHandler) and n.name:
                out.add(n.name)
            elif isinstance(n, (ast.Import, ast.ImportFrom)):
                for a in n.names:
                    out.add((a.asname or a.name).split(".")[0])
    for st in fn.body:
        if isinstance(st, (ast.FunctionDef, ast.AsyncFunctionDef, ast.ClassDef)):
            out.add(st.name)
    return out


def _params(fn: FuncNode) -> t.List[ast.arg]:
    a = fn.args
    return list(a.posonlyargs) + list(a.args) + list(a.kwonlyargs)


def _is_pure_path(e: ast.expr) -> bool:
    """Name / attribute chain / constant: evaluating it has no effect and depends only on the named objects."""
    while isinstance(e, ast.Attribute):
        e = e.value
    return isinstance(e, (ast.Name, ast.Constant))


def _is_access_path(e: ast.expr) -> bool:
    """Pure path with element accesses: `REG[h.packet_type]`, `a.b[0].c` (slices are themselves pure paths / constants)."""
    while isinstance(e, (ast.Attribute, ast.Subscript)):
        if isinstance(e, ast.Subscript):
            if isinstance(e.slice, ast.Slice) or not (_is_access_path(e.slice) or isinstance(e.slice, ast.Constant)):
                return False
        e = e.value
    return isinstance(e, (ast.Name, ast.Constant))


def _is_pure(e: ast.expr) -> bool:
    for n in ast.walk(e):
        if isinstance(n, (ast.Call, ast.Await, ast.Yield, ast.YieldFrom, ast.NamedExpr, ast.Lambda, ast.ListComp, ast.SetComp, ast.DictComp, ast.GeneratorExp, ast.Starred)):
            return False
    return True


def _negate(e: ast.expr) -> ast.expr:
    """The complement of a test: `not x` -> x, a single comparison -> the complementary comparison, else `not (e)`."""
    if isinstance(e, ast.UnaryOp) and isinstance(e.op, ast.Not):
        return e.operand
    comp: t.Dict[t.Any, t.Any] = {ast.Lt: ast.GtE, ast.LtE: ast.Gt, ast.Gt: ast.LtE, ast.GtE: ast.Lt, ast.Eq: ast.NotEq, ast.NotEq: ast.Eq, ast.Is: ast.IsNot, ast.IsNot: ast.Is, ast.In: ast.NotIn, ast.NotIn: ast.In}
    if isinstance(e, ast.Compare) and len(e.ops) == 1 and type(e.ops[0]) in comp:
        return ast.copy_location(ast.Compare(left=e.left, ops=[comp[type(e.ops[0])]()], comparators=list(e.comparators)), e)
    return ast.copy_location(ast.UnaryOp(op=ast.Not(), operand=e), e)


def _terminates(block: t.List[ast.stmt]) -> bool:
    if not block:
        return False
    last = block[-1]
    if isinstance(last, (ast.Return, ast.Raise, ast.Continue, ast.Break)):
        return True
    if isinstance(last, ast.If):
        return _terminates(last.body) and _terminates(last.orelse)
    if isinstance(last, (ast.With, ast.AsyncWith)):
        return _terminates(last.body)
    return False


def _has_return(node: ast.AST) -> bool:
    return any(isinstance(n, ast.Return) for n in _walk_no_scopes(node))


class _Subst(ast.NodeTransformer):
    """Rename locals / substitute parameters in a copied helper body."""

    def __init__(self, rename: t.Dict[str, str], subst: t.Dict[str, ast.expr]) -> None:
        self.rename = rename
        self.subst = subst

    def visit_Name(self, node: ast.Name) -> ast.AST:
        if node.id in self.subst and isinstance(node.ctx, ast.Load):
            return ast.copy_location(copy.deepcopy(self.subst[node.id]), node)
        if node.id in self.rename:
            return ast.copy_location(ast.Name(id=self.rename[node.id], ctx=node.ctx), node)
        return node

    def visit_ExceptHandler(self, node: ast.ExceptHandler) -> ast.AST:
        self.generic_visit(node)
        if node.name and node.name in self.rename:
            node.name = self.rename[node.name]
        return node

    def visit_Nonlocal(self, node: ast.Nonlocal) -> t.Any:
        return None

    def visit_Global(self, node: ast.Global) -> t.Any:
        return node


class Normalizer:
    def __init__(self, repo: Repo, inventory: t.Dict[str, t.Any]) -> None:
        self.repo = repo
        self.inv_funcs = set(inventory.get("funcs", []))
        self.inv_consts = {k: set(v) for k, v in inventory.get("consts", {}).items()}
        self.inv_cconsts = {k: set(v) for k, v in inventory.get("class_consts", {}).items()}
        self.inventory = inventory
        self.conv: t.Dict[str, int] = dict(inventory.get("conv", {}))
        self.counter = 0
        self.log: t.Dict[str, t.List[str]] = {"inlined": [], "not_inlined": [], "constants": [], "aliases": [], "positional": [], "ifexp": []}

    # ------------------------------------------------------------------------------------------ driver
    def run(self) -> None:
        repo = self.repo
        inv_classes = set(self.inventory.get("classes", []))
        repo.new_classes = {q for q in repo.classes if inv_classes and q not in inv_classes}  # type: ignore[attr-defined]
        self.undo_renames()
        self.undo_param_renames()
        self.new_funcs = {q: f for q, f in repo.funcs.items() if q not in self.inv_funcs}
        self.unproperty()
        for f in list(repo.funcs.values()):
            self._replace_node(f, self.fold_new_constants(f))
        for f in list(repo.funcs.values()):
            self._replace_node(f, self.modern_syntax(f))
        for f in list(repo.funcs.values()):
            self._replace_node(f, self.library_loops(f))
        for f in list(repo.funcs.values()):
            self._replace_node(f, self.callable_aliases(f))
        for f in list(repo.funcs.values()):
            self._replace_node(f, self.expand_star_args(f))  # early: `**T._asdict()` / `*T` must be gone before helpers are inlined
        for f in list(repo.funcs.values()):
            self._replace_node(f, self.dispatch_tables(f))
        for f in list(repo.funcs.values()):
            self._replace_node(f, self.project_tables(f))
        for f in list(repo.funcs.values()):
            self._replace_node(f, self.canonical_syntax(f))
        for f in list(repo.funcs.values()):
            self._replace_node(f, self.bool_updates(f))
        for f in list(repo.funcs.values()):
            self._replace_node(f, self.inline_temps(f))
        for f in list(repo.funcs.values()):
            self._replace_node(f, self.devirtualise(f))
        self.objects: t.Dict[t.Tuple[str, str], Cls] = {}
        for f in list(repo.funcs.values()):
            self._replace_node(f, self.find_objects(f))
        # N1 - callers first see the raw helper bodies; nested helper calls are resolved by iterating
        for _ in range(6):
            changed = False
            for f in list(repo.funcs.values()):
                gen_new = self.inline_generators(f)
                if gen_new is not None:
                    self._replace_node(f, gen_new)
                    changed = True
                new = self.inline_in(f)
                if new is not None:
                    self._replace_node(f, new)
                    changed = True
            if not changed:
                break
        for f in list(repo.funcs.values()):
            self._replace_node(f, self.dissolve_objects(f))
        for f in list(repo.funcs.values()):
            self._replace_node(f, self.expand_star_args(f))
        self.records_as_tuples()
        self._drop_unreferenced()
        for f in list(repo.funcs.values()):
            self._replace_node(f, self.inline_temps(f))  # the result locals N1 introduced
        for f in list(repo.funcs.values()):
            self._replace_node(f, self.thread_flags(f))
        for f in list(repo.funcs.values()):
            self._replace_node(f, self.guard_form(f))
        for f in list(repo.funcs.values()):
            self._replace_node(f, self.split_ifexp(f))
        for f in list(repo.funcs.values()):
            self._replace_node(f, self.unflag_loops(f))
        for f in list(repo.funcs.values()):
            self._replace_node(f, self.scan_loops(f))
        for f in list(repo.funcs.values()):
            self._replace_node(f, self.equivalent_calls(f))
        for f in list(repo.funcs.values()):
            self._replace_node(f, self.unroll_tables(f))
        for f in list(repo.funcs.values()):
            self._replace_node(f, self.desugar_listcomp(f))
        for f in list(repo.funcs.values()):
            self._replace_node(f, self.desugar_next(f))
        # helper calls that sat in comprehension elements / generator arguments are statements of loops now
        for _ in range(3):
            changed = False
            for f in list(repo.funcs.values()):
                new2 = self.inline_in(f)
                if new2 is not None:
                    self._replace_node(f, new2)
                    changed = True
            if not changed:
                break
        for f in list(repo.funcs.values()):
            self._replace_node(f, self.unpack_records(f))
        for f in list(repo.funcs.values()):
            self._replace_node(f, self.expand_star_args(f))
        for f in list(repo.funcs.values()):
            self._replace_node(f, self.positional(f))
        for f in list(repo.funcs.values()):
            self._replace_node(f, self.propagate(f))
        repo.normal_form = self.log  # type: ignore[attr-defined]

    # ------------------------------------------------------------------------------------------ N0
    def undo_renames(self) -> None:
        """A private function / method of the inventory that is gone while a new one with the same number of parameters
        appeared in the same module / class (and, if several did, is mentioned by the same callers) was renamed: the
        reference name is restored everywhere, so the rules' anchors and call-name matches keep working."""
        repo = self.repo
        inv_callers: t.Dict[str, t.List[str]] = self.inventory.get("callers", {})
        inv_np: t.Dict[str, int] = self.inventory.get("nparams", {})
        missing = [q for q in sorted(self.inv_funcs) if q not in repo.funcs and q.rsplit(".", 1)[-1].startswith("_") and not q.rsplit(".", 1)[-1].startswith("__")]
        if not missing:
            return
        new = {q: f for q, f in repo.funcs.items() if q not in self.inv_funcs and f.name.startswith("_") and not f.name.startswith("__")}
        cur_callers = _callers(repo)
        renames: t.Dict[str, str] = {}  # new qual -> old qual
        inv_ret: t.Dict[str, str] = self.inventory.get("returns", {})
        inv_par: t.Dict[str, t.List[str]] = self.inventory.get("params", {})
        # candidates narrowed by successive discriminators (callers, return annotation, parameter names); a function
        # is matched when one candidate is left, and matched candidates are taken away from the others (fixpoint)
        progress = True
        while progress:
            progress = False
            for old in missing:
                if old in renames.values():
                    continue
                scope = old.rsplit(".", 1)[0]
                cands = [q for q, f in new.items() if q.rsplit(".", 1)[0] == scope and len(f.params) == inv_np.get(old, -1) and q not in renames]
                if len(cands) > 1:
                    want = set(inv_callers.get(old, []))
                    cands = [q for q in cands if set(cur_callers.get(q, [])) == want] or []
                if len(cands) > 1 and old in inv_ret:
                    cands = [q for q in cands if (unparse(new[q].node.returns) if new[q].node.returns is not None else "") == inv_ret[old]] or []
                if len(cands) > 1 and old in inv_par:
                    cands = [q for q in cands if list(new[q].params) == inv_par[old]] or []
                if len(cands) == 1:
                    renames[cands[0]] = old
                    progress = True
        if not renames:
            return
        short = {n.rsplit(".", 1)[-1]: o.rsplit(".", 1)[-1] for n, o in renames.items()}
        if len(set(short)) != len(short) or any(v in {f.name for f in repo.funcs.values()} for v in short.values()):
            return  # ambiguous: leave everything as it is

        class R(ast.NodeTransformer):
            def visit_Name(self, node: ast.Name) -> ast.AST:
                if node.id in short:
                    return ast.copy_location(ast.Name(id=short[node.id], ctx=node.ctx), node)
                return node

            def visit_Attribute(self, node: ast.Attribute) -> ast.AST:
                self.generic_visit(node)
                if node.attr in short:
                    node.attr = short[node.attr]
                return node

        for m in repo.modules.values():
            R().visit(m.tree)
        for nq, oq in renames.items():
            f = repo.funcs.pop(nq)
            f.node.name = oq.rsplit(".", 1)[-1]
            f.name = f.node.name
            f.qual = oq
            repo.funcs[oq] = f
            if f.cls is not None:
                f.cls.methods.pop(nq.rsplit(".", 1)[-1], None)
                f.cls.methods[f.name] = f
            self.log.setdefault("renamed", []).append(f"{nq} is the reference tree's {oq}")

    # ------------------------------------------------------------------------------------------ N18
    def unproperty(self) -> None:
        """A read-only @property that is not in the inventory is a helper method spelled without parentheses:
        `x.name` becomes `x.name()` in its module and the decorator is dropped, so that N1 can inline it."""
        repo = self.repo
        for q, f in list(self.new_funcs.items()):
            if f.cls is None or [unparse(d) for d in f.node.decorator_list] != ["property"]:
                continue
            name = f.name
            # the name must not be anything else in the package (field, other method, setter)
            if sum(1 for g in repo.funcs.values() if g.name == name) != 1 or any(name in [fl.name for fl in c.fields()] for c in repo.classes.values()):
                continue
            stores = [n for m in repo.modules.values() for n in ast.walk(m.tree) if isinstance(n, ast.Attribute) and n.attr == name and isinstance(n.ctx, (ast.Store, ast.Del))]
            if stores:
                continue

            class P(ast.NodeTransformer):
                def visit_Call(self, node: ast.Call) -> ast.AST:
                    node.args = [self.visit(a) for a in node.args]
                    node.keywords = [self.visit(k) for k in node.keywords]
                    if isinstance(node.func, ast.Attribute) and node.func.attr == name:
                        node.func.value = self.visit(node.func.value)  # already a call of what the property returns
                        node.func = ast.copy_location(ast.Call(func=node.func, args=[], keywords=[]), node.func)
                    else:
                        node.func = self.visit(node.func)
                    return node

                def visit_Attribute(self, node: ast.Attribute) -> ast.AST:
                    self.generic_visit(node)
                    if node.attr == name and isinstance(node.ctx, ast.Load):
                        return ast.copy_location(ast.Call(func=node, args=[], keywords=[]), node)
                    return node

            for m in repo.modules.values():
                P().visit(m.tree)
                ast.fix_missing_locations(m.tree)
            f.node.decorator_list = []
            self.log.setdefault("inlined", []).append(f"property {q} read as a method call")

    # ------------------------------------------------------------------------------------------ N17
    def undo_param_renames(self) -> None:
        """A private function of the inventory whose parameters were renamed (same count, same order) gets the reference
        names back, in its body and in the keyword arguments of its call sites: private parameter names are not
        interface, and the rules address arguments by the reference names."""
        ref: t.Dict[str, t.List[str]] = self.inventory.get("params", {})
        repo = self.repo
        for q, f in list(repo.funcs.items()):
            want = ref.get(q)
            if want is None or not f.name.startswith("_") or f.name.startswith("__") or list(f.params) == want or len(f.params) != len(want):
                continue
            mapping = {c: w for c, w in zip(f.params, want) if c != w}
            used = {n.id for n in ast.walk(f.node) if isinstance(n, ast.Name)} | {a.arg for a in ast.walk(f.node) if isinstance(a, ast.arg)}
            if f.node.args.vararg is not None or f.node.args.kwarg is not None:
                continue
            clash = {w for w in mapping.values() if w in used and w not in mapping}
            if clash:
                # a reference name is now the name of a plain local: move that local out of the way first
                stored = stored_names(f.node)
                if not clash <= stored or any(isinstance(n, (ast.Global, ast.Nonlocal)) for n in ast.walk(f.node)):
                    continue
                aside = {w: f"{w}__l" for w in clash}
                if any(v in used for v in aside.values()):
                    continue
                for n in ast.walk(f.node):
                    if isinstance(n, ast.Name) and n.id in aside:
                        n.id = aside[n.id]
            # the same method name defined elsewhere with other parameter names: keyword call sites would be ambiguous
            if sum(1 for g in repo.funcs.values() if g.name == f.name) > 1:
                continue
            for n in ast.walk(f.node):
                if isinstance(n, ast.Name) and n.id in mapping:
                    n.id = mapping[n.id]
                elif isinstance(n, ast.arg) and n.arg in mapping:
                    n.arg = mapping[n.arg]
            for m in repo.modules.values():
                for n in ast.walk(m.tree):
                    if isinstance(n, ast.Call) and (isinstance(n.func, ast.Name) and n.func.id == f.name or isinstance(n.func, ast.Attribute) and n.func.attr == f.name):
                        for kw in n.keywords:
                            if kw.arg in mapping:
                                kw.arg = mapping[kw.arg]
            self.log.setdefault("renamed", []).append(f"parameters of {q}: {mapping}")

    def _replace_node(self, f: Func, new: t.Optional[FuncNode]) -> None:
        if new is None or new is f.node:
            return
        ast.fix_missing_locations(new)
        parent = f.cls.node.body if f.cls is not None else f.mod.tree.body
        for i, n in enumerate(parent):
            if n is f.node:
                parent[i] = new
                break
        f.node = new

    # ------------------------------------------------------------------------------------------ N4
    def _new_const_value(self, name: str, mod: Mod) -> t.Optional[ast.Constant]:
        r = self.repo.resolve_name(name, mod)
        if not (isinstance(r, tuple) and r[0] == "const"):
            return None
        home: Mod = r[1]
        if name in self.inv_consts.get(home.name, set()) and home is mod:
            return None
        # imported under another name? find the defining name
        defname = name
        if home is not mod:
            imp = mod.imports.get(name)
            defname = imp[2] if imp and imp[0] == "sym" else name
        if defname in self.inv_consts.get(home.name, set()):
            return None
        try:
            v = self.repo.fold(r[2], home)
        except Unfoldable:
            return None
        except Exception:
            return None
        if isinstance(v, (bool, int, bytes, str)) and not isinstance(v, ast.AST):
            return ast.Constant(value=v)
        return None

    # ------------------------------------------------------------------------------------------ N13-N15
    def canonical_syntax(self, f: Func) -> t.Optional[FuncNode]:
        """N13  if not c: A else: B  ->  if c: B else: A   (an else branch exists and is not an elif chain)
        N14  CONST <op> x  ->  x <flipped op> CONST          (single comparison, the left operand folds to a constant, the right does not)
        N15  x = x <op> e  ->  x <op>= e                     (x a local name; +, -, |, &, <<, >>: the rules read both as the same update)"""
        locals_ = stored_names(f.node) | {a.arg for a in _params(f.node)}
        repo = self.repo
        hit = [False]
        flip: t.Dict[t.Any, t.Any] = {ast.Eq: ast.Eq, ast.NotEq: ast.NotEq, ast.Lt: ast.Gt, ast.LtE: ast.GtE, ast.Gt: ast.Lt, ast.GtE: ast.LtE}

        def constlike(e: ast.expr) -> bool:
            if any(isinstance(x, ast.Name) and x.id in locals_ for x in ast.walk(e)) or not _is_pure(e):
                return False
            ok, v = repo.try_fold(e, f.mod)
            return ok and not isinstance(v, (Cls, Func))

        class T(ast.NodeTransformer):
            def visit_If(self, node: ast.If) -> ast.AST:
                self.generic_visit(node)
                if node.orelse and isinstance(node.test, ast.UnaryOp) and isinstance(node.test.op, ast.Not) and not (len(node.orelse) == 1 and isinstance(node.orelse[0], ast.If)):
                    node.test = node.test.operand
                    node.body, node.orelse = node.orelse, node.body
                    hit[0] = True
                return node

            def visit_Compare(self, node: ast.Compare) -> ast.AST:
                self.generic_visit(node)
                if len(node.ops) == 1 and type(node.ops[0]) in flip and constlike(node.left) and not constlike(node.comparators[0]):
                    node.left, node.comparators[0] = node.comparators[0], node.left
                    node.ops = [flip[type(node.ops[0])]()]
                    hit[0] = True
                return node

            def visit_Assign(self, node: ast.Assign) -> ast.AST:
                self.generic_visit(node)
                if len(node.targets) == 1 and isinstance(node.targets[0], ast.Name) and isinstance(node.value, ast.BinOp) and isinstance(node.value.left, ast.Name) and node.value.left.id == node.targets[0].id and node.targets[0].id in locals_ and isinstance(node.value.op, (ast.Add, ast.Sub, ast.BitOr, ast.BitAnd, ast.LShift, ast.RShift)):
                    hit[0] = True
                    return ast.copy_location(ast.AugAssign(target=node.targets[0], op=node.value.op, value=node.value.right), node)
                return node

        new = copy.deepcopy(f.node)
        T().visit(new)
        # N23  emptiness tests spelled with len():  len(x) > 0, len(x) != 0, len(x) >= 1, 0 < len(x)  ->  x ;
        #      len(x) == 0, len(x) < 1, len(x) <= 0  ->  not x      (in test positions: if / while / not / and / or / assert)
        def is_len(x: ast.expr) -> bool:
            return isinstance(x, ast.Call) and isinstance(x.func, ast.Name) and x.func.id == "len" and len(x.args) == 1 and not x.keywords and _is_pure_path(x.args[0])

        def const(x: ast.expr) -> t.Optional[int]:
            return x.value if isinstance(x, ast.Constant) and isinstance(x.value, int) and not isinstance(x.value, bool) else None

        def truthy(e: ast.expr) -> ast.expr:
            if isinstance(e, ast.UnaryOp) and isinstance(e.op, ast.Not):
                e.operand = truthy(e.operand)
                return e
            if isinstance(e, ast.BoolOp):
                e.values = [truthy(v) for v in e.values]
                return e
            if isinstance(e, ast.Compare) and len(e.ops) == 1:
                l, op, r = e.left, e.ops[0], e.comparators[0]
                if is_len(r) and const(l) is not None:
                    flipm: t.Dict[t.Any, t.Any] = {ast.Lt: ast.Gt, ast.LtE: ast.GtE, ast.Gt: ast.Lt, ast.GtE: ast.LtE, ast.Eq: ast.Eq, ast.NotEq: ast.NotEq}
                    if type(op) in flipm:
                        l, op, r = r, flipm[type(op)](), l
                if is_len(l) and const(r) is not None:
                    k = const(r)
                    arg = t.cast(ast.Call, l).args[0]
                    nonempty = (isinstance(op, ast.Gt) and k == 0) or (isinstance(op, ast.NotEq) and k == 0) or (isinstance(op, ast.GtE) and k == 1)
                    empty = (isinstance(op, ast.Eq) and k == 0) or (isinstance(op, ast.Lt) and k == 1) or (isinstance(op, ast.LtE) and k == 0)
                    if nonempty:
                        hit[0] = True
                        return ast.copy_location(arg, e)
                    if empty:
                        hit[0] = True
                        return ast.copy_location(ast.UnaryOp(op=ast.Not(), operand=arg), e)
            return e

        class L(ast.NodeTransformer):
            def visit_If(self, node: ast.If) -> ast.AST:
                self.generic_visit(node)
                node.test = truthy(node.test)
                return node

            def visit_While(self, node: ast.While) -> ast.AST:
                self.generic_visit(node)
                node.test = truthy(node.test)
                return node

            def visit_IfExp(self, node: ast.IfExp) -> ast.AST:
                self.generic_visit(node)
                node.test = truthy(node.test)
                return node

            def visit_Assert(self, node: ast.Assert) -> ast.AST:
                self.generic_visit(node)
                node.test = truthy(node.test)
                return node

        L().visit(new)
        return new if hit[0] else None

    def guard_form(self, f: Func) -> t.Optional[FuncNode]:
        hit = [False]
        new = copy.deepcopy(f.node)
        # N16  guard-clause form:  if c: A else: B   with A ending in raise/return/continue/break  ->  if c: A ; B
        #      (and with only B terminating:  if not c: B ; A).  Applied innermost first, so single-exit nests unfold.
        negate = _negate

        def flatten(block: t.List[ast.stmt]) -> t.List[ast.stmt]:
            out: t.List[ast.stmt] = []
            for st in block:
                for fld in ("body", "orelse", "finalbody"):
                    sub = getattr(st, fld, None)
                    if isinstance(sub, list) and sub and isinstance(sub[0], ast.stmt) and not isinstance(st, (ast.FunctionDef, ast.AsyncFunctionDef, ast.ClassDef)):
                        setattr(st, fld, flatten(sub))
                if isinstance(st, ast.Try):
                    for h in st.handlers:
                        h.body = flatten(h.body)
                # empty branches (left behind by an inlined `if c: return`):  if c: pass else: B  ->  if not c: B ;  else: pass dropped
                if isinstance(st, ast.If) and st.orelse and all(isinstance(x_, ast.Pass) for x_ in st.orelse):
                    st.orelse = []
                    hit[0] = True
                if isinstance(st, ast.If) and st.orelse and all(isinstance(x_, ast.Pass) for x_ in st.body):
                    st.test, st.body, st.orelse = negate(st.test), st.orelse, []
                    hit[0] = True
                if isinstance(st, ast.If) and st.orelse and not (len(st.orelse) == 1 and isinstance(st.orelse[0], ast.If) and not _terminates(st.body)):
                    size = lambda b: sum(1 for x_ in b for _ in ast.walk(x_))  # noqa: E731
                    if _terminates(st.body) and not (_terminates(st.orelse) and size(st.orelse) < size(st.body)):
                        rest, st.orelse = st.orelse, []
                        out.append(st)
                        out.extend(rest)
                        hit[0] = True
                        continue
                    if _terminates(st.orelse):
                        rest = st.body
                        st.test, st.body, st.orelse = negate(st.test), st.orelse, []
                        out.append(st)
                        out.extend(rest)
                        hit[0] = True
                        continue
                out.append(st)
            return out

        new.body = flatten(new.body)
        return new if hit[0] else None

    def fold_new_constants(self, f: Func) -> t.Optional[FuncNode]:
        locals_ = stored_names(f.node) | {a.arg for a in _params(f.node)}
        norm = self

        class T(ast.NodeTransformer):
            hit = False

            def visit_Name(self, node: ast.Name) -> ast.AST:
                if isinstance(node.ctx, ast.Load) and node.id not in locals_:
                    c = norm._new_const_value(node.id, f.mod)
                    if c is not None:
                        T.hit = True
                        norm.log["constants"].append(f"{f.qual}: {node.id} = {c.value!r}")
                        return ast.copy_location(c, node)
                return node

            def visit_Attribute(self, node: ast.Attribute) -> ast.AST:
                self.generic_visit(node)
                if isinstance(node.ctx, ast.Load) and isinstance(node.value, ast.Name):
                    owner: t.Optional[Cls] = None
                    if node.value.id in ("self", "cls") and f.cls is not None and node.value.id not in (locals_ - {"self", "cls"}):
                        owner = f.cls
                    else:
                        r = norm.repo.resolve_name(node.value.id, f.mod) if node.value.id not in locals_ else None
                        owner = r if isinstance(r, Cls) else None
                    if owner is not None and owner.enum_kind() is None:
                        for c in owner.mro():
                            if node.attr in c.class_consts and node.attr not in norm.inv_cconsts.get(c.qual, set()) and not any(fl.name == node.attr for fl in c.own_fields):
                                try:
                                    v = norm.repo.fold(c.class_consts[node.attr], c.mod)
                                except Exception:
                                    break
                                if isinstance(v, (bool, int, bytes, str)):
                                    T.hit = True
                                    norm.log["constants"].append(f"{f.qual}: {unparse(node)} = {v!r}")
                                    return ast.copy_location(ast.Constant(value=v), node)
                                break
                return node

        new = copy.deepcopy(f.node)
        T().visit(new)
        return new if T.hit else None

    # ------------------------------------------------------------------------------------------ N1
    def _nested_defs(self, fn: FuncNode) -> t.Dict[str, FuncNode]:
        """Function definitions in fn's own scope (not inside nested functions)."""
        out: t.Dict[str, FuncNode] = {}
        dup: t.Set[str] = set()

        def scan(block: t.List[ast.stmt]) -> None:
            for st in block:
                if isinstance(st, (ast.FunctionDef, ast.AsyncFunctionDef)):
                    if st.name in out:
                        dup.add(st.name)
                    out[st.name] = st
                    continue
                if isinstance(st, ast.ClassDef):
                    continue
                for fld in ("body", "orelse", "finalbody"):
                    blk = getattr(st, fld, None)
                    if isinstance(blk, list) and blk and isinstance(blk[0], ast.stmt):
                        scan(blk)
                for h in getattr(st, "handlers", []) or []:
                    scan(h.body)

        scan(fn.body)
        stored = {n.id for n in _walk_no_scopes(fn) if isinstance(n, ast.Name) and isinstance(n.ctx, (ast.Store, ast.Del))}
        return {k: v for k, v in out.items() if k not in dup and k not in stored}

    def resolve_helper(self, f: Func, call: ast.Call, nested: t.Dict[str, FuncNode]) -> t.Optional[t.Tuple[FuncNode, t.Optional[Func], t.Optional[ast.expr], str]]:
        """-> (helper node, Func or None for nested defs, receiver expression bound to the first parameter, label)."""
        fn = call.func
        if isinstance(fn, ast.Name):
            if fn.id in nested:
                return nested[fn.id], None, None, f"{f.qual}.<locals>.{fn.id}"
            h = self.repo.funcs.get(f"{f.mod.name}.{fn.id}" if f.mod.name else fn.id)
            if h is not None and h.qual in self.new_funcs and h is not f:
                return h.node, h, None, h.qual
            if h is None and fn.id not in (stored_names(f.node) | {a.arg for a in _params(f.node)}):
                # a new helper imported from another module of the package: inlinable when every free name of its body
                # means the same thing in the calling module
                r0 = self.repo.resolve_name(fn.id, f.mod)
                if isinstance(r0, Func) and r0.qual in self.new_funcs and r0.cls is None and r0 is not f and self._portable(r0.node, r0.mod, f.mod):
                    return r0.node, r0, None, r0.qual
            return None
        if isinstance(fn, ast.Attribute) and isinstance(fn.value, ast.Name):
            owner: t.Optional[Cls] = None
            recv: t.Optional[ast.expr] = None
            if fn.value.id in ("self", "cls") and f.cls is not None:
                owner, recv = f.cls, fn.value
            elif (f.qual, fn.value.id) in getattr(self, "objects", {}):
                # a local instance of a helper class that the function creates and keeps to itself (N21)
                oc = self.objects[(f.qual, fn.value.id)]
                hm = oc.find_method(fn.attr)
                if hm is None or hm.is_staticmethod or hm.is_classmethod or hm.qual not in self.new_funcs:
                    return None
                if hm.mod is not f.mod and not self._portable(hm.node, hm.mod, f.mod):
                    return None
                return hm.node, hm, fn.value, hm.qual
            else:
                r = self.repo.resolve_name(fn.value.id, f.mod)
                if isinstance(r, Cls) and fn.value.id not in (stored_names(f.node) | {a.arg for a in _params(f.node)}):
                    owner = r
            if owner is None:
                return None
            h = owner.find_method(fn.attr)
            if h is None or h.qual not in self.new_funcs or h is f:
                return None
            if h.mod is not f.mod and not ((h.is_staticmethod or h.is_classmethod) and self._portable(h.node, h.mod, f.mod)):
                return None  # a new alternate constructor / static helper of a class in another module: movable when its free names mean the same here
            # dynamic dispatch: the name must have a single definition in the hierarchy
            defs = [c for c in self.repo.classes.values() if fn.attr in c.methods and (c in owner.mro() or owner in c.mro())]
            if len(defs) != 1:
                return None
            if h.is_staticmethod:
                return h.node, h, None, h.qual
            if h.is_classmethod:
                if recv is None:
                    return h.node, h, fn.value, h.qual
                if fn.value.id == "cls":
                    return h.node, h, fn.value, h.qual
                return h.node, h, ast.Call(func=ast.Name(id="type", ctx=ast.Load()), args=[fn.value], keywords=[]), h.qual
            if recv is None or fn.value.id != "self":
                return None
            return h.node, h, fn.value, h.qual
        return None

    def _portable(self, h: FuncNode, home: Mod, target: Mod) -> bool:
        """Every free name of the helper body resolves to the same thing in the target module (same external import,
        same package object) or is a builtin: the body can be moved there unchanged."""
        import builtins

        adds: t.Dict[str, t.Any] = {}
        bound = stored_names(h) | {a.arg for a in _params(h)}
        # annotations are not evaluated by the moved body: their names do not have to mean anything in the target module
        skip: t.Set[int] = set()
        for n in ast.walk(h):
            anns: t.List[t.Optional[ast.AST]] = []
            if isinstance(n, ast.arg):
                anns.append(n.annotation)
            elif isinstance(n, (ast.FunctionDef, ast.AsyncFunctionDef)):
                anns.append(n.returns)
                anns.extend(n.decorator_list)
            elif isinstance(n, ast.AnnAssign):
                anns.append(n.annotation)
            for a_n in anns:
                if a_n is not None:
                    skip |= {id(x) for x in ast.walk(a_n)}
        for n in ast.walk(h):
            if id(n) in skip:
                continue
            if isinstance(n, ast.Name) and isinstance(n.ctx, ast.Load) and n.id not in bound:
                if n.id in home.imports or n.id in target.imports:
                    if home.imports.get(n.id) == target.imports.get(n.id):
                        continue
                    # defined in one module and imported by the other: the same object when both resolve to it
                    ra, rb = self.repo.resolve_name(n.id, home), self.repo.resolve_name(n.id, target)
                    if ra is not None and ra is rb:
                        continue
                    if n.id in home.imports and n.id not in target.imports and rb is None and not hasattr(builtins, n.id) and n.id not in target.consts:
                        adds[n.id] = home.imports[n.id]  # the target module no longer names it: the moved body keeps the home meaning
                        continue
                    return False
                a_, b_ = self.repo.resolve_name(n.id, home), self.repo.resolve_name(n.id, target)
                if a_ is None and b_ is None and hasattr(builtins, n.id):
                    continue
                if a_ is not None and b_ is None and n.id not in target.imports and not hasattr(builtins, n.id) and n.id not in target.consts:
                    # a package object the target module does not name at all (its import went away with the moved
                    # code): the moved body keeps the home module's meaning - the model imports it there
                    if n.id in home.imports:
                        adds[n.id] = home.imports[n.id]
                    else:
                        adds[n.id] = ("sym", home.name, n.id)
                    continue
                if a_ is None or b_ is None:
                    return False
                if a_ is b_:
                    continue
                if isinstance(a_, tuple) and isinstance(b_, tuple) and a_[:3] == b_[:3]:
                    continue
                return False
        target.imports.update(adds)
        return True

    def _eligible(self, h: FuncNode) -> bool:
        for d in h.decorator_list:
            if unparse(d) not in ("staticmethod", "classmethod"):
                return False
        a = h.args
        if a.kwarg:
            return False
        for n in _walk_no_scopes(h):
            if isinstance(n, (ast.Yield, ast.YieldFrom)):
                return False
        for st in h.body:
            for n in ast.walk(st):
                if isinstance(n, (ast.FunctionDef, ast.AsyncFunctionDef, ast.ClassDef)):
                    return False
                if isinstance(n, ast.Call) and isinstance(n.func, ast.Name) and n.func.id == h.name:
                    return False
                if isinstance(n, ast.Call) and isinstance(n.func, ast.Attribute) and n.func.attr == h.name and isinstance(n.func.value, ast.Name) and n.func.value.id in ("self", "cls"):
                    return False
        return True

    def _bind(self, h: FuncNode, call: ast.Call, recv: t.Optional[ast.expr], is_method: bool) -> t.Tuple[t.List[ast.stmt], t.Dict[str, str], t.Dict[str, ast.expr]]:
        """Parameter binding: (prologue assignments, rename map, substitution map)."""
        self.counter += 1
        k = self.counter
        params = _params(h)
        a = h.args
        pos = list(a.posonlyargs) + list(a.args)
        defaults: t.Dict[str, t.Optional[ast.expr]] = {}
        dl = [None] * (len(pos) - len(a.defaults)) + list(a.defaults)
        for p, d in zip(pos, dl):
            defaults[p.arg] = d
        for p, d in zip(a.kwonlyargs, a.kw_defaults):
            defaults[p.arg] = d
        given: t.Dict[str, ast.expr] = {}
        plist = list(pos)
        if is_method and recv is not None:
            if not plist:
                raise NotInlinable("method without receiver parameter")
            given[plist[0].arg] = recv
            plist = plist[1:]
        extra: t.List[ast.expr] = []
        if len(call.args) > len(plist):
            if a.vararg is None:
                raise NotInlinable("too many positionals")
            extra = list(call.args[len(plist):])
        if any(isinstance(v, ast.Starred) for v in extra):
            raise NotInlinable("starred argument")
        for p, v in zip(plist, call.args):
            if isinstance(v, ast.Starred):
                raise NotInlinable("starred argument")
            given[p.arg] = v
        names = {p.arg for p in params}
        for kw in call.keywords:
            if kw.arg is None or kw.arg not in names or kw.arg in given:
                raise NotInlinable("keyword mismatch")
            given[kw.arg] = kw.value
        for p in params:
            if p.arg not in given:
                d = defaults.get(p.arg)
                if d is None:
                    raise NotInlinable(f"missing argument {p.arg}")
                if not _is_pure(d):
                    raise NotInlinable("impure default")
                given[p.arg] = d
        stored = stored_names(h)
        nonlocal_ = {n for st in ast.walk(h) if isinstance(st, (ast.Nonlocal, ast.Global)) for n in st.names}
        rename = {n: f"{n}__i{k}" for n in (stored | names | ({a.vararg.arg} if a.vararg else set())) - nonlocal_}
        subst: t.Dict[str, ast.expr] = {}
        prologue: t.List[ast.stmt] = []
        if a.vararg is not None:
            # *values receives the surplus positional arguments as a tuple
            prologue.append(ast.copy_location(ast.Assign(targets=[ast.Name(id=rename[a.vararg.arg], ctx=ast.Store())], value=ast.Tuple(elts=[copy.deepcopy(v) for v in extra], ctx=ast.Load())), call))
        for p in params:
            v = given[p.arg]
            if p.arg not in stored and _is_pure(v) and (_is_pure_path(v) or isinstance(v, ast.Constant) or not any(isinstance(x, (ast.Slice, ast.Call)) for x in ast.walk(v))):
                subst[p.arg] = v
                del rename[p.arg]
            else:
                prologue.append(ast.copy_location(ast.Assign(targets=[ast.Name(id=rename[p.arg], ctx=ast.Store())], value=copy.deepcopy(v)), call))
        return prologue, rename, subst

    def _tail(self, stmts: t.List[ast.stmt], k: t.Callable[[t.Optional[ast.expr], ast.stmt], t.List[ast.stmt]], falls: bool = True) -> t.List[ast.stmt]:
        """Rewrite `return e` (all in tail position) through k; `falls`: falling off the end is a return None."""
        out: t.List[ast.stmt] = []
        for i, s in enumerate(stmts):
            rest = stmts[i + 1 :]
            if isinstance(s, ast.Return):
                out.extend(k(s.value, s))
                return out
            if isinstance(s, ast.Raise):
                out.append(s)
                return out
            if not _has_return(s):
                out.append(s)
                continue
            if isinstance(s, ast.If):
                body = self._tail(list(s.body) + ([] if _terminates(s.body) else copy.deepcopy(rest)), k, falls)
                orelse = self._tail(list(s.orelse) + ([] if (s.orelse and _terminates(s.orelse)) else copy.deepcopy(rest)), k, falls)
                new = ast.copy_location(ast.If(test=s.test, body=body or [ast.Pass()], orelse=orelse), s)
                out.append(new)
                return out
            if isinstance(s, (ast.With, ast.AsyncWith)) and not rest:
                new = copy.copy(s)
                new.body = self._tail(list(s.body), k, falls)
                out.append(new)
                return out
            raise NotInlinable(f"return inside {type(s).__name__}")
        if falls:
            out.extend(k(None, stmts[-1] if stmts else ast.Pass()))
        return out

    def _instantiate(self, h: FuncNode, call: ast.Call, recv: t.Optional[ast.expr], is_method: bool) -> t.Tuple[t.List[ast.stmt], t.List[ast.stmt]]:
        prologue, rename, subst = self._bind(h, call, recv, is_method)
        body = [copy.deepcopy(s) for s in strip_docstring(list(h.body))]
        tr = _Subst(rename, subst)
        new_body: t.List[ast.stmt] = []
        for s in body:
            r = tr.visit(s)
            if r is not None:
                new_body.append(r)
        return prologue, new_body

    def inline_in(self, f: Func) -> t.Optional[FuncNode]:
        nested = self._nested_defs(f.node)
        if not self.new_funcs and not nested:
            return None
        if f.qual in self.inv_funcs:
            nested = {n: d for n, d in nested.items() if f"{f.qual}.<locals>.{n}" not in self.inv_funcs}
        # cheap pre-test
        names = {q.rsplit(".", 1)[-1] for q in self.new_funcs} | set(nested)
        if not any((isinstance(n, ast.Name) and n.id in names) or (isinstance(n, ast.Attribute) and n.attr in names) for n in ast.walk(f.node)):
            return None
        self._hit = False
        new = copy.copy(f.node)
        new.body = self._inline_block(f, list(f.node.body), nested)
        if not self._hit:
            return None
        # nested helper defs that are no longer referenced disappear
        refs = {n.id for n in ast.walk(ast.Module(body=[s for s in new.body if not isinstance(s, (ast.FunctionDef, ast.AsyncFunctionDef))], type_ignores=[])) if isinstance(n, ast.Name)}
        new.body = [s for s in new.body if not (isinstance(s, (ast.FunctionDef, ast.AsyncFunctionDef)) and s.name in nested and s.name not in refs)] or [ast.Pass()]
        return new

    def _inline_block(self, f: Func, stmts: t.List[ast.stmt], nested: t.Dict[str, FuncNode]) -> t.List[ast.stmt]:
        out: t.List[ast.stmt] = []
        for s in stmts:
            if isinstance(s, (ast.FunctionDef, ast.AsyncFunctionDef, ast.ClassDef)):
                out.append(s)
                continue
            out.extend(self._inline_stmt(f, s, nested))
        return out

    def _find_calls(self, f: Func, s: ast.stmt, nested: t.Dict[str, FuncNode]) -> t.List[t.Tuple[ast.expr, ast.Call, FuncNode, t.Optional[Func], t.Optional[ast.expr], str, bool]]:
        """Inlinable helper calls among the statement's own expressions, in source order.
        Each: (unit expression = the Call or the Await around it, call, helper, Func, receiver, label, in_deferred_position)."""
        found = []
        for root in _own_exprs(s):
            stack: t.List[t.Tuple[ast.AST, bool, t.Optional[ast.Await]]] = [(root, False, None)]
            while stack:
                n, deferred, aw = stack.pop()
                if isinstance(n, ast.Call):
                    r = self.resolve_helper(f, n, nested)
                    if r is not None:
                        hnode, hf, recv, label = r
                        is_async = isinstance(hnode, ast.AsyncFunctionDef)
                        if self._eligible(hnode) and is_async == (aw is not None):
                            found.append((aw if aw is not None else n, n, hnode, hf, recv, label, deferred))
                for name, val in ast.iter_fields(n):
                    vals = val if isinstance(val, list) else [val]
                    for i, c in enumerate(vals):
                        if not isinstance(c, ast.AST):
                            continue
                        d = deferred
                        if isinstance(n, (ast.Lambda, ast.ListComp, ast.SetComp, ast.DictComp, ast.GeneratorExp)):
                            d = True
                        if isinstance(n, ast.BoolOp) and i > 0:
                            d = True
                        if isinstance(n, ast.IfExp) and name in ("body", "orelse"):
                            d = True
                        stack.append((c, d, n if isinstance(n, ast.Await) and name == "value" else None))
        found.sort(key=lambda x: (getattr(x[0], "lineno", 0), getattr(x[0], "col_offset", 0)))
        return found

    def _inline_stmt(self, f: Func, s: ast.stmt, nested: t.Dict[str, FuncNode]) -> t.List[ast.stmt]:
        # recurse into nested blocks first
        for fld in ("body", "orelse", "finalbody"):
            blk = getattr(s, fld, None)
            if isinstance(blk, list) and blk and isinstance(blk[0], ast.stmt):
                s = copy.copy(s)
                setattr(s, fld, self._inline_block(f, blk, nested))
        if isinstance(s, ast.Try):
            s = copy.copy(s)
            hs = []
            for h in s.handlers:
                h2 = copy.copy(h)
                h2.body = self._inline_block(f, h.body, nested)
                hs.append(h2)
            s.handlers = hs
        calls = self._find_calls(f, s, nested)
        if not calls:
            return [s]
        unit, call, hnode, hf, recv, label, deferred = calls[0]
        is_method = hf is not None and hf.cls is not None and not hf.is_staticmethod
        body0 = strip_docstring(list(hnode.body))
        try:
            # (a) expression helper: `return e` only -> substitute in place, anywhere
            if len(body0) == 1 and isinstance(body0[0], ast.Return) and body0[0].value is not None:
                prologue, body = self._instantiate(hnode, call, recv, is_method)
                if prologue and (deferred or not isinstance(s, (ast.Assign, ast.AnnAssign, ast.AugAssign, ast.Return, ast.Expr, ast.If, ast.Raise, ast.Assert))):
                    raise NotInlinable("argument binding needed in a deferred position")
                expr = t.cast(ast.Return, body[0]).value
                new_s = _replace_expr(s, unit, t.cast(ast.expr, expr))
                self._done(f, label, call)
                return self._again(f, prologue + [new_s], nested)
            # an `if` test, a `for` iterable, a raise / assert operand are evaluated once, before the statement's blocks:
            # the helper's statements can run in front of it (not so a `while` test, which is evaluated again)
            if deferred or not isinstance(s, (ast.Assign, ast.AnnAssign, ast.AugAssign, ast.Return, ast.Expr, ast.If, ast.For, ast.Raise, ast.Assert)):
                raise NotInlinable("statement helper called from a loop test or deferred position")
            # evaluation order: no other call of the statement may be evaluated before the helper call
            inside = {id(x) for x in ast.walk(unit)}
            upos = (getattr(unit, "lineno", 0), getattr(unit, "col_offset", 0))
            for root in _own_exprs(s):
                for n in ast.walk(root):
                    if isinstance(n, (ast.Call, ast.Await)) and id(n) not in inside and not any(x is unit for x in ast.walk(n)):
                        if (getattr(n, "lineno", 0), getattr(n, "col_offset", 0)) < upos:
                            raise NotInlinable("an earlier call in the same statement")
            prologue, body = self._instantiate(hnode, call, recv, is_method)
            if isinstance(s, ast.Return) and s.value is unit:
                new_body = list(body)
                if not _terminates(new_body):
                    new_body.append(ast.copy_location(ast.Return(value=None), s))
                self._done(f, label, call)
                return self._again(f, prologue + new_body, nested)
            if isinstance(s, ast.Expr) and s.value is unit:
                def k_expr(e: t.Optional[ast.expr], at: ast.stmt) -> t.List[ast.stmt]:
                    if e is None or _is_pure(e):
                        return []
                    return [ast.copy_location(ast.Expr(value=e), at)]

                new_body = self._tail(body, k_expr) or [ast.copy_location(ast.Pass(), s)]
                self._done(f, label, call)
                return self._again(f, prologue + new_body, nested)
            if isinstance(s, ast.Assign) and s.value is unit:
                targets = s.targets

                def k_asg(e: t.Optional[ast.expr], at: ast.stmt) -> t.List[ast.stmt]:
                    return [ast.copy_location(ast.Assign(targets=copy.deepcopy(targets), value=e if e is not None else ast.Constant(value=None)), at)]

                new_body = self._tail(body, k_asg)
                self._done(f, label, call)
                return self._again(f, prologue + new_body, nested)
            if isinstance(s, ast.AnnAssign) and s.value is unit:
                ann = s

                def k_ann(e: t.Optional[ast.expr], at: ast.stmt) -> t.List[ast.stmt]:
                    return [ast.copy_location(ast.AnnAssign(target=copy.deepcopy(ann.target), annotation=ann.annotation, value=e if e is not None else ast.Constant(value=None), simple=ann.simple), at)]

                new_body = self._tail(body, k_ann)
                self._done(f, label, call)
                return self._again(f, prologue + new_body, nested)
            # general position: bind the result to a fresh local first
            self.counter += 1
            tmp = f"r__i{self.counter}"

            def k_tmp(e: t.Optional[ast.expr], at: ast.stmt) -> t.List[ast.stmt]:
                return [ast.copy_location(ast.Assign(targets=[ast.Name(id=tmp, ctx=ast.Store())], value=e if e is not None else ast.Constant(value=None)), at)]

            new_body = self._tail(body, k_tmp)
            new_s = _replace_expr(s, unit, ast.copy_location(ast.Name(id=tmp, ctx=ast.Load()), unit))
            self._done(f, label, call)
            return self._again(f, prologue + new_body + [new_s], nested)
        except NotInlinable as e:
            msg = f"{f.qual}:{getattr(call, 'lineno', 0)} {label}: {e}"
            if msg not in self.log["not_inlined"]:
                self.log["not_inlined"].append(msg)
            return [s]

    def _done(self, f: Func, label: str, call: ast.Call) -> None:
        self._hit = True
        self.log["inlined"].append(f"{label} into {f.qual}:{getattr(call, 'lineno', 0)}")

    def _again(self, f: Func, stmts: t.List[ast.stmt], nested: t.Dict[str, FuncNode]) -> t.List[ast.stmt]:
        """The statement may hold further helper calls (and the inlined body may call other helpers)."""
        if self.counter > 400:
            return stmts
        out: t.List[ast.stmt] = []
        for s in stmts:
            ast.fix_missing_locations(s)
            out.extend(self._inline_stmt(f, s, nested))
        return out

    def _drop_unreferenced(self) -> None:
        repo = self.repo
        for q, h in list(self.new_funcs.items()):
            if not h.name.startswith("_") or h.name.startswith("__"):
                continue
            if not any(x.startswith(h.qual) for x in self.log["inlined"]):
                continue
            refs = 0
            for g in repo.funcs.values():
                if g is h:
                    continue
                for n in ast.walk(g.node):
                    if (isinstance(n, ast.Name) and n.id == h.name) or (isinstance(n, ast.Attribute) and n.attr == h.name):
                        refs += 1
            for m in repo.modules.values():
                for st in m.tree.body:
                    if isinstance(st, (ast.FunctionDef, ast.AsyncFunctionDef, ast.ClassDef)):
                        continue
                    for n in ast.walk(st):
                        if (isinstance(n, ast.Name) and n.id == h.name) or (isinstance(n, ast.Attribute) and n.attr == h.name):
                            refs += 1
            if refs == 0:
                del repo.funcs[q]
                if h.cls is not None:
                    h.cls.methods.pop(h.name, None)
                    h.cls.node.body = [s for s in h.cls.node.body if s is not h.node] or [ast.Pass()]
                else:
                    h.mod.tree.body = [s for s in h.mod.tree.body if s is not h.node]

    # ------------------------------------------------------------------------------------------ N5
    def split_ifexp(self, f: Func) -> t.Optional[FuncNode]:
        """`T = A if C else B` / `return A if C else B`  ->  if C: T = A  else: T = B  (one decision per path)."""
        hit = [False]

        def block(stmts: t.List[ast.stmt]) -> t.List[ast.stmt]:
            out: t.List[ast.stmt] = []
            for s in stmts:
                if isinstance(s, (ast.FunctionDef, ast.AsyncFunctionDef, ast.ClassDef)):
                    out.append(s)
                    continue
                s2 = s
                for fld in ("body", "orelse", "finalbody"):
                    blk = getattr(s, fld, None)
                    if isinstance(blk, list) and blk and isinstance(blk[0], ast.stmt):
                        if s2 is s:
                            s2 = copy.copy(s)
                        setattr(s2, fld, block(blk))
                if isinstance(s, ast.Try):
                    if s2 is s:
                        s2 = copy.copy(s)
                    hs = []
                    for h in s.handlers:
                        h2 = copy.copy(h)
                        h2.body = block(h.body)
                        hs.append(h2)
                    s2.handlers = hs
                v = getattr(s2, "value", None)
                if isinstance(s2, (ast.Assign, ast.AnnAssign, ast.Return)) and isinstance(v, ast.IfExp):
                    a, b = copy.copy(s2), copy.copy(s2)
                    a.value, b.value = v.body, v.orelse
                    new = ast.copy_location(ast.If(test=v.test, body=block([a]), orelse=block([b])), s2)
                    hit[0] = True
                    out.append(new)
                    continue
                out.append(s2)
            return out

        new = copy.copy(f.node)
        new.body = block(list(f.node.body))
        return new if hit[0] else None

    # ------------------------------------------------------------------------------------------ N8
    # ------------------------------------------------------------------------------------------ N21
    def find_objects(self, f: Func) -> t.Optional[FuncNode]:
        """A local `obj = C(args)` of a helper class C that is not in the inventory, whose only uses are `obj.attr` and
        `obj.method(...)` (it is not passed on, returned or stored), is dissolved: the constructor call becomes
        `obj.__init__(args)`, N1 inlines __init__ and the methods with self := obj, and dissolve_objects turns every
        `obj.attr` into a local `obj__attr` (scalar replacement of an aggregate that does not escape)."""
        new_classes = getattr(self.repo, "new_classes", set())
        if not new_classes:
            return None
        fn = f.node
        cands: t.Dict[str, t.Optional[Cls]] = {}
        for n in _walk_no_scopes(fn):
            if isinstance(n, (ast.Assign, ast.AnnAssign)) and isinstance(n.value, ast.Call) and isinstance(n.value.func, ast.Name):
                tg = n.targets[0] if isinstance(n, ast.Assign) and len(n.targets) == 1 else getattr(n, "target", None)
                r = self.repo.resolve_name(n.value.func.id, f.mod)
                if isinstance(r, Cls) and r.qual in new_classes and r.is_dataclass and "__init__" not in r.methods and not r.base_exprs:
                    self._synth_init(r)
                if isinstance(tg, ast.Name) and isinstance(r, Cls) and r.qual in new_classes and not r.base_exprs and "__init__" in r.methods and (not r.is_dataclass or getattr(r, "_synth_init", False)) and (r.mod is f.mod or all(self._portable(m_.node, r.mod, f.mod) for m_ in r.methods.values())):
                    cands[tg.id] = None if tg.id in cands else r
        cands = {k: v for k, v in cands.items() if v is not None}
        if not cands:
            return None
        parents: t.Dict[int, ast.AST] = {}
        for p_ in ast.walk(fn):
            for c_ in ast.iter_child_nodes(p_):
                parents[id(c_)] = p_
        ok: t.Dict[str, Cls] = {}
        for name, cls in cands.items():
            assert cls is not None
            fine = True
            nstores = 0
            for n in ast.walk(fn):
                if isinstance(n, ast.Name) and n.id == name:
                    par = parents.get(id(n))
                    if isinstance(n.ctx, ast.Store):
                        nstores += 1
                        continue
                    if not (isinstance(par, ast.Attribute) and par.value is n):
                        fine = False
                        break
            # inside the class `self` must not escape either
            for m in cls.methods.values():
                if m.is_staticmethod or m.is_classmethod or not self._eligible(m.node) or not m.params:
                    fine = False
                    break
                mp: t.Dict[int, ast.AST] = {}
                for p_ in ast.walk(m.node):
                    for c_ in ast.iter_child_nodes(p_):
                        mp[id(c_)] = p_
                for n in ast.walk(m.node):
                    if isinstance(n, ast.Name) and n.id == m.params[0]:
                        par = mp.get(id(n))
                        if not (isinstance(par, ast.Attribute) and par.value is n):
                            fine = False
            if fine and nstores == 1:
                ok[name] = cls
        if not ok:
            return None
        new = copy.deepcopy(fn)

        class R(ast.NodeTransformer):
            def visit_Assign(self, n: ast.Assign) -> ast.AST:
                return self._ctor(n, n.targets[0] if len(n.targets) == 1 else None)

            def visit_AnnAssign(self, n: ast.AnnAssign) -> ast.AST:
                return self._ctor(n, n.target)

            def _ctor(self, n: t.Any, tg: t.Optional[ast.expr]) -> ast.AST:
                v = n.value
                if isinstance(tg, ast.Name) and tg.id in ok and isinstance(v, ast.Call) and isinstance(v.func, ast.Name) and v.func.id == ok[tg.id].name:
                    call = ast.Call(func=ast.Attribute(value=ast.Name(id=tg.id, ctx=ast.Load()), attr="__init__", ctx=ast.Load()), args=v.args, keywords=v.keywords)
                    return ast.copy_location(ast.Expr(value=ast.copy_location(call, v)), n)
                return n

        R().visit(new)
        ast.fix_missing_locations(new)
        for name, cls in ok.items():
            self.objects[(f.qual, name)] = cls
            self.log.setdefault("inlined", []).append(f"{f.qual}: local {name} of helper class {cls.name} dissolved into its fields")
        return new

    def _synth_init(self, c: Cls) -> None:
        """The __init__ a plain @dataclass generates: one parameter per init field (defaults kept), stored to self."""
        flds = c.init_params()
        if any(fl.default is not None and not _is_pure(fl.default) for fl in flds):
            return
        args = [ast.arg(arg="self")] + [ast.arg(arg=fl.name) for fl in flds]
        defaults = [copy.deepcopy(fl.default) for fl in flds if fl.default is not None]
        # defaults must be trailing for a valid signature (dataclasses enforces the same)
        seen_default = False
        for fl in flds:
            if fl.default is not None:
                seen_default = True
            elif seen_default:
                return
        body: t.List[ast.stmt] = [ast.Assign(targets=[ast.Attribute(value=ast.Name(id="self", ctx=ast.Load()), attr=fl.name, ctx=ast.Store())], value=ast.Name(id=fl.name, ctx=ast.Load()), lineno=c.node.lineno) for fl in flds] or [ast.Pass()]
        node = ast.FunctionDef(name="__init__", args=ast.arguments(posonlyargs=[], args=args, kwonlyargs=[], kw_defaults=[], defaults=defaults), body=body, decorator_list=[], returns=None, lineno=c.node.lineno, col_offset=0)
        try:
            node.type_params = []  # type: ignore[attr-defined]
        except Exception:
            pass
        ast.fix_missing_locations(node)
        qual = f"{c.qual}.__init__"
        fn = Func(qual, node, c.mod, c)
        c.methods["__init__"] = fn
        self.repo.funcs[qual] = fn
        self.new_funcs[qual] = fn
        c._synth_init = True  # type: ignore[attr-defined]

    def dissolve_objects(self, f: Func) -> t.Optional[FuncNode]:
        names = {n for (q, n) in getattr(self, "objects", {}) if q == f.qual}
        if not names:
            return None
        # every method call must have been inlined; otherwise leave the attribute form in place
        for n in ast.walk(f.node):
            if isinstance(n, ast.Call) and isinstance(n.func, ast.Attribute) and isinstance(n.func.value, ast.Name) and n.func.value.id in names and n.func.attr in self.objects[(f.qual, n.func.value.id)].methods:
                return None
        new = copy.deepcopy(f.node)

        class A(ast.NodeTransformer):
            def visit_Attribute(self, node: ast.Attribute) -> ast.AST:
                self.generic_visit(node)
                if isinstance(node.value, ast.Name) and node.value.id in names:
                    return ast.copy_location(ast.Name(id=f"{node.value.id}__{node.attr}", ctx=node.ctx), node)
                return node

        A().visit(new)
        return new

    # ------------------------------------------------------------------------------------------ N22
    def scan_loops(self, f: Func) -> t.Optional[FuncNode]:
        """while T: B (containing one `return E`, no break) ; R   with R ending in raise / return
               ->   while True: if not T: R ; B[return E -> break]   ;   return E
        (leaving the loop because T became false runs R, which never falls through; leaving it through the return
        evaluates E in the same state the break leaves).  This is the scan-with-exhaustion-exit form of the reference tree."""
        hit = [False]

        negate = _negate

        def block(stmts: t.List[ast.stmt]) -> t.List[ast.stmt]:
            out: t.List[ast.stmt] = []
            i = 0
            while i < len(stmts):
                s_ = stmts[i]
                if not isinstance(s_, (ast.FunctionDef, ast.AsyncFunctionDef, ast.ClassDef)):
                    for fld in ("body", "orelse", "finalbody"):
                        blk = getattr(s_, fld, None)
                        if isinstance(blk, list) and blk and isinstance(blk[0], ast.stmt):
                            setattr(s_, fld, block(blk))
                    if isinstance(s_, ast.Try):
                        for h in s_.handlers:
                            h.body = block(h.body)
                rest = stmts[i + 1:]
                if isinstance(s_, ast.While) and not s_.orelse and not (isinstance(s_.test, ast.Constant) and s_.test.value) and rest and _terminates(rest):
                    inner = [x for b_ in s_.body for x in ast.walk(b_)]
                    rets = [x for x in inner if isinstance(x, ast.Return)]
                    nested_loops = [x for x in inner if isinstance(x, (ast.For, ast.While, ast.FunctionDef, ast.AsyncFunctionDef, ast.Lambda))]
                    breaks = [x for x in inner if isinstance(x, ast.Break)]
                    if len(rets) == 1 and not breaks and not nested_loops and rets[0].value is not None:
                        ret = rets[0]

                        class R(ast.NodeTransformer):
                            def visit_Return(self, node: ast.Return) -> ast.AST:
                                return ast.copy_location(ast.Break(), node)

                        guard = ast.copy_location(ast.If(test=negate(s_.test), body=copy.deepcopy(rest), orelse=[]), s_)
                        body = [guard] + [t.cast(ast.stmt, R().visit(copy.deepcopy(b_))) for b_ in s_.body]
                        loop = ast.copy_location(ast.While(test=ast.copy_location(ast.Constant(value=True), s_.test), body=body, orelse=[]), s_)
                        out.append(loop)
                        out.append(ast.copy_location(ast.Return(value=copy.deepcopy(ret.value)), ret))
                        hit[0] = True
                        return out
                out.append(s_)
                i += 1
            return out

        new = copy.deepcopy(f.node)
        new.body = block(list(new.body))
        return new if hit[0] else None

    # ------------------------------------------------------------------------------------------ N19
    def unroll_tables(self, f: Func) -> t.Optional[FuncNode]:
        """A comprehension or a straight-line for loop over a *literal table* - a tuple / list display of at most 8 rows,
        written in place or bound once to a local / module constant that is never changed - is its instances:
            [g(a, b) for a, b in ((x1, y1), (x2, y2))]      ->  [g(x1, y1), g(x2, y2)]
            for v in (p, q, r): acc += h(v)                 ->  acc += h(p); acc += h(q); acc += h(r)
        Row elements must be pure (names, attributes, constants); the loop variables must not be assigned in the body
        or used after the loop; no break / continue / else."""
        fn = f.node
        repo = self.repo
        hit = [False]
        stores: t.Dict[str, int] = {}
        for n in _walk_no_scopes(fn):
            if isinstance(n, ast.Name) and isinstance(n.ctx, (ast.Store, ast.Del)):
                stores[n.id] = stores.get(n.id, 0) + 1
        params = {a.arg for a in _params(fn)}
        mutated = {n.func.value.id for n in ast.walk(fn) if isinstance(n, ast.Call) and isinstance(n.func, ast.Attribute) and isinstance(n.func.value, ast.Name)}

        def table(it: ast.expr) -> t.Optional[t.List[ast.expr]]:
            if isinstance(it, ast.Name):
                if it.id in params:
                    return None
                if it.id in stores:
                    if stores[it.id] != 1 or it.id in mutated:
                        return None
                    defs = [n for n in fn.body if isinstance(n, (ast.Assign, ast.AnnAssign)) and n.value is not None and [unparse(x) for x in (n.targets if isinstance(n, ast.Assign) else [n.target])] == [it.id]]
                    if len(defs) != 1:
                        return None
                    it = t.cast(ast.expr, defs[0].value)
                else:
                    r = repo.resolve_name(it.id, f.mod)
                    if not (isinstance(r, tuple) and r[0] == "const" and len(r) == 3 and r[1] is f.mod):
                        return None
                    from .load import mutated_global

                    if mutated_global(r[1], it.id):
                        return None
                    it = r[2]
            if not isinstance(it, (ast.Tuple, ast.List)) or not (1 <= len(it.elts) <= 8):
                return None
            rows = list(it.elts)
            for r_ in rows:
                cells = r_.elts if isinstance(r_, (ast.Tuple, ast.List)) else [r_]
                if any(isinstance(c, ast.Starred) or not (_is_pure_path(c) or isinstance(c, ast.Constant) or (isinstance(c, ast.UnaryOp) and isinstance(c.operand, ast.Constant))) for c in cells):
                    return None
            return rows

        def binding(target: ast.expr, row: ast.expr) -> t.Optional[t.Dict[str, ast.expr]]:
            if isinstance(target, ast.Name):
                return {target.id: row}
            if isinstance(target, (ast.Tuple, ast.List)) and isinstance(row, (ast.Tuple, ast.List)) and len(target.elts) == len(row.elts) and all(isinstance(x, ast.Name) for x in target.elts):
                return {t.cast(ast.Name, x).id: v for x, v in zip(target.elts, row.elts)}
            return None

        def inst(node: ast.AST, env: t.Dict[str, ast.expr]) -> ast.AST:
            class S_(ast.NodeTransformer):
                def visit_Name(self, n: ast.Name) -> ast.AST:
                    if isinstance(n.ctx, ast.Load) and n.id in env:
                        return copy.deepcopy(env[n.id])
                    return n

            return S_().visit(copy.deepcopy(node))

        class C(ast.NodeTransformer):
            def visit_ListComp(self, node: ast.ListComp) -> ast.AST:
                self.generic_visit(node)
                if len(node.generators) != 1 or node.generators[0].ifs or node.generators[0].is_async:
                    return node
                g = node.generators[0]
                rows = table(g.iter)
                if rows is None:
                    return node
                envs = [binding(g.target, r_) for r_ in rows]
                if any(e is None for e in envs):
                    return node
                hit[0] = True
                return ast.copy_location(ast.List(elts=[t.cast(ast.expr, inst(node.elt, t.cast(t.Dict[str, ast.expr], e))) for e in envs], ctx=ast.Load()), node)

        def block(stmts: t.List[ast.stmt]) -> t.List[ast.stmt]:
            out: t.List[ast.stmt] = []
            for i, s_ in enumerate(stmts):
                if isinstance(s_, (ast.FunctionDef, ast.AsyncFunctionDef, ast.ClassDef)):
                    out.append(s_)
                    continue
                for fld in ("body", "orelse", "finalbody"):
                    blk = getattr(s_, fld, None)
                    if isinstance(blk, list) and blk and isinstance(blk[0], ast.stmt):
                        setattr(s_, fld, block(blk))
                if isinstance(s_, ast.Try):
                    for h in s_.handlers:
                        h.body = block(h.body)
                if isinstance(s_, ast.For) and not s_.orelse and table(s_.iter) is not None:
                    # `if c: X; continue` + rest  ->  `if c: X else: rest`  (the only use of continue that is unrolled)
                    def decontinue(body: t.List[ast.stmt]) -> t.List[ast.stmt]:
                        for k, b_ in enumerate(body):
                            if isinstance(b_, ast.If) and not b_.orelse and b_.body and isinstance(b_.body[-1], ast.Continue):
                                new_if = copy.copy(b_)
                                new_if.body = list(b_.body[:-1]) or [ast.copy_location(ast.Pass(), b_)]
                                new_if.orelse = decontinue(list(body[k + 1:]))
                                return list(body[:k]) + [new_if]
                        return body

                    s_ = copy.copy(s_)
                    s_.body = decontinue(list(s_.body))
                if isinstance(s_, ast.For) and not s_.orelse:
                    rows = table(s_.iter)
                    tn = {x.id for x in ast.walk(s_.target) if isinstance(x, ast.Name)}
                    simple = not any(isinstance(x, (ast.Break, ast.Continue, ast.Return, ast.FunctionDef, ast.AsyncFunctionDef, ast.Lambda, ast.For, ast.While)) for b_ in s_.body for x in ast.walk(b_))
                    reassigned = any(isinstance(x, ast.Name) and x.id in tn and isinstance(x.ctx, ast.Store) for b_ in s_.body for x in ast.walk(b_))
                    used_after = any(isinstance(x, ast.Name) and x.id in tn for later in stmts[i + 1:] for x in ast.walk(later)) or any(stores.get(n_, 0) > 1 for n_ in tn)
                    if rows is not None and simple and not reassigned and not used_after:
                        envs = [binding(s_.target, r_) for r_ in rows]
                        if all(e is not None for e in envs):
                            for e in envs:
                                out.extend(t.cast(ast.stmt, inst(b_, t.cast(t.Dict[str, ast.expr], e))) for b_ in s_.body)
                            hit[0] = True
                            continue
                out.append(s_)
            return out

        new = copy.deepcopy(fn)
        C().visit(new)
        new.body = block(list(new.body))
        return new if hit[0] else None

    def desugar_listcomp(self, f: Func) -> t.Optional[FuncNode]:
        """X = [ELT for T in IT if C]   ->   X = [];  for T in IT:  if C:  X.append(ELT)
        (one generator, not over range(): index comprehensions over byte windows are read as repeated reads instead)."""
        hit = [False]
        bound_elsewhere = stored_names(f.node) | {a.arg for a in _params(f.node)}

        def block(stmts: t.List[ast.stmt]) -> t.List[ast.stmt]:
            out: t.List[ast.stmt] = []
            for s in stmts:
                if isinstance(s, (ast.FunctionDef, ast.AsyncFunctionDef, ast.ClassDef)):
                    out.append(s)
                    continue
                s2 = s
                for fld in ("body", "orelse", "finalbody"):
                    blk = getattr(s, fld, None)
                    if isinstance(blk, list) and blk and isinstance(blk[0], ast.stmt):
                        if s2 is s:
                            s2 = copy.copy(s)
                        setattr(s2, fld, block(blk))
                v = getattr(s2, "value", None)
                tgt = s2.targets[0] if isinstance(s2, ast.Assign) and len(s2.targets) == 1 else (s2.target if isinstance(s2, ast.AnnAssign) else None)
                if isinstance(s2, (ast.Assign, ast.AnnAssign)) and isinstance(tgt, ast.Name) and isinstance(v, (ast.ListComp, ast.SetComp)) and len(v.generators) == 1 and not v.generators[0].is_async:
                    g = v.generators[0]
                    tnames = {n.id for n in ast.walk(g.target) if isinstance(n, ast.Name)}
                    over_range = isinstance(g.iter, ast.Call) and isinstance(g.iter.func, ast.Name) and g.iter.func.id == "range"
                    uses_target = any(isinstance(n, ast.Name) and n.id == tgt.id for n in ast.walk(v))
                    if not over_range and not uses_target and not (tnames & (bound_elsewhere - tnames)):
                        init = copy.copy(s2)
                        is_set = isinstance(v, ast.SetComp)
                        init.value = ast.copy_location(ast.Call(func=ast.Name(id="set", ctx=ast.Load()), args=[], keywords=[]) if is_set else ast.List(elts=[], ctx=ast.Load()), v)
                        app: ast.stmt = ast.copy_location(ast.Expr(value=ast.copy_location(ast.Call(func=ast.Attribute(value=ast.Name(id=tgt.id, ctx=ast.Load()), attr="add" if is_set else "append", ctx=ast.Load()), args=[v.elt], keywords=[]), v)), v)
                        for c in reversed(g.ifs):
                            app = ast.copy_location(ast.If(test=c, body=[app], orelse=[]), v)
                        loop = ast.copy_location(ast.For(target=g.target, iter=g.iter, body=[app], orelse=[]), v)
                        out.extend([init, loop])
                        hit[0] = True
                        continue
                out.append(s2)
            return out

        new = copy.copy(f.node)
        new.body = block(list(f.node.body))
        return new if hit[0] else None

    # ------------------------------------------------------------------------------------------ N10
    def equivalent_calls(self, f: Func) -> t.Optional[FuncNode]:
        """typing.cast(T, x) -> x;  reversed(range(a, b)) -> range(b - 1, a - 1, -1);  divmod(a, b)[0] -> a // b;  divmod(a, b)[1] -> a % b  (pure a, b)."""
        hit = [False]
        repo = self.repo
        norm = self

        def class_of(name: str) -> t.Optional[Cls]:
            """The repository class of a local: annotated parameter, or a single definition `name = C(...)` / `name = C.unpack(...)`."""
            for a in _params(f.node):
                if a.arg == name and isinstance(a.annotation, ast.Name):
                    r = repo.resolve_name(a.annotation.id, f.mod)
                    return r if isinstance(r, Cls) else None
            defs = [n for n in _walk_no_scopes(f.node) if isinstance(n, (ast.Assign, ast.AnnAssign)) and any(isinstance(x, ast.Name) and x.id == name for tg in (n.targets if isinstance(n, ast.Assign) else [n.target]) for x in ast.walk(tg))]
            if len(defs) != 1 or not isinstance(defs[0].value, ast.Call):
                return None
            tg0 = defs[0].targets[0] if isinstance(defs[0], ast.Assign) else defs[0].target
            if not isinstance(tg0, ast.Name):
                return None
            fn0 = defs[0].value.func
            if isinstance(fn0, ast.Attribute) and fn0.attr == "unpack":
                fn0 = fn0.value
            if isinstance(fn0, ast.Name):
                r = repo.resolve_name(fn0.id, f.mod)
                if isinstance(r, Cls) and (fn0 is defs[0].value.func or "unpack" in r.methods):
                    return r
            # a package function / method whose return annotation names a class of the package (Optional[...] allowed)
            cal = norm._callee(f, defs[0].value, stored_names(f.node) | {a_.arg for a_ in _params(f.node)})
            if cal is not None and cal[0].node.returns is not None:
                ann = cal[0].node.returns
                if isinstance(ann, ast.Constant) and isinstance(ann.value, str):
                    try:
                        ann = ast.parse(ann.value, mode="eval").body
                    except SyntaxError:
                        return None
                if isinstance(ann, ast.Subscript) and unparse(ann.value).endswith("Optional"):
                    ann = ann.slice
                if isinstance(ann, ast.Name):
                    r = repo.resolve_name(ann.id, cal[0].mod)
                    return r if isinstance(r, Cls) else None
            return None

        class T(ast.NodeTransformer):
            def visit_Call(self, node: ast.Call) -> ast.AST:
                self.generic_visit(node)
                node = t.cast(ast.Call, self.visit_Call2(node))
                fn_ = node.func
                if len(node.args) == 2 and not node.keywords and (isinstance(fn_, ast.Name) and fn_.id == "cast" or isinstance(fn_, ast.Attribute) and fn_.attr == "cast" and isinstance(fn_.value, ast.Name) and fn_.value.id in ("t", "typing")):
                    hit[0] = True
                    return node.args[1]  # typing.cast is the identity at run time
                if isinstance(node.func, ast.Name) and node.func.id == "reversed" and len(node.args) == 1 and not node.keywords:
                    r = node.args[0]
                    if isinstance(r, ast.Call) and isinstance(r.func, ast.Name) and r.func.id == "range" and 1 <= len(r.args) <= 2 and not r.keywords and all(_is_pure(a) or isinstance(a, ast.Call) and isinstance(a.func, ast.Name) and a.func.id == "len" for a in r.args):
                        lo = r.args[0] if len(r.args) == 2 else ast.Constant(value=0)
                        hi = r.args[-1]
                        hit[0] = True
                        new = ast.Call(func=ast.Name(id="range", ctx=ast.Load()), args=[ast.BinOp(left=hi, op=ast.Sub(), right=ast.Constant(value=1)), ast.BinOp(left=lo, op=ast.Sub(), right=ast.Constant(value=1)), ast.UnaryOp(op=ast.USub(), operand=ast.Constant(value=1))], keywords=[])
                        return ast.copy_location(new, node)
                return node

            def visit_Call2(self, node: ast.Call) -> ast.AST:
                """dataclasses.replace(X, a=v) -> C(f1=X.f1, ..., a=v) when the class C of the local X is known."""
                fn_ = node.func
                if not (isinstance(fn_, ast.Attribute) and fn_.attr == "replace" and isinstance(fn_.value, ast.Name) and fn_.value.id == "dataclasses" or isinstance(fn_, ast.Name) and fn_.id == "replace" and f.mod.imports.get("replace") == ("ext", "dataclasses.replace")):
                    return node
                if len(node.args) != 1 or not isinstance(node.args[0], ast.Name) or any(k.arg is None for k in node.keywords):
                    return node
                cls = class_of(node.args[0].id)
                if cls is None or not cls.is_dataclass:
                    return node
                fields = [p.name for p in cls.init_params()]
                given = {k.arg: k.value for k in node.keywords}
                if not set(given) <= set(fields):
                    return node
                hit[0] = True
                kws = [ast.keyword(arg=n_, value=given.get(n_) or ast.Attribute(value=ast.Name(id=node.args[0].id, ctx=ast.Load()), attr=n_, ctx=ast.Load())) for n_ in fields]
                new = ast.Call(func=ast.Name(id=cls.name, ctx=ast.Load()), args=[], keywords=kws)
                return ast.fix_missing_locations(ast.copy_location(new, node))

            def visit_Subscript(self, node: ast.Subscript) -> ast.AST:
                self.generic_visit(node)
                v = node.value
                if isinstance(node.ctx, ast.Load) and isinstance(v, ast.Call) and isinstance(v.func, ast.Name) and v.func.id == "divmod" and len(v.args) == 2 and not v.keywords and isinstance(node.slice, ast.Constant) and node.slice.value in (0, 1) and all(not any(isinstance(x, (ast.Await, ast.Yield, ast.NamedExpr)) for x in ast.walk(a)) for a in v.args):
                    hit[0] = True
                    op: ast.operator = ast.FloorDiv() if node.slice.value == 0 else ast.Mod()
                    return ast.copy_location(ast.BinOp(left=v.args[0], op=op, right=v.args[1]), node)
                return node

        new = copy.deepcopy(f.node)
        T().visit(new)
        return new if hit[0] else None

    # ------------------------------------------------------------------------------------------ N9
    def desugar_next(self, f: Func) -> t.Optional[FuncNode]:
        """V = next((ELT for T1 in I1 for T2 in I2 if C), D)   ->   V = D; for T1 in I1: for T2 in I2: if C: V = ELT; break ...
        (first match in iteration order; the generator may be bound to a local that is used only by that next())."""
        hit = [False]
        fn = f.node
        gens: t.Dict[str, t.Tuple[ast.GeneratorExp, ast.stmt]] = {}
        uses: t.Dict[str, int] = {}
        for n in _walk_no_scopes(fn):
            if isinstance(n, ast.Name) and isinstance(n.ctx, ast.Load):
                uses[n.id] = uses.get(n.id, 0) + 1
        for n in _walk_no_scopes(fn):
            if isinstance(n, (ast.Assign, ast.AnnAssign)) and isinstance(n.value, ast.GeneratorExp):
                tg = n.targets[0] if isinstance(n, ast.Assign) and len(n.targets) == 1 else getattr(n, "target", None)
                if isinstance(tg, ast.Name) and uses.get(tg.id, 0) == 1:
                    gens[tg.id] = (n.value, n)
        drop: t.Set[int] = set()

        def loops(g: ast.GeneratorExp, var: ast.Name, at: ast.AST) -> t.List[ast.stmt]:
            hitb: ast.stmt = ast.copy_location(ast.Assign(targets=[ast.Name(id=var.id, ctx=ast.Store())], value=g.elt), at)
            body: t.List[ast.stmt] = [hitb, ast.copy_location(ast.Break(), at)]
            first = True
            for comp in reversed(g.generators):
                for c in reversed(comp.ifs):
                    body = [ast.copy_location(ast.If(test=c, body=body, orelse=[]), at)]
                if not first:
                    # leave the outer loop too when the inner one was left by break
                    body = body + []
                loop = ast.copy_location(ast.For(target=comp.target, iter=comp.iter, body=body, orelse=[]), at)
                if not first:
                    inner = t.cast(ast.For, body[-1]) if isinstance(body[-1], ast.For) else None
                    if inner is not None:
                        inner.orelse = [ast.copy_location(ast.Continue(), at)]
                        loop.body = body + [ast.copy_location(ast.Break(), at)]
                body = [loop]
                first = False
            return body

        def block(stmts: t.List[ast.stmt]) -> t.List[ast.stmt]:
            out: t.List[ast.stmt] = []
            for s in stmts:
                if isinstance(s, (ast.FunctionDef, ast.AsyncFunctionDef, ast.ClassDef)):
                    out.append(s)
                    continue
                s2 = s
                for fld in ("body", "orelse", "finalbody"):
                    blk = getattr(s, fld, None)
                    if isinstance(blk, list) and blk and isinstance(blk[0], ast.stmt):
                        if s2 is s:
                            s2 = copy.copy(s)
                        setattr(s2, fld, block(blk))
                v = getattr(s2, "value", None)
                tgt = s2.targets[0] if isinstance(s2, ast.Assign) and len(s2.targets) == 1 else (s2.target if isinstance(s2, ast.AnnAssign) else None)
                if isinstance(s2, (ast.Assign, ast.AnnAssign)) and isinstance(tgt, ast.Name) and isinstance(v, ast.Call) and isinstance(v.func, ast.Name) and v.func.id == "next" and len(v.args) == 2 and not v.keywords:
                    g0 = v.args[0]
                    gen: t.Optional[ast.GeneratorExp] = g0 if isinstance(g0, ast.GeneratorExp) else None
                    if isinstance(g0, ast.Name) and g0.id in gens:
                        gen, defstmt = gens[g0.id]
                        drop.add(id(defstmt))
                    if gen is not None and not any(c.is_async for c in gen.generators):
                        init = copy.copy(s2)
                        init.value = v.args[1]
                        out.append(init)
                        out.extend(loops(gen, tgt, s2))
                        hit[0] = True
                        continue
                out.append(s2)
            return out

        new = copy.copy(fn)
        new.body = block(list(fn.body))
        if not hit[0]:
            return None

        def prune(stmts: t.List[ast.stmt]) -> t.List[ast.stmt]:
            res = []
            for s in stmts:
                if id(s) in drop:
                    continue
                for fld in ("body", "orelse", "finalbody"):
                    blk = getattr(s, fld, None)
                    if isinstance(blk, list) and blk and isinstance(blk[0], ast.stmt):
                        setattr(s, fld, prune(blk) or [ast.Pass()])
                res.append(s)
            return res

        new.body = prune(new.body)
        return new

    # ------------------------------------------------------------------------------------------ N7
    def unflag_loops(self, f: Func) -> t.Optional[FuncNode]:
        """done = False; while not done: BODY; done = E   ->   while True: BODY; if E: break
        (the flag is initialised false, written only as the last statement of the loop body and read only by the loop test)."""
        fn = f.node
        hit = [False]

        def uses(node: ast.AST, name: str) -> t.List[ast.Name]:
            return [n for n in _walk_no_scopes(node) if isinstance(n, ast.Name) and n.id == name]

        def block(stmts: t.List[ast.stmt]) -> t.List[ast.stmt]:
            out: t.List[ast.stmt] = []
            for s in stmts:
                s2 = s
                for fld in ("body", "orelse", "finalbody"):
                    blk = getattr(s, fld, None)
                    if isinstance(blk, list) and blk and isinstance(blk[0], ast.stmt):
                        if s2 is s:
                            s2 = copy.copy(s)
                        setattr(s2, fld, block(blk))
                if isinstance(s2, ast.While) and not s2.orelse:
                    test = s2.test
                    flag = test.operand.id if isinstance(test, ast.UnaryOp) and isinstance(test.op, ast.Not) and isinstance(test.operand, ast.Name) else None
                    last = s2.body[-1] if s2.body else None
                    if flag and isinstance(last, ast.Assign) and len(last.targets) == 1 and isinstance(last.targets[0], ast.Name) and last.targets[0].id == flag:
                        inits = [x for x in out if isinstance(x, (ast.Assign, ast.AnnAssign)) and isinstance(getattr(x, "targets", [getattr(x, "target", None)])[0], ast.Name) and getattr(x, "targets", [getattr(x, "target", None)])[0].id == flag]
                        init_ok = len(inits) == 1 and isinstance(inits[0].value, ast.Constant) and inits[0].value.value is False
                        all_uses = uses(fn, flag)
                        in_loop = uses(s2, flag)
                        stores_in_loop = [n for n in in_loop if isinstance(n.ctx, ast.Store)]
                        loads_in_loop = [n for n in in_loop if isinstance(n.ctx, ast.Load)]
                        no_continue = not any(isinstance(n, ast.Continue) for n in _walk_no_scopes(s2))
                        if init_ok and len(stores_in_loop) == 1 and len(loads_in_loop) == 1 and len(all_uses) == len(in_loop) + 1 and no_continue:
                            cond = last.value
                            while isinstance(cond, ast.Call) and isinstance(cond.func, ast.Name) and cond.func.id == "bool" and len(cond.args) == 1 and not cond.keywords:
                                cond = cond.args[0]
                            brk = ast.copy_location(ast.If(test=cond, body=[ast.copy_location(ast.Break(), last)], orelse=[]), last)
                            new = ast.copy_location(ast.While(test=ast.copy_location(ast.Constant(value=True), test), body=list(s2.body[:-1]) + [brk], orelse=[]), s2)
                            out.remove(inits[0])
                            out.append(new)
                            hit[0] = True
                            continue
                out.append(s2)
            return out

        new = copy.copy(fn)
        new.body = block(list(fn.body))
        return new if hit[0] else None

    # ------------------------------------------------------------------------------------------ N2
    def _callee(self, f: Func, call: ast.Call, locals_: t.Set[str]) -> t.Optional[t.Tuple[Func, bool]]:
        """Package callee of a call and whether the first parameter is bound by the receiver."""
        fn = call.func
        repo = self.repo
        if isinstance(fn, ast.Name):
            if fn.id in locals_:
                return None
            r = repo.resolve_name(fn.id, f.mod)
            if isinstance(r, Func):
                return r, False
            return None
        if isinstance(fn, ast.Attribute):
            if isinstance(fn.value, ast.Name) and fn.value.id in ("self", "cls") and f.cls is not None:
                m = f.cls.find_method(fn.attr)
                if m is not None:
                    return m, not m.is_staticmethod
                return None
            r = repo.resolve(fn.value, f.mod) if not (isinstance(fn.value, ast.Name) and fn.value.id in locals_) else None
            if isinstance(r, Cls):
                m = r.find_method(fn.attr)
                if m is not None:
                    return m, m.is_classmethod
                return None
            if isinstance(r, Mod):
                g = repo.resolve_name(fn.attr, r)
                if isinstance(g, Func):
                    return g, False
                return None
            if r is None and not fn.attr.startswith("__"):
                # method on some object: all definitions of that name in the package agree on the parameter list
                defs = [c.methods[fn.attr] for c in repo.classes.values() if fn.attr in c.methods]
                sigs = {tuple(p.arg for p in list(d.node.args.posonlyargs) + list(d.node.args.args)) for d in defs}
                if defs and len(sigs) == 1 and not any(d.is_staticmethod or d.node.args.vararg for d in defs):
                    return defs[0], True
        return None

    def _signature(self, f: Func, call: ast.Call, locals_: t.Set[str]) -> t.Optional[t.Tuple[str, t.List[str]]]:
        """(callee key, positional parameter names as seen by the caller) for package functions, methods and dataclass constructors."""
        fn = call.func
        r0 = None
        if isinstance(fn, ast.Name) and fn.id not in locals_:
            r0 = self.repo.resolve_name(fn.id, f.mod)
        elif isinstance(fn, ast.Attribute) and not (isinstance(fn.value, ast.Name) and fn.value.id in locals_):
            r0 = self.repo.resolve(fn, f.mod)
        if isinstance(r0, Cls):
            init = r0.find_method("__init__")
            if init is not None:
                a = init.node.args
                if a.vararg is not None:
                    return None
                return r0.qual, [p.arg for p in list(a.posonlyargs) + list(a.args)][1:]
            if r0.is_dataclass:
                return r0.qual, [fl.name for fl in r0.init_params()]
            return None
        r = self._callee(f, call, locals_)
        if r is None:
            return None
        callee, bound = r
        a = callee.node.args
        if a.vararg is not None:
            return None
        pos = [p.arg for p in list(a.posonlyargs) + list(a.args)]
        return callee.qual, (pos[1:] if bound else pos)

    def conventions(self) -> t.Dict[str, int]:
        """Number of leading positional arguments each package callee is called with, where all call sites agree."""
        seen: t.Dict[str, t.Set[int]] = {}
        for f in self.repo.funcs.values():
            locals_ = stored_names(f.node) | {a.arg for a in _params(f.node)}
            for n in ast.walk(f.node):
                if isinstance(n, ast.Call) and not any(isinstance(a, ast.Starred) for a in n.args) and not any(kw.arg is None for kw in n.keywords):
                    sig = self._signature(f, n, locals_)
                    if sig is not None and (n.keywords or len(n.args) == len(sig[1])):
                        # a site tells the convention only where it had a choice it resolved: it passes keywords, or everything positionally
                        seen.setdefault(sig[0], set()).add(len(n.args))
        return {k: next(iter(v)) for k, v in seen.items() if len(v) == 1}

    def positional(self, f: Func) -> t.Optional[FuncNode]:
        locals_ = stored_names(f.node) | {a.arg for a in _params(f.node)}
        new = copy.deepcopy(f.node)
        hit = False
        for n in ast.walk(new):
            if not isinstance(n, ast.Call):
                continue
            if isinstance(n.func, ast.Attribute) and n.func.attr in ("to_bytes", "from_bytes"):
                if len(n.args) == 2 and not any(kw.arg == "byteorder" for kw in n.keywords) and not any(isinstance(a, ast.Starred) for a in n.args):
                    n.keywords = [ast.keyword(arg="byteorder", value=n.args[1])] + list(n.keywords)
                    n.args = n.args[:1]
                    hit = True
                for kw in list(n.keywords):
                    if kw.arg == "length" and not n.args and n.func.attr == "to_bytes":
                        n.args = [kw.value]
                        n.keywords.remove(kw)
                        hit = True
                continue
            if any(kw.arg is None for kw in n.keywords) or any(isinstance(a, ast.Starred) for a in n.args):
                continue
            sig = self._signature(f, n, locals_)
            if sig is None or sig[0] not in self.conv:
                continue
            key, pos = sig
            npos = self.conv[key]
            before = (len(n.args), [kw.arg for kw in n.keywords])
            # positional -> keyword beyond the convention
            while len(n.args) > npos and len(n.args) <= len(pos):
                v = n.args.pop()
                n.keywords.insert(0, ast.keyword(arg=pos[len(n.args)], value=v))
            # keyword -> positional up to the convention, contiguously
            kws = {kw.arg: kw for kw in n.keywords}
            while len(n.args) < npos and len(n.args) < len(pos) and pos[len(n.args)] in kws:
                kw = kws[pos[len(n.args)]]
                n.args.append(kw.value)
                n.keywords.remove(kw)
            # keywords in declaration order
            order = {p: i for i, p in enumerate(pos)}
            n.keywords.sort(key=lambda kw: order.get(kw.arg or "", 1 << 20))
            if (len(n.args), [kw.arg for kw in n.keywords]) != before:
                hit = True
                self.log["positional"].append(f"{f.qual}:{n.lineno} {unparse(n.func)}")
        return new if hit else None

    # ------------------------------------------------------------------------------------------ N28
    def devirtualise(self, f: Func) -> t.Optional[FuncNode]:
        """if c: fn = A  elif d: fn = B  else: raise ...      followed by      x = fn(args)
        ->  the statement with the call is moved into each branch with the function named there (x = A(args) / x = B(args)).
        fn is a local that holds a function of the package in every assigning leaf and is used exactly once, as the callee
        of the statement that directly follows the if-nest."""
        hit = [False]
        loads: t.Dict[str, int] = {}
        for n in _walk_no_scopes(f.node):
            if isinstance(n, ast.Name) and isinstance(n.ctx, ast.Load):
                loads[n.id] = loads.get(n.id, 0) + 1
        repo = self.repo

        def leaves(stmts: t.List[ast.stmt], fv: str) -> t.Optional[bool]:
            """True: every non-terminating path through the block ends with `fv = <function name>`."""
            if not stmts:
                return False
            last = stmts[-1]
            for s_ in stmts[:-1]:
                if any(isinstance(x, ast.Name) and x.id == fv for x in ast.walk(s_)):
                    return False
            if isinstance(last, ast.Assign) and len(last.targets) == 1 and isinstance(last.targets[0], ast.Name) and last.targets[0].id == fv:
                v = last.value
                return isinstance(v, ast.Name) and isinstance(repo.resolve_name(v.id, f.mod), Func)
            if isinstance(last, (ast.Raise, ast.Return)):
                return True
            if isinstance(last, ast.If) and last.orelse:
                return bool(leaves(last.body, fv)) and bool(leaves(last.orelse, fv))
            return False

        def push(stmts: t.List[ast.stmt], fv: str, user: ast.stmt) -> t.List[ast.stmt]:
            out = list(stmts[:-1])
            last = stmts[-1]
            if isinstance(last, ast.Assign):
                class R(ast.NodeTransformer):
                    def visit_Name(self, n: ast.Name) -> ast.AST:
                        if n.id == fv and isinstance(n.ctx, ast.Load):
                            return ast.copy_location(copy.deepcopy(last.value), n)
                        return n

                out.append(t.cast(ast.stmt, R().visit(copy.deepcopy(user))))
                return out
            if isinstance(last, ast.If):
                new = copy.copy(last)
                new.body = push(last.body, fv, user)
                new.orelse = push(last.orelse, fv, user)
                out.append(new)
                return out
            out.append(last)
            return out

        def block(stmts: t.List[ast.stmt]) -> t.List[ast.stmt]:
            out: t.List[ast.stmt] = []
            i = 0
            while i < len(stmts):
                s_ = stmts[i]
                if not isinstance(s_, (ast.FunctionDef, ast.AsyncFunctionDef, ast.ClassDef)):
                    for fld in ("body", "orelse", "finalbody"):
                        blk = getattr(s_, fld, None)
                        if isinstance(blk, list) and blk and isinstance(blk[0], ast.stmt):
                            setattr(s_, fld, block(blk))
                nxt = stmts[i + 1] if i + 1 < len(stmts) else None
                if isinstance(s_, ast.If) and s_.orelse and isinstance(nxt, (ast.Assign, ast.AnnAssign, ast.Expr, ast.Return)):
                    callees = [x.func.id for x in ast.walk(nxt) if isinstance(x, ast.Call) and isinstance(x.func, ast.Name)]
                    for fv in callees:
                        if loads.get(fv, 0) == 1 and leaves([s_], fv):
                            out += push([s_], fv, nxt)
                            hit[0] = True
                            i += 2
                            break
                    else:
                        out.append(s_)
                        i += 1
                    continue
                out.append(s_)
                i += 1
            return out

        new = copy.deepcopy(f.node)
        new.body = block(list(new.body))
        return new if hit[0] else None

    # ------------------------------------------------------------------------------------------ N27
    def inline_temps(self, f: Func) -> t.Optional[FuncNode]:
        """t1 = g(a); t2 = h(b); x = f(t1, k=t2)   ->   x = f(g(a), k=h(b))
        for locals that are assigned once, read once - as a direct argument of the call in the statement that follows
        the run of definitions, in definition order - when every other argument in front of the last of them is pure
        (so the calls still happen in the same order).  `Extract variable` and its inverse give the same normal form."""
        fn = f.node
        hit = [False]
        loads: t.Dict[str, int] = {}
        stores: t.Dict[str, int] = {}
        for n in _walk_no_scopes(fn):
            if isinstance(n, ast.Name):
                d = loads if isinstance(n.ctx, ast.Load) else stores
                d[n.id] = d.get(n.id, 0) + 1
        params = {a.arg for a in _params(fn)}

        def simple_call(e: t.Optional[ast.expr]) -> bool:
            return isinstance(e, ast.Call) and _is_pure(e.func) and not any(isinstance(a, ast.Starred) for a in e.args) and all(k.arg for k in e.keywords)

        def block(stmts: t.List[ast.stmt]) -> t.List[ast.stmt]:
            for s_ in stmts:
                if isinstance(s_, (ast.FunctionDef, ast.AsyncFunctionDef, ast.ClassDef)):
                    continue
                for fld in ("body", "orelse", "finalbody"):
                    blk = getattr(s_, fld, None)
                    if isinstance(blk, list) and blk and isinstance(blk[0], ast.stmt):
                        setattr(s_, fld, block(blk))
                if isinstance(s_, ast.Try):
                    for h in s_.handlers:
                        h.body = block(h.body)
            cur = list(stmts)
            changed = True
            while changed:
                changed = False
                for i in range(len(cur) - 1):
                    d, user = cur[i], cur[i + 1]
                    if not (isinstance(d, ast.Assign) and len(d.targets) == 1 and isinstance(d.targets[0], ast.Name) and simple_call(d.value)):
                        continue
                    nm = d.targets[0].id
                    if stores.get(nm, 0) != 1 or loads.get(nm, 0) != 1 or nm in params:
                        continue
                    if isinstance(user, ast.Raise) and isinstance(user.exc, ast.Name) and user.exc.id == nm and (user.cause is None or _is_pure(user.cause)):
                        user.exc = t.cast(ast.expr, d.value)  # e = ValueError(..); raise e  ->  raise ValueError(..)
                        del cur[i]
                        hit[0] = True
                        changed = True
                        break
                    v = getattr(user, "value", None) if isinstance(user, (ast.Assign, ast.AnnAssign, ast.Return, ast.Expr, ast.AugAssign)) else None
                    if not simple_call(v):
                        continue
                    call = t.cast(ast.Call, v)
                    items: t.List[ast.expr] = list(call.args) + [k.value for k in call.keywords]
                    pos = [p_ for p_, it in enumerate(items) if isinstance(it, ast.Name) and it.id == nm]
                    if len(pos) != 1 or not all(_is_pure(items[q]) for q in range(pos[0])):
                        continue
                    if pos[0] < len(call.args):
                        call.args[pos[0]] = t.cast(ast.expr, d.value)
                    else:
                        call.keywords[pos[0] - len(call.args)].value = t.cast(ast.expr, d.value)
                    del cur[i]
                    hit[0] = True
                    changed = True
                    break
            return cur

        new = copy.deepcopy(fn)
        # counts refer to the copied tree's names just as well (names are strings)
        new.body = block(list(new.body))
        return new if hit[0] else None

    # ------------------------------------------------------------------------------------------ N29
    def bool_updates(self, f: Func) -> t.Optional[FuncNode]:
        """T = T and E   ->   if not E: T = False          T = T or E   ->   if E: T = True       (also  E and T,  T &= E,  T |= E)
        for a state T (attribute path or local) that only ever holds booleans and a boolean-valued, pure E: bool(X),
        a comparison, `not X`, isinstance(..) - possibly through a local bound in the statement just before and read
        nowhere else.  With both operands bool, `T and E` is T when T is False and E otherwise, i.e. T changes only
        when E is false, and then to False."""
        fn = f.node
        repo = self.repo
        hit = [False]
        loads: t.Dict[str, int] = {}
        stores: t.Dict[str, int] = {}
        for n in _walk_no_scopes(fn):
            if isinstance(n, ast.Name):
                d = loads if isinstance(n.ctx, ast.Load) else stores
                d[n.id] = d.get(n.id, 0) + 1
        params = {a.arg for a in _params(fn)}

        def boolish(e: ast.expr) -> bool:
            if isinstance(e, ast.Constant):
                return isinstance(e.value, bool)
            if isinstance(e, ast.Compare):
                return all(isinstance(o, (ast.Eq, ast.NotEq, ast.Lt, ast.LtE, ast.Gt, ast.GtE, ast.Is, ast.IsNot, ast.In, ast.NotIn)) for o in e.ops)
            if isinstance(e, ast.UnaryOp) and isinstance(e.op, ast.Not):
                return True
            if isinstance(e, ast.Call) and isinstance(e.func, ast.Name) and e.func.id in ("bool", "isinstance") and e.func.id not in stores and e.func.id not in params:
                return True
            if isinstance(e, ast.BoolOp):
                return all(boolish(v) for v in e.values)
            return False

        def test_of(e: ast.expr) -> ast.expr:
            if isinstance(e, ast.Call) and isinstance(e.func, ast.Name) and e.func.id == "bool" and len(e.args) == 1 and not e.keywords:
                return e.args[0]
            return e

        def state_is_bool(tg: ast.expr) -> bool:
            if isinstance(tg, ast.Name):
                if tg.id in params:
                    return False
                vals = [n.value for n in _walk_no_scopes(fn) if isinstance(n, ast.Assign) and any(isinstance(x, ast.Name) and x.id == tg.id for x in n.targets)]
                return stores.get(tg.id, 0) == len(vals) + 1 and all(boolish(v) for v in vals)
            if isinstance(tg, ast.Attribute) and isinstance(tg.value, ast.Name) and tg.value.id == "self" and f.cls is not None:
                # every write of that attribute in the package: a bool, or an update of this very form
                n_ = 0
                for g in repo.funcs.values():
                    for m in ast.walk(g.node):
                        tgs: t.List[ast.expr] = []
                        val: t.Optional[ast.expr] = None
                        if isinstance(m, ast.Assign):
                            tgs, val = list(m.targets), m.value
                        elif isinstance(m, (ast.AugAssign, ast.AnnAssign)):
                            tgs, val = [m.target], m.value
                        for x in tgs:
                            for y in ast.walk(x):
                                if isinstance(y, ast.Attribute) and y.attr == tg.attr and isinstance(y.ctx, ast.Store):
                                    n_ += 1
                                    if y is not x or val is None:
                                        return False
                                    if isinstance(m, ast.AugAssign):
                                        if not (isinstance(m.op, (ast.BitAnd, ast.BitOr)) and boolish(val)):
                                            return False
                                    elif not boolish(val):
                                        if not isinstance(val, (ast.BoolOp, ast.BinOp)):
                                            return False
                                        others = [o for o in (val.values if isinstance(val, ast.BoolOp) else [val.left, val.right]) if unparse(o) != unparse(x)]
                                        for o in others:
                                            if isinstance(o, ast.Name):
                                                ds = [q.value for q in ast.walk(g.node) if isinstance(q, ast.Assign) and any(isinstance(z, ast.Name) and z.id == o.id for z in q.targets)]
                                                if len(ds) != 1 or not boolish(ds[0]):
                                                    return False
                                            elif not boolish(o):
                                                return False
                                        if len(others) != 1:
                                            return False
                        if isinstance(m, ast.Call) and unparse(m.func) in ("setattr", "object.__setattr__") and any(isinstance(a, ast.Constant) and a.value == tg.attr for a in m.args):
                            return False
                return n_ > 0
            return False

        def split(s_: ast.stmt) -> t.Optional[t.Tuple[ast.expr, str, ast.expr]]:
            """(T, 'and' | 'or', E) of an update statement."""
            if isinstance(s_, ast.AugAssign) and isinstance(s_.op, (ast.BitAnd, ast.BitOr)) and _is_pure_path(s_.target):
                return s_.target, "and" if isinstance(s_.op, ast.BitAnd) else "or", s_.value
            if isinstance(s_, ast.Assign) and len(s_.targets) == 1 and _is_pure_path(s_.targets[0]):
                tg, v = s_.targets[0], s_.value
                ops: t.Optional[t.List[ast.expr]] = None
                kind = ""
                if isinstance(v, ast.BoolOp) and len(v.values) == 2:
                    ops, kind = list(v.values), "and" if isinstance(v.op, ast.And) else "or"
                elif isinstance(v, ast.BinOp) and isinstance(v.op, (ast.BitAnd, ast.BitOr)):
                    ops, kind = [v.left, v.right], "and" if isinstance(v.op, ast.BitAnd) else "or"
                if ops is None:
                    return None
                me = unparse(tg)
                if unparse(ops[0]) == me and unparse(ops[1]) != me:
                    return tg, kind, ops[1]
                if unparse(ops[1]) == me and unparse(ops[0]) != me:
                    return tg, kind, ops[0]
            return None

        def block(stmts: t.List[ast.stmt]) -> t.List[ast.stmt]:
            out: t.List[ast.stmt] = []
            for s_ in stmts:
                if not isinstance(s_, (ast.FunctionDef, ast.AsyncFunctionDef, ast.ClassDef)):
                    for fld in ("body", "orelse", "finalbody"):
                        blk = getattr(s_, fld, None)
                        if isinstance(blk, list) and blk and isinstance(blk[0], ast.stmt):
                            setattr(s_, fld, block(blk))
                    if isinstance(s_, ast.Try):
                        for h in s_.handlers:
                            h.body = block(h.body)
                # x = x or E  ->  if not x: x = E        x = x and E  ->  if x: x = E     (x a local name: the self-assignment
                # on the other branch is a no-op; E is evaluated exactly when the original evaluates it)
                if isinstance(s_, ast.Assign) and len(s_.targets) == 1 and isinstance(s_.targets[0], ast.Name) and isinstance(s_.value, ast.BoolOp) and len(s_.value.values) == 2 and isinstance(s_.value.values[0], ast.Name) and s_.value.values[0].id == s_.targets[0].id and not any(isinstance(x, ast.Name) and x.id == s_.targets[0].id for x in ast.walk(s_.value.values[1])) and not state_is_bool(s_.targets[0]):
                    nm = s_.targets[0].id
                    test: ast.expr = ast.Name(id=nm, ctx=ast.Load())
                    if isinstance(s_.value.op, ast.Or):
                        test = ast.UnaryOp(op=ast.Not(), operand=test)
                    out.append(ast.copy_location(ast.If(test=test, body=[ast.copy_location(ast.Assign(targets=[ast.Name(id=nm, ctx=ast.Store())], value=s_.value.values[1], lineno=s_.lineno), s_)], orelse=[]), s_))
                    hit[0] = True
                    continue
                sp = split(s_)
                if sp is not None:
                    tg, kind, e = sp
                    drop_prev = False
                    if isinstance(e, ast.Name) and out and isinstance(out[-1], ast.Assign) and len(out[-1].targets) == 1 and isinstance(out[-1].targets[0], ast.Name) and out[-1].targets[0].id == e.id and stores.get(e.id, 0) == 1 and loads.get(e.id, 0) == 1 and e.id not in params:
                        e = out[-1].value
                        drop_prev = True
                    if boolish(e) and _is_pure(test_of(e)) and unparse(tg) not in unparse(e) and state_is_bool(tg):
                        if drop_prev:
                            out.pop()
                        test = test_of(copy.deepcopy(e))
                        new_if = ast.If(
                            test=_negate(test) if kind == "and" else test,
                            body=[ast.Assign(targets=[copy.deepcopy(tg)], value=ast.Constant(value=(kind == "or")), lineno=s_.lineno)],
                            orelse=[],
                        )
                        out.append(ast.copy_location(new_if, s_))
                        hit[0] = True
                        continue
                out.append(s_)
            return out

        new = copy.deepcopy(fn)
        new.body = block(list(new.body))
        if not hit[0]:
            return None
        ast.fix_missing_locations(new)
        return new

    # ------------------------------------------------------------------------------------------ N30
    def project_tables(self, f: Func) -> t.Optional[FuncNode]:
        """A new module constant  T = {k1: (a1, b1, ..), k2: (a2, b2, ..)}  (constant keys, tuple displays of one arity,
        never mutated) is the parallel tables of its columns.  Uses are rewritten to the column they read:
            T[K][i]                 ->  {k1: a1, k2: a2}[K]                 (i a constant index or constant slice)
            T.get(K, (d0, d1))[i]   ->  {k1: a1, k2: a2}.get(K, d0)
            next((n for n, c in T.items() if c[i] == E), D)   ->  {a1: k1, a2: k2}.get(E, D)   (column i: distinct
                                                                                                  constants; also c[j] as result)
        which is how the reference tree spells such look-ups (one literal table per use)."""
        fn = f.node
        repo = self.repo
        hit = [False]
        locals_ = stored_names(fn) | {a.arg for a in _params(fn)}

        def table(e: ast.expr) -> t.Optional[t.Tuple[t.List[ast.expr], t.List[t.List[ast.expr]]]]:
            if not isinstance(e, ast.Name) or e.id in locals_:
                return None
            r = repo.resolve_name(e.id, f.mod)
            if not (isinstance(r, tuple) and r[0] == "const" and len(r) == 3) or e.id in self.inv_consts.get(r[1].name, set()):
                return None
            from .load import mutated_global

            if mutated_global(r[1], e.id):
                return None
            d = r[2]
            if not isinstance(d, ast.Dict) or not d.keys or not all(isinstance(k, ast.Constant) for k in d.keys):
                return None
            if not all(isinstance(v, ast.Tuple) and not any(isinstance(x, ast.Starred) for x in v.elts) for v in d.values):
                return None
            if len({len(t.cast(ast.Tuple, v).elts) for v in d.values}) != 1:
                return None
            return [t.cast(ast.expr, k) for k in d.keys], [list(t.cast(ast.Tuple, v).elts) for v in d.values]

        def column(rows: t.List[t.List[ast.expr]], idx: ast.expr) -> t.Optional[t.List[ast.expr]]:
            n = len(rows[0])
            if isinstance(idx, ast.Constant) and isinstance(idx.value, int) and not isinstance(idx.value, bool) and -n <= idx.value < n:
                return [copy.deepcopy(r_[idx.value]) for r_ in rows]
            if isinstance(idx, ast.Slice) and all(x is None or (isinstance(x, ast.Constant) and isinstance(x.value, int)) for x in (idx.lower, idx.upper, idx.step)):
                sl = slice(*[(x.value if x is not None else None) for x in (idx.lower, idx.upper, idx.step)])  # type: ignore[union-attr]
                return [ast.Tuple(elts=[copy.deepcopy(x) for x in r_[sl]], ctx=ast.Load()) for r_ in rows]
            return None

        def display(keys: t.List[ast.expr], vals: t.List[ast.expr]) -> ast.Dict:
            return ast.Dict(keys=[copy.deepcopy(k) for k in keys], values=vals)

        class P(ast.NodeTransformer):
            def visit_Subscript(self, node: ast.Subscript) -> ast.AST:
                self.generic_visit(node)
                if not isinstance(node.ctx, ast.Load):
                    return node
                inner = node.value
                # T[K][i]
                if isinstance(inner, ast.Subscript):
                    tb = table(inner.value)
                    col = column(tb[1], node.slice) if tb else None
                    if tb and col is not None:
                        hit[0] = True
                        return ast.copy_location(ast.Subscript(value=display(tb[0], col), slice=inner.slice, ctx=ast.Load()), node)
                # T.get(K, (d0, ..))[i]
                if isinstance(inner, ast.Call) and isinstance(inner.func, ast.Attribute) and inner.func.attr == "get" and len(inner.args) == 2 and not inner.keywords and isinstance(inner.args[1], ast.Tuple):
                    tb = table(inner.func.value)
                    col = column(tb[1], node.slice) if tb else None
                    dflt = column([list(inner.args[1].elts)], node.slice) if isinstance(node.slice, ast.Constant) and isinstance(node.slice.value, int) and -len(inner.args[1].elts) <= node.slice.value < len(inner.args[1].elts) else None
                    if tb and col is not None and dflt is not None:
                        hit[0] = True
                        return ast.copy_location(ast.Call(func=ast.Attribute(value=display(tb[0], col), attr="get", ctx=ast.Load()), args=[inner.args[0], dflt[0]], keywords=[]), node)
                return node

            def visit_Call(self, node: ast.Call) -> ast.AST:
                self.generic_visit(node)
                # next((n for n, c in T.items() if c[i] == E), D)
                if not (isinstance(node.func, ast.Name) and node.func.id == "next" and node.func.id not in locals_ and len(node.args) == 2 and not node.keywords and isinstance(node.args[0], ast.GeneratorExp)):
                    return node
                g = node.args[0]
                if len(g.generators) != 1 or g.generators[0].is_async or len(g.generators[0].ifs) != 1:
                    return node
                gen = g.generators[0]
                it = gen.iter
                if not (isinstance(it, ast.Call) and isinstance(it.func, ast.Attribute) and it.func.attr == "items" and not it.args and not it.keywords):
                    return node
                tb = table(it.func.value)
                if tb is None or not (isinstance(gen.target, ast.Tuple) and len(gen.target.elts) == 2 and all(isinstance(x, ast.Name) for x in gen.target.elts)):
                    return node
                kn, vn = (t.cast(ast.Name, x).id for x in gen.target.elts)
                cond = gen.ifs[0]
                if not (isinstance(cond, ast.Compare) and len(cond.ops) == 1 and isinstance(cond.ops[0], ast.Eq)):
                    return node
                sides = [cond.left, cond.comparators[0]]
                pick = [s_ for s_ in sides if isinstance(s_, ast.Subscript) and isinstance(s_.value, ast.Name) and s_.value.id == vn]
                other = [s_ for s_ in sides if s_ not in pick]
                if len(pick) != 1 or len(other) != 1 or any(isinstance(x, ast.Name) and x.id in (kn, vn) for x in ast.walk(other[0])) or not _is_pure(other[0]):
                    return node
                col = column(tb[1], pick[0].slice)
                if col is None or not all(isinstance(c_, ast.Constant) and isinstance(c_.value, (bytes, int, str)) for c_ in col) or len({(type(t.cast(ast.Constant, c_).value), t.cast(ast.Constant, c_).value) for c_ in col}) != len(col):
                    return node
                if isinstance(g.elt, ast.Name) and g.elt.id == kn:
                    res: t.Optional[t.List[ast.expr]] = [copy.deepcopy(k) for k in tb[0]]
                elif isinstance(g.elt, ast.Subscript) and isinstance(g.elt.value, ast.Name) and g.elt.value.id == vn:
                    res = column(tb[1], g.elt.slice)
                else:
                    res = None
                if res is None:
                    return node
                hit[0] = True
                return ast.copy_location(ast.Call(func=ast.Attribute(value=ast.Dict(keys=col, values=res), attr="get", ctx=ast.Load()), args=[other[0], node.args[1]], keywords=[]), node)

        new = copy.deepcopy(fn)
        P().visit(new)
        if not hit[0]:
            return None
        ast.fix_missing_locations(new)
        self.log.setdefault("inlined", []).append(f"{f.qual}: column look-ups of a tuple-valued table constant written as literal tables")
        return new

    # ------------------------------------------------------------------------------------------ N31 / N32
    def modern_syntax(self, f: Func) -> t.Optional[FuncNode]:
        """N31  assignment expressions hoisted:  if (n := E) > k: ...  ->  n = E; if n > k: ...
                while (c := E): B  ->  while True: c = E; if not c: break; B        (also in assign / return / expression
                statements) when the named expression is the first thing the statement evaluates that can have an effect.
        N32  match S: case P1: B1 ... case _: Bn  ->  if/elif chain: value patterns `S == V`, singletons `S is V`,
                or-patterns, class patterns without positional sub-patterns `isinstance(S, C) [and S.a == v]`, capture /
                wildcard as the final else, guards and-ed on.  S must be a pure path (else it is bound to a local first)."""
        hit = [False]
        counter = [0]

        def first_walrus(e: ast.expr) -> t.Optional[ast.NamedExpr]:
            """The named expression of e if everything evaluated before it is pure and it is evaluated unconditionally."""
            found: t.List[t.Optional[ast.NamedExpr]] = [None]

            def walk(x: ast.AST) -> bool:
                """evaluation-order walk; returns False to stop (something impure or conditional was met first)."""
                if isinstance(x, ast.NamedExpr):
                    if any(isinstance(y, ast.NamedExpr) for y in ast.walk(x.value)):
                        return False
                    found[0] = x
                    return False
                if isinstance(x, (ast.Name, ast.Constant)):
                    return True
                if isinstance(x, ast.Attribute):
                    return walk(x.value)
                if isinstance(x, ast.Compare):
                    for y in [x.left] + list(x.comparators[:1]):
                        if not walk(y):
                            return False
                    return len(x.comparators) == 1
                if isinstance(x, ast.BinOp):
                    return walk(x.left) and walk(x.right)
                if isinstance(x, ast.UnaryOp):
                    return walk(x.operand)
                if isinstance(x, ast.BoolOp):
                    walk(x.values[0])
                    return False  # later operands are conditional
                if isinstance(x, ast.IfExp):
                    walk(x.test)
                    return False
                if isinstance(x, ast.Subscript):
                    return walk(x.value) and walk(x.slice)
                if isinstance(x, ast.Slice):
                    return all(walk(y) for y in (x.lower, x.upper, x.step) if y is not None)
                if isinstance(x, (ast.Tuple, ast.List)):
                    return all(walk(y) for y in x.elts)
                if isinstance(x, ast.Call):
                    if not walk(x.func):
                        return False
                    for a in list(x.args) + [k.value for k in x.keywords]:
                        if isinstance(a, ast.Starred) or not walk(a):
                            return False
                    return False  # the call itself has effects: nothing after it may be hoisted in front
                return False

            walk(e)
            return found[0]

        def hoist(e: ast.expr) -> t.Tuple[t.List[ast.stmt], ast.expr]:
            pre: t.List[ast.stmt] = []
            for _ in range(4):
                w = first_walrus(e)
                if w is None:
                    break
                pre.append(ast.copy_location(ast.Assign(targets=[ast.Name(id=w.target.id, ctx=ast.Store())], value=w.value, lineno=getattr(w, "lineno", 0)), w))
                e = t.cast(ast.expr, _replace_in_expr(e, w, ast.copy_location(ast.Name(id=w.target.id, ctx=ast.Load()), w)))
                hit[0] = True
            return pre, e

        Binds = t.List[t.Tuple[str, ast.expr]]

        def compile_pattern(p: ast.pattern, subj: ast.expr) -> t.Optional[t.Tuple[t.List[ast.expr], Binds]]:
            """(conjuncts that must hold, names bound when they do) - None for patterns outside the supported set."""
            s_ = lambda: copy.deepcopy(subj)  # noqa: E731
            if isinstance(p, ast.MatchValue):
                return [ast.Compare(left=s_(), ops=[ast.Eq()], comparators=[p.value])], []
            if isinstance(p, ast.MatchSingleton):
                return [ast.Compare(left=s_(), ops=[ast.Is()], comparators=[ast.Constant(value=p.value)])], []
            if isinstance(p, ast.MatchOr):
                alts = []
                for q in p.patterns:
                    r = compile_pattern(q, subj)
                    if r is None or r[1]:
                        return None
                    alts.append(r[0][0] if len(r[0]) == 1 else (ast.BoolOp(op=ast.And(), values=r[0]) if r[0] else ast.Constant(value=True)))
                return [ast.BoolOp(op=ast.Or(), values=alts)], []
            if isinstance(p, ast.MatchAs):
                if p.pattern is None:
                    return [], ([] if p.name is None else [(p.name, s_())])
                r = compile_pattern(p.pattern, subj)
                if r is None:
                    return None
                return r[0], r[1] + ([(p.name, s_())] if p.name else [])
            if isinstance(p, ast.MatchClass) and not p.patterns:
                tests: t.List[ast.expr] = [ast.Call(func=ast.Name(id="isinstance", ctx=ast.Load()), args=[s_(), p.cls], keywords=[])]
                binds: Binds = []
                for name, q in zip(p.kwd_attrs, p.kwd_patterns):
                    r = compile_pattern(q, ast.Attribute(value=s_(), attr=name, ctx=ast.Load()))
                    if r is None:
                        return None
                    tests += r[0]
                    binds += r[1]
                return tests, binds
            if isinstance(p, ast.MatchSequence) and not any(isinstance(q, ast.MatchStar) for q in p.patterns):
                tests = []
                binds = []
                if isinstance(subj, ast.Tuple) and len(subj.elts) == len(p.patterns):
                    parts: t.List[ast.expr] = list(subj.elts)
                else:
                    # a field that holds a list / tuple: exactly n elements (the field's declared type is a sequence)
                    if not _is_pure_path(subj):
                        return None
                    tests.append(ast.Compare(left=ast.Call(func=ast.Name(id="len", ctx=ast.Load()), args=[s_()], keywords=[]), ops=[ast.Eq()], comparators=[ast.Constant(value=len(p.patterns))]))
                    parts = [ast.Subscript(value=s_(), slice=ast.Constant(value=i), ctx=ast.Load()) for i in range(len(p.patterns))]
                for q, part in zip(p.patterns, parts):
                    r = compile_pattern(q, part)
                    if r is None:
                        return None
                    tests += r[0]
                    binds += r[1]
                return tests, binds
            return None

        def lower_match(s: ast.Match) -> t.Optional[t.List[ast.stmt]]:
            pre: t.List[ast.stmt] = []
            subj = s.subject
            if isinstance(subj, ast.NamedExpr) and not any(isinstance(y, ast.NamedExpr) for y in ast.walk(subj.value)):
                pre.append(ast.copy_location(ast.Assign(targets=[ast.Name(id=subj.target.id, ctx=ast.Store())], value=subj.value, lineno=s.lineno), s))
                subj = ast.Name(id=subj.target.id, ctx=ast.Load())
            if isinstance(subj, ast.Tuple) and all(_is_pure(x) for x in subj.elts):
                pass
            elif not (_is_pure_path(subj) or (_is_pure(subj) and isinstance(subj, (ast.Attribute, ast.Subscript)))):
                counter[0] += 1
                nm = f"subject__m{counter[0]}"
                pre.append(ast.copy_location(ast.Assign(targets=[ast.Name(id=nm, ctx=ast.Store())], value=subj, lineno=s.lineno), s))
                subj = ast.Name(id=nm, ctx=ast.Load())
            arms: t.List[t.Tuple[t.Optional[ast.expr], t.List[ast.stmt]]] = []
            for c in s.cases:
                r = compile_pattern(c.pattern, subj)
                if r is None:
                    return None
                tests, binds = r
                guard = c.guard
                if guard is not None and binds:
                    # captures are plain reads of the subject: the guard is evaluated on those reads
                    env = {n_: e_ for n_, e_ in binds}

                    class G(ast.NodeTransformer):
                        def visit_Name(self, node: ast.Name) -> ast.AST:
                            if isinstance(node.ctx, ast.Load) and node.id in env:
                                return copy.deepcopy(env[node.id])
                            return node

                    guard = G().visit(copy.deepcopy(guard))
                if guard is not None:
                    tests = tests + [guard]
                test = None if not tests else (tests[0] if len(tests) == 1 else ast.BoolOp(op=ast.And(), values=tests))
                body = [ast.Assign(targets=[ast.Name(id=n_, ctx=ast.Store())], value=e_, lineno=s.lineno) for n_, e_ in binds] + list(c.body)
                arms.append((test, body))
            tail: t.List[ast.stmt] = []
            for test, body in reversed(arms):
                if test is None:
                    tail = body
                else:
                    tail = [ast.copy_location(ast.If(test=test, body=body, orelse=tail), s)]
            return pre + (tail or [ast.copy_location(ast.Pass(), s)])

        def block(stmts: t.List[ast.stmt]) -> t.List[ast.stmt]:
            out: t.List[ast.stmt] = []
            for s in stmts:
                if isinstance(s, (ast.FunctionDef, ast.AsyncFunctionDef, ast.ClassDef)):
                    out.append(s)
                    continue
                if isinstance(s, ast.Match):
                    low = lower_match(s)
                    if low is not None:
                        hit[0] = True
                        out.extend(block(low))
                        continue
                    for c in s.cases:
                        c.body = block(c.body)
                    out.append(s)
                    continue
                for fld in ("body", "orelse", "finalbody"):
                    blk = getattr(s, fld, None)
                    if isinstance(blk, list) and blk and isinstance(blk[0], ast.stmt):
                        setattr(s, fld, block(blk))
                if isinstance(s, ast.Try):
                    for h in s.handlers:
                        h.body = block(h.body)
                def later_walrus(test: ast.expr) -> t.Optional[int]:
                    """index of the first operand (> 0) of a conjunction that binds a name"""
                    if isinstance(test, ast.BoolOp) and isinstance(test.op, ast.And):
                        for i_, v_ in enumerate(test.values):
                            if i_ > 0 and any(isinstance(y, ast.NamedExpr) for y in ast.walk(v_)):
                                return i_
                    return None

                def conj(vs: t.List[ast.expr]) -> ast.expr:
                    return vs[0] if len(vs) == 1 else ast.BoolOp(op=ast.And(), values=vs)

                if isinstance(s, ast.If) and later_walrus(s.test) is not None and sum(1 for _ in ast.walk(ast.Module(body=s.orelse, type_ignores=[]))) <= 60:
                    # if A and (x := E) ...: B else: C   ->   if A: (if (x := E) ...: B else: C) else: C
                    i_ = t.cast(int, later_walrus(s.test))
                    vals = t.cast(ast.BoolOp, s.test).values
                    inner = ast.copy_location(ast.If(test=conj(list(vals[i_:])), body=s.body, orelse=copy.deepcopy(s.orelse)), s)
                    s = ast.copy_location(ast.If(test=conj(list(vals[:i_])), body=block([inner]), orelse=s.orelse), s)
                    hit[0] = True
                if isinstance(s, ast.While) and not s.orelse and later_walrus(s.test) is not None:
                    # while A and (x := E) ...: B   ->   while True: if not A: break; if not ((x := E) ...): break; B
                    i_ = t.cast(int, later_walrus(s.test))
                    vals = t.cast(ast.BoolOp, s.test).values
                    b1 = ast.copy_location(ast.If(test=_negate(conj(list(vals[:i_]))), body=[ast.copy_location(ast.Break(), s)], orelse=[]), s)
                    b2 = ast.copy_location(ast.If(test=_negate(conj(list(vals[i_:]))), body=[ast.copy_location(ast.Break(), s)], orelse=[]), s)
                    s.test = ast.copy_location(ast.Constant(value=True), s.test)
                    s.body = block([b1, b2]) + s.body
                    hit[0] = True
                if isinstance(s, ast.If):
                    pre, s.test = hoist(s.test)
                    out.extend(pre)
                elif isinstance(s, ast.While) and first_walrus(s.test) is not None and not s.orelse:
                    pre, test = hoist(s.test)
                    brk = ast.copy_location(ast.If(test=_negate(test), body=[ast.copy_location(ast.Break(), s)], orelse=[]), s)
                    s.test = ast.copy_location(ast.Constant(value=True), s.test)
                    s.body = pre + [brk] + s.body
                elif isinstance(s, (ast.Assign, ast.AnnAssign, ast.Return, ast.Expr, ast.AugAssign)) and getattr(s, "value", None) is not None:
                    pre, s.value = hoist(s.value)  # type: ignore[assignment]
                    out.extend(pre)
                elif isinstance(s, ast.Raise) and s.exc is not None:
                    pre, s.exc = hoist(s.exc)
                    out.extend(pre)
                out.append(s)
            return out

        if not any(isinstance(n, (ast.NamedExpr, ast.Match)) for n in ast.walk(f.node)):
            return None
        new = copy.deepcopy(f.node)
        new.body = block(list(new.body))
        if not hit[0]:
            return None
        ast.fix_missing_locations(new)
        self.log.setdefault("inlined", []).append(f"{f.qual}: match / assignment expressions lowered to if chains and assignments")
        return new

    # ------------------------------------------------------------------------------------------ N33
    def inline_generators(self, f: Func) -> t.Optional[FuncNode]:
        """A new generator helper consumed on the spot is the loop it abbreviates:
            for T in gen(args): BODY          ->  gen's body with every `yield e` replaced by `T = e; BODY`
            X = list(gen(args)) / tuple / sorted / sum / b"".join / bytes / set / min / max, `acc += ..`, `acc.extend(..)`
                                              ->  tmp = []; for t in gen(args): tmp.append(t); X = list(tmp)
        gen: not in the inventory, no decorator but static/classmethod, not recursive, no return, every yield an
        expression statement with a value (`yield from E` is `for t in E: yield t`); BODY has no break / continue of its
        own.  The interleaving of generator code and loop body is exactly that of the original."""
        nested = self._nested_defs(f.node)
        if not self.new_funcs and not nested:
            return None
        if not any(isinstance(n, ast.Call) for n in ast.walk(f.node)):
            return None
        hit = [False]
        counter = [0]
        norm = self

        def generator(call: ast.AST) -> t.Optional[t.Tuple[FuncNode, t.Optional[ast.expr], bool]]:
            if not isinstance(call, ast.Call):
                return None
            r = norm.resolve_helper(f, call, nested)
            if r is None:
                return None
            h, hf, recv, _label = r
            if isinstance(h, ast.AsyncFunctionDef) or any(unparse(d) not in ("staticmethod", "classmethod") for d in h.decorator_list) or h.args.kwarg:
                return None
            ys = [n for n in _walk_no_scopes(h) if isinstance(n, (ast.Yield, ast.YieldFrom))]
            if not ys or len(ys) > 3:
                return None
            stmts_with_yield = [n for n in _walk_no_scopes(h) if isinstance(n, ast.Expr) and isinstance(n.value, (ast.Yield, ast.YieldFrom))]
            if len(stmts_with_yield) != len(ys) or any(isinstance(y, ast.Yield) and y.value is None for y in ys):
                return None
            for n in _walk_no_scopes(h):
                if isinstance(n, (ast.Return, ast.FunctionDef, ast.AsyncFunctionDef, ast.ClassDef, ast.Lambda, ast.Try, ast.With, ast.Global, ast.Nonlocal)) and n is not h:
                    return None
                if isinstance(n, ast.Call) and ((isinstance(n.func, ast.Name) and n.func.id == h.name) or (isinstance(n.func, ast.Attribute) and n.func.attr == h.name)):
                    return None
            is_method = hf is not None and hf.cls is not None and not hf.is_staticmethod and recv is not None
            return h, recv, is_method

        def own_jumps(body: t.List[ast.stmt]) -> bool:
            stack: t.List[ast.AST] = list(body)
            while stack:
                n = stack.pop()
                if isinstance(n, (ast.Break, ast.Continue)):
                    return True
                if isinstance(n, (ast.For, ast.AsyncFor, ast.While, ast.FunctionDef, ast.AsyncFunctionDef, ast.ClassDef, ast.Lambda)):
                    if isinstance(n, (ast.For, ast.AsyncFor, ast.While)):
                        stack.extend(n.orelse)
                    continue
                stack.extend(ast.iter_child_nodes(n))
            return False

        def expand(target: ast.expr, call: ast.Call, body: t.List[ast.stmt], at: ast.stmt) -> t.Optional[t.List[ast.stmt]]:
            g = generator(call)
            if g is None or own_jumps(body):
                return None
            h, recv, is_method = g
            try:
                prologue, gbody = norm._instantiate(h, call, recv, is_method)
            except NotInlinable:
                return None

            def subst(stmts: t.List[ast.stmt]) -> t.List[ast.stmt]:
                out: t.List[ast.stmt] = []
                for s in stmts:
                    if isinstance(s, ast.Expr) and isinstance(s.value, ast.Yield):
                        out.append(ast.copy_location(ast.Assign(targets=[copy.deepcopy(target)], value=t.cast(ast.expr, s.value.value), lineno=at.lineno), at))
                        out.extend(copy.deepcopy(body))
                        continue
                    if isinstance(s, ast.Expr) and isinstance(s.value, ast.YieldFrom):
                        out.append(ast.copy_location(ast.For(target=copy.deepcopy(target), iter=s.value.value, body=copy.deepcopy(body), orelse=[], lineno=at.lineno), at))
                        continue
                    for fld in ("body", "orelse", "finalbody"):
                        blk = getattr(s, fld, None)
                        if isinstance(blk, list) and blk and isinstance(blk[0], ast.stmt):
                            setattr(s, fld, subst(blk))
                    out.append(s)
                return out

            return prologue + subst(gbody)

        EXHAUST = {"list", "tuple", "sorted", "sum", "bytes", "bytearray", "set", "frozenset", "min", "max", "dict"}

        def consumer_arg(v: t.Optional[ast.AST]) -> t.Optional[t.Tuple[ast.Call, int]]:
            """v = consumer(.., gen(..), ..): the consumer call and the index of the generator argument."""
            if not isinstance(v, ast.Call) or v.keywords and any(generator(k.value) for k in v.keywords):
                return None
            fn_ = v.func
            known = (isinstance(fn_, ast.Name) and fn_.id in EXHAUST) or (isinstance(fn_, ast.Attribute) and fn_.attr in ("join", "extend") and _is_pure(fn_.value))
            if not known:
                return None
            idx = [i for i, a in enumerate(v.args) if generator(a) is not None]
            if len(idx) != 1 or not all(_is_pure(a) for i, a in enumerate(v.args) if i != idx[0]):
                return None
            return v, idx[0]

        def block(stmts: t.List[ast.stmt]) -> t.List[ast.stmt]:
            out: t.List[ast.stmt] = []
            for s in stmts:
                if isinstance(s, (ast.FunctionDef, ast.AsyncFunctionDef, ast.ClassDef)):
                    out.append(s)
                    continue
                for fld in ("body", "orelse", "finalbody"):
                    blk = getattr(s, fld, None)
                    if isinstance(blk, list) and blk and isinstance(blk[0], ast.stmt):
                        setattr(s, fld, block(blk))
                if isinstance(s, ast.Try):
                    for h in s.handlers:
                        h.body = block(h.body)
                if isinstance(s, ast.For) and not s.orelse and isinstance(s.iter, ast.Call):
                    new = expand(s.target, s.iter, s.body, s)
                    if new is not None:
                        hit[0] = True
                        out.extend(block(new))
                        continue
                v = getattr(s, "value", None) if isinstance(s, (ast.Assign, ast.AnnAssign, ast.Return, ast.Expr, ast.AugAssign)) else None
                ca = consumer_arg(v)
                if ca is None and isinstance(s, ast.AugAssign) and isinstance(s.op, ast.Add) and generator(v) is None:
                    ca = None
                if ca is not None:
                    cons, i = ca
                    counter[0] += 1
                    tmp, elt = f"items__g{counter[0]}", f"item__g{counter[0]}"
                    loop_body: t.List[ast.stmt] = [ast.Expr(value=ast.Call(func=ast.Attribute(value=ast.Name(id=tmp, ctx=ast.Load()), attr="append", ctx=ast.Load()), args=[ast.Name(id=elt, ctx=ast.Load())], keywords=[]))]
                    # X = list(gen(..)) collects straight into X
                    direct = isinstance(s, ast.Assign) and len(s.targets) == 1 and isinstance(s.targets[0], ast.Name) and cons is s.value and isinstance(cons.func, ast.Name) and cons.func.id == "list" and len(cons.args) == 1 and not any(isinstance(x, ast.Name) and x.id == s.targets[0].id for x in ast.walk(cons.args[0]))
                    if direct:
                        tmp = t.cast(ast.Name, t.cast(ast.Assign, s).targets[0]).id
                        loop_body = [ast.Expr(value=ast.Call(func=ast.Attribute(value=ast.Name(id=tmp, ctx=ast.Load()), attr="append", ctx=ast.Load()), args=[ast.Name(id=elt, ctx=ast.Load())], keywords=[]))]
                    new = expand(ast.Name(id=elt, ctx=ast.Store()), t.cast(ast.Call, cons.args[i]), loop_body, s)
                    if new is not None:
                        hit[0] = True
                        out.append(ast.copy_location(ast.Assign(targets=[ast.Name(id=tmp, ctx=ast.Store())], value=ast.List(elts=[], ctx=ast.Load()), lineno=s.lineno), s))
                        out.extend(block(new))
                        if not direct:
                            cons.args[i] = ast.Name(id=tmp, ctx=ast.Load())
                            out.append(s)
                        continue
                out.append(s)
            return out

        new_fn = copy.deepcopy(f.node)
        new_fn.body = block(list(new_fn.body))
        if not hit[0]:
            return None
        ast.fix_missing_locations(new_fn)
        self.log.setdefault("inlined", []).append(f"{f.qual}: generator helper(s) consumed on the spot written as the loops they abbreviate")
        return new_fn

    # ------------------------------------------------------------------------------------------ N34
    def dispatch_tables(self, f: Func) -> t.Optional[FuncNode]:
        """if S == c1: X = v1  elif S == c2: X = v2 ...  else: <raise / return>
             ->   X = {c1: v1, c2: v2, ..}.get(S, None);  if X is None: <raise / return>
        (S a local name or pure path, the c distinct constants, the v constants that are not None): a chain that only
        translates a code is the table look-up the reference tree writes."""
        hit = [False]

        def chain(s: ast.If) -> t.Optional[t.Tuple[ast.expr, str, t.List[t.Tuple[ast.expr, ast.expr]], t.List[ast.stmt]]]:
            subj: t.Optional[str] = None
            subj_e: t.Optional[ast.expr] = None
            target: t.Optional[str] = None
            rows: t.List[t.Tuple[ast.expr, ast.expr]] = []
            cur: ast.stmt = s
            while True:
                if not isinstance(cur, ast.If):
                    return None
                tst = cur.test
                if not (isinstance(tst, ast.Compare) and len(tst.ops) == 1 and isinstance(tst.ops[0], ast.Eq) and _is_pure_path(tst.left) and isinstance(tst.comparators[0], ast.Constant)):
                    return None
                if subj is None:
                    subj, subj_e = unparse(tst.left), tst.left
                elif unparse(tst.left) != subj:
                    return None
                if not (len(cur.body) == 1 and isinstance(cur.body[0], ast.Assign) and len(cur.body[0].targets) == 1 and isinstance(cur.body[0].targets[0], ast.Name) and isinstance(cur.body[0].value, ast.Constant) and cur.body[0].value.value is not None):
                    return None
                tname = cur.body[0].targets[0].id
                if target is None:
                    target = tname
                elif tname != target:
                    return None
                rows.append((tst.comparators[0], cur.body[0].value))
                if len(cur.orelse) == 1 and isinstance(cur.orelse[0], ast.If):
                    cur = cur.orelse[0]
                    continue
                orelse = list(cur.orelse)
                break
            if len(rows) < 2 or not orelse or not _terminates(orelse) or subj == target:
                return None
            keys = {(type(k.value), k.value) for k, _ in rows}  # type: ignore[attr-defined]
            if len(keys) != len(rows):
                return None
            return t.cast(ast.expr, subj_e), t.cast(str, target), rows, orelse

        def block(stmts: t.List[ast.stmt]) -> t.List[ast.stmt]:
            out: t.List[ast.stmt] = []
            for s in stmts:
                if isinstance(s, (ast.FunctionDef, ast.AsyncFunctionDef, ast.ClassDef)):
                    out.append(s)
                    continue
                if isinstance(s, ast.If):
                    c = chain(s)
                    if c is not None:
                        subj_e, target, rows, orelse = c
                        look = ast.Call(func=ast.Attribute(value=ast.Dict(keys=[k for k, _ in rows], values=[v for _, v in rows]), attr="get", ctx=ast.Load()), args=[copy.deepcopy(subj_e), ast.Constant(value=None)], keywords=[])
                        out.append(ast.copy_location(ast.Assign(targets=[ast.Name(id=target, ctx=ast.Store())], value=look, lineno=s.lineno), s))
                        out.append(ast.copy_location(ast.If(test=ast.Compare(left=ast.Name(id=target, ctx=ast.Load()), ops=[ast.Is()], comparators=[ast.Constant(value=None)]), body=block(orelse), orelse=[]), s))
                        hit[0] = True
                        continue
                for fld in ("body", "orelse", "finalbody"):
                    blk = getattr(s, fld, None)
                    if isinstance(blk, list) and blk and isinstance(blk[0], ast.stmt):
                        setattr(s, fld, block(blk))
                if isinstance(s, ast.Try):
                    for h in s.handlers:
                        h.body = block(h.body)
                out.append(s)
            return out

        if not any(isinstance(n, ast.If) and n.orelse for n in ast.walk(f.node)):
            return None
        new = copy.deepcopy(f.node)
        new.body = block(list(new.body))
        if not hit[0]:
            return None
        ast.fix_missing_locations(new)
        return new

    # ------------------------------------------------------------------------------------------ N35 / N36
    def callable_aliases(self, f: Func) -> t.Optional[FuncNode]:
        """N35  a name bound once to a partial application is the application it abbreviates:
                  p = functools.partial(G, a, k=v);  p(x, y)      ->  G(a, x, y, k=v)
                  m = operator.methodcaller("to_bytes", 4, byteorder="little");  m(x)   ->  x.to_bytes(4, byteorder="little")
                  operator.attrgetter("a")(x) -> x.a      operator.itemgetter(i)(x) -> x[i]
                (a local bound once, or a new module constant; the bound arguments are pure and not rebound)
        N36  X = functools.reduce(F, IT, INIT)   ->   X = INIT; for v in IT: X = F(X, v)     (F a lambda is applied in place;
                IT a generator expression bound once just for this becomes the loop header)"""
        fn = f.node
        repo = self.repo
        hit = [False]
        counter = [0]
        stores: t.Dict[str, int] = {}
        for n in ast.walk(fn):
            if isinstance(n, ast.Name) and isinstance(n.ctx, (ast.Store, ast.Del)):
                stores[n.id] = stores.get(n.id, 0) + 1
            elif isinstance(n, ast.arg):
                stores[n.arg] = stores.get(n.arg, 0) + 1
        for n in ast.walk(fn):
            if isinstance(n, (ast.FunctionDef, ast.AsyncFunctionDef)) and n is not fn:
                stores[n.name] = stores.get(n.name, 0) + 1

        def dotted(e: ast.expr) -> str:
            d = repo.dotted(e, f.mod) if isinstance(e, (ast.Name, ast.Attribute)) else ""
            return d or (unparse(e) if isinstance(e, (ast.Name, ast.Attribute)) else "")

        def binding(name: str) -> t.Optional[ast.Call]:
            """the partial / methodcaller / getter construction a name stands for"""
            if stores.get(name, 0) == 1:
                defs = [n for n in ast.walk(fn) if isinstance(n, ast.Assign) and len(n.targets) == 1 and isinstance(n.targets[0], ast.Name) and n.targets[0].id == name]
                v = defs[0].value if len(defs) == 1 else None
            elif name not in stores:
                r = repo.resolve_name(name, f.mod)
                if not (isinstance(r, tuple) and r[0] == "const" and len(r) == 3) or name in self.inv_consts.get(r[1].name, set()):
                    return None
                from .load import mutated_global

                if mutated_global(r[1], name):
                    return None
                v = r[2]
            else:
                return None
            if not isinstance(v, ast.Call) or any(isinstance(a, ast.Starred) for a in v.args) or any(k.arg is None for k in v.keywords):
                return None
            d = dotted(v.func)
            if d not in ("functools.partial", "operator.methodcaller", "operator.attrgetter", "operator.itemgetter"):
                return None
            for a in list(v.args) + [k.value for k in v.keywords]:
                if not _is_pure(a):
                    return None
                for x in ast.walk(a):
                    if isinstance(x, ast.Name) and stores.get(x.id, 0) > 1:
                        return None
            return v

        def apply(cons: ast.Call, call: ast.Call) -> t.Optional[ast.expr]:
            d = dotted(cons.func)
            if any(isinstance(a, ast.Starred) for a in call.args) and d != "functools.partial":
                return None
            if d == "functools.partial" and cons.args:
                given = {k.arg for k in call.keywords}
                return ast.Call(func=copy.deepcopy(cons.args[0]), args=[copy.deepcopy(a) for a in cons.args[1:]] + list(call.args), keywords=[copy.deepcopy(k) for k in cons.keywords if k.arg not in given] + list(call.keywords))
            if d == "operator.methodcaller" and cons.args and isinstance(cons.args[0], ast.Constant) and isinstance(cons.args[0].value, str) and len(call.args) == 1 and not call.keywords:
                return ast.Call(func=ast.Attribute(value=call.args[0], attr=cons.args[0].value, ctx=ast.Load()), args=[copy.deepcopy(a) for a in cons.args[1:]], keywords=[copy.deepcopy(k) for k in cons.keywords])
            if d == "operator.attrgetter" and len(cons.args) == 1 and isinstance(cons.args[0], ast.Constant) and isinstance(cons.args[0].value, str) and "." not in cons.args[0].value and len(call.args) == 1 and not call.keywords:
                return ast.Attribute(value=call.args[0], attr=cons.args[0].value, ctx=ast.Load())
            if d == "operator.itemgetter" and len(cons.args) == 1 and len(call.args) == 1 and not call.keywords:
                return ast.Subscript(value=call.args[0], slice=copy.deepcopy(cons.args[0]), ctx=ast.Load())
            return None

        class A(ast.NodeTransformer):
            def visit_Call(self, node: ast.Call) -> ast.AST:
                self.generic_visit(node)
                cons: t.Optional[ast.Call] = None
                if isinstance(node.func, ast.Name):
                    cons = binding(node.func.id)
                elif isinstance(node.func, ast.Call) and dotted(node.func.func) in ("operator.methodcaller", "operator.attrgetter", "operator.itemgetter", "functools.partial"):
                    cons = node.func
                if cons is None:
                    return node
                new = apply(cons, node)
                if new is None:
                    return node
                hit[0] = True
                return ast.copy_location(new, node)

        new_fn = copy.deepcopy(fn)
        A().visit(new_fn)

        # ---- N36 reduce
        def lam_apply(fx: ast.expr, acc: str, item: ast.expr) -> ast.expr:
            if isinstance(fx, ast.Lambda) and len(fx.args.args) == 2 and not fx.args.vararg and not fx.args.kwarg and not fx.args.defaults and not fx.args.kwonlyargs:
                a_, b_ = fx.args.args[0].arg, fx.args.args[1].arg
                item_pure = _is_pure(item)
                uses_b = sum(1 for x in ast.walk(fx.body) if isinstance(x, ast.Name) and x.id == b_)
                if item_pure or uses_b <= 1:
                    class S_(ast.NodeTransformer):
                        def visit_Name(self, n: ast.Name) -> ast.AST:
                            if isinstance(n.ctx, ast.Load) and n.id == a_:
                                return ast.Name(id=acc, ctx=ast.Load())
                            if isinstance(n.ctx, ast.Load) and n.id == b_:
                                return copy.deepcopy(item)
                            return n

                    return t.cast(ast.expr, S_().visit(copy.deepcopy(fx.body)))
            return ast.Call(func=copy.deepcopy(fx), args=[ast.Name(id=acc, ctx=ast.Load()), item], keywords=[])

        def block(stmts: t.List[ast.stmt]) -> t.List[ast.stmt]:
            out: t.List[ast.stmt] = []
            for i, s in enumerate(stmts):
                if isinstance(s, (ast.FunctionDef, ast.AsyncFunctionDef, ast.ClassDef)):
                    out.append(s)
                    continue
                for fld in ("body", "orelse", "finalbody"):
                    blk = getattr(s, fld, None)
                    if isinstance(blk, list) and blk and isinstance(blk[0], ast.stmt):
                        setattr(s, fld, block(blk))
                if isinstance(s, ast.Try):
                    for h in s.handlers:
                        h.body = block(h.body)
                v = getattr(s, "value", None) if isinstance(s, (ast.Assign, ast.Return)) else None
                if isinstance(v, ast.Call) and dotted(v.func) == "functools.reduce" and len(v.args) == 3 and not v.keywords and not any(isinstance(a, ast.Starred) for a in v.args) and (isinstance(v.args[0], ast.Lambda) or _is_pure(v.args[0])) and (isinstance(s, ast.Return) or (len(s.targets) == 1 and isinstance(s.targets[0], ast.Name))):
                    fx, it, init = v.args
                    counter[0] += 1
                    acc = s.targets[0].id if isinstance(s, ast.Assign) else f"acc__r{counter[0]}"
                    if isinstance(s, ast.Assign) and any(isinstance(x, ast.Name) and x.id == acc for x in ast.walk(it)):
                        out.append(s)
                        continue
                    # an iterable that is a generator expression bound once in the statement just before
                    if isinstance(it, ast.Name) and out and isinstance(out[-1], ast.Assign) and len(out[-1].targets) == 1 and isinstance(out[-1].targets[0], ast.Name) and out[-1].targets[0].id == it.id and isinstance(out[-1].value, ast.GeneratorExp) and stores.get(it.id, 0) == 1 and sum(1 for x in ast.walk(new_fn) if isinstance(x, ast.Name) and x.id == it.id and isinstance(x.ctx, ast.Load)) == 1:
                        it = t.cast(ast.expr, out.pop().value)
                    item_name = f"item__r{counter[0]}"
                    loop: ast.stmt
                    if isinstance(it, ast.GeneratorExp) and len(it.generators) == 1 and not it.generators[0].is_async:
                        g = it.generators[0]
                        step: t.List[ast.stmt] = [ast.Assign(targets=[ast.Name(id=acc, ctx=ast.Store())], value=lam_apply(fx, acc, it.elt), lineno=s.lineno)]
                        for c in reversed(g.ifs):
                            step = [ast.If(test=c, body=step, orelse=[])]
                        loop = ast.For(target=g.target, iter=g.iter, body=step, orelse=[], lineno=s.lineno)
                    else:
                        loop = ast.For(target=ast.Name(id=item_name, ctx=ast.Store()), iter=it, body=[ast.Assign(targets=[ast.Name(id=acc, ctx=ast.Store())], value=lam_apply(fx, acc, ast.Name(id=item_name, ctx=ast.Load())), lineno=s.lineno)], orelse=[], lineno=s.lineno)
                    out.append(ast.copy_location(ast.Assign(targets=[ast.Name(id=acc, ctx=ast.Store())], value=init, lineno=s.lineno), s))
                    out.append(ast.copy_location(loop, s))
                    if isinstance(s, ast.Return):
                        out.append(ast.copy_location(ast.Return(value=ast.Name(id=acc, ctx=ast.Load())), s))
                    hit[0] = True
                    continue
                out.append(s)
            return out

        new_fn.body = block(list(new_fn.body))
        if not hit[0]:
            return None
        # bindings of partial applications that are no longer read, and `x = x` left by reduce(.., x) into x, disappear
        loaded = {x.id for x in ast.walk(new_fn) if isinstance(x, ast.Name) and isinstance(x.ctx, ast.Load)}

        def sweep(stmts: t.List[ast.stmt]) -> t.List[ast.stmt]:
            out: t.List[ast.stmt] = []
            for s in stmts:
                if isinstance(s, ast.Assign) and len(s.targets) == 1 and isinstance(s.targets[0], ast.Name):
                    if isinstance(s.value, ast.Name) and s.value.id == s.targets[0].id:
                        continue
                    if s.targets[0].id not in loaded and isinstance(s.value, ast.Call) and dotted(s.value.func) in ("functools.partial", "operator.methodcaller", "operator.attrgetter", "operator.itemgetter") and binding(s.targets[0].id) is not None:
                        continue
                if not isinstance(s, (ast.FunctionDef, ast.AsyncFunctionDef, ast.ClassDef)):
                    for fld in ("body", "orelse", "finalbody"):
                        blk = getattr(s, fld, None)
                        if isinstance(blk, list) and blk and isinstance(blk[0], ast.stmt):
                            setattr(s, fld, sweep(blk) or [ast.Pass()])
                out.append(s)
            return out

        new_fn.body = sweep(list(new_fn.body)) or [ast.Pass()]
        ast.fix_missing_locations(new_fn)
        self.log.setdefault("inlined", []).append(f"{f.qual}: partial applications / reduce written out")
        return new_fn

    # ------------------------------------------------------------------------------------------ N37 / N38
    def library_loops(self, f: Func) -> t.Optional[FuncNode]:
        """N37  iteration helpers of the standard library written as the loops they are:
                  for _ in itertools.repeat(None, n)            ->  for _ in range(n)
                  (.. for x in itertools.chain.from_iterable(X) ..) / for x in chain.from_iterable(X): B
                                                                ->  (.. for row in X for x in row ..) / nested for
                  for x in itertools.chain(A, B): BODY          ->  for x in A: BODY ; for x in B: BODY   (BODY without break)
                  F in E  with F a member of an IntFlag class of the package   ->  E & F == F"""
        fn = f.node
        repo = self.repo
        hit = [False]
        counter = [0]

        def dotted(e: ast.AST) -> str:
            return (repo.dotted(e, f.mod) or "") if isinstance(e, (ast.Name, ast.Attribute)) else ""

        def is_call(e: ast.AST, name: str) -> bool:
            return isinstance(e, ast.Call) and dotted(e.func) == name and not e.keywords and not any(isinstance(a, ast.Starred) for a in e.args)

        class E(ast.NodeTransformer):
            def visit_comprehension(self, node: ast.comprehension) -> t.Any:
                self.generic_visit(node)
                return node

            def _comp(self, node: t.Any) -> ast.AST:
                self.generic_visit(node)
                gens: t.List[ast.comprehension] = []
                for g in node.generators:
                    if is_call(g.iter, "itertools.chain.from_iterable") and len(g.iter.args) == 1 and not g.is_async:
                        counter[0] += 1
                        row = f"row__c{counter[0]}"
                        gens.append(ast.comprehension(target=ast.Name(id=row, ctx=ast.Store()), iter=g.iter.args[0], ifs=[], is_async=0))
                        gens.append(ast.comprehension(target=g.target, iter=ast.Name(id=row, ctx=ast.Load()), ifs=g.ifs, is_async=0))
                        hit[0] = True
                    else:
                        gens.append(g)
                node.generators = gens
                return node

            visit_GeneratorExp = _comp
            visit_ListComp = _comp
            visit_SetComp = _comp

            def visit_Compare(self, node: ast.Compare) -> ast.AST:
                self.generic_visit(node)
                if len(node.ops) == 1 and isinstance(node.ops[0], (ast.In, ast.NotIn)) and isinstance(node.left, ast.Attribute) and _is_pure(node.comparators[0]):
                    try:
                        r = repo.resolve(node.left.value, f.mod)
                    except Exception:
                        r = None
                    if isinstance(r, Cls) and r.enum_kind() in ("enum.IntFlag", "enum.Flag") and node.left.attr in repo.enum_members(r):
                        hit[0] = True
                        test = ast.Compare(left=ast.BinOp(left=node.comparators[0], op=ast.BitAnd(), right=copy.deepcopy(node.left)), ops=[ast.Eq() if isinstance(node.ops[0], ast.In) else ast.NotEq()], comparators=[copy.deepcopy(node.left)])
                        return ast.copy_location(test, node)
                return node

        def has_break(body: t.List[ast.stmt]) -> bool:
            stack: t.List[ast.AST] = list(body)
            while stack:
                n = stack.pop()
                if isinstance(n, ast.Break):
                    return True
                if isinstance(n, (ast.For, ast.AsyncFor, ast.While, ast.FunctionDef, ast.AsyncFunctionDef, ast.ClassDef, ast.Lambda)):
                    continue
                stack.extend(ast.iter_child_nodes(n))
            return False

        def block(stmts: t.List[ast.stmt]) -> t.List[ast.stmt]:
            out: t.List[ast.stmt] = []
            for s in stmts:
                if isinstance(s, (ast.FunctionDef, ast.AsyncFunctionDef, ast.ClassDef)):
                    out.append(s)
                    continue
                for fld in ("body", "orelse", "finalbody"):
                    blk = getattr(s, fld, None)
                    if isinstance(blk, list) and blk and isinstance(blk[0], ast.stmt):
                        setattr(s, fld, block(blk))
                if isinstance(s, ast.Try):
                    for h in s.handlers:
                        h.body = block(h.body)
                if isinstance(s, ast.For) and not s.orelse:
                    it = s.iter
                    if is_call(it, "itertools.repeat") and len(it.args) == 2:
                        s.iter = ast.copy_location(ast.Call(func=ast.Name(id="range", ctx=ast.Load()), args=[it.args[1]], keywords=[]), it)
                        hit[0] = True
                    elif is_call(it, "itertools.chain.from_iterable") and len(it.args) == 1:
                        counter[0] += 1
                        row = f"row__c{counter[0]}"
                        inner = ast.copy_location(ast.For(target=s.target, iter=ast.Name(id=row, ctx=ast.Load()), body=s.body, orelse=[], lineno=s.lineno), s)
                        if not has_break(s.body):
                            s = ast.copy_location(ast.For(target=ast.Name(id=row, ctx=ast.Store()), iter=it.args[0], body=[inner], orelse=[], lineno=s.lineno), s)
                            hit[0] = True
                    elif is_call(it, "itertools.chain") and 1 <= len(it.args) <= 3 and not has_break(s.body) and all(_is_pure(a) or isinstance(a, (ast.List, ast.Tuple)) for a in it.args):
                        for a in it.args:
                            out.append(ast.copy_location(ast.For(target=copy.deepcopy(s.target), iter=a, body=copy.deepcopy(s.body), orelse=[], lineno=s.lineno), s))
                        hit[0] = True
                        continue
                out.append(s)
            return out

        if not any(isinstance(n, (ast.Compare, ast.Call)) for n in ast.walk(fn)):
            return None
        new = copy.deepcopy(fn)
        # an iterator built by itertools / map and bound to a local that is read once, in the next statement, is read there
        loads: t.Dict[str, int] = {}
        stores_: t.Dict[str, int] = {}
        for n in _walk_no_scopes(new):
            if isinstance(n, ast.Name):
                d_ = loads if isinstance(n.ctx, ast.Load) else stores_
                d_[n.id] = d_.get(n.id, 0) + 1

        def inline_iters(stmts: t.List[ast.stmt]) -> t.List[ast.stmt]:
            out: t.List[ast.stmt] = []
            for s in stmts:
                if not isinstance(s, (ast.FunctionDef, ast.AsyncFunctionDef, ast.ClassDef)):
                    for fld in ("body", "orelse", "finalbody"):
                        blk = getattr(s, fld, None)
                        if isinstance(blk, list) and blk and isinstance(blk[0], ast.stmt):
                            setattr(s, fld, inline_iters(blk))
                prev = out[-1] if out else None
                if isinstance(prev, ast.Assign) and len(prev.targets) == 1 and isinstance(prev.targets[0], ast.Name) and isinstance(prev.value, ast.Call) and (dotted(prev.value.func).startswith("itertools.") or dotted(prev.value.func) == "map"):
                    nm = prev.targets[0].id
                    if stores_.get(nm) == 1 and loads.get(nm) == 1:
                        uses = [x for x in ast.walk(s) if isinstance(x, ast.Name) and x.id == nm and isinstance(x.ctx, ast.Load)]
                        if len(uses) == 1 and not isinstance(s, (ast.For, ast.While, ast.If, ast.With, ast.Try)):
                            s = t.cast(ast.stmt, _replace_in_expr(s, uses[0], prev.value))
                            out.pop()
                            hit[0] = True
                        elif len(uses) == 1 and isinstance(s, ast.For) and s.iter is uses[0]:
                            s.iter = prev.value
                            out.pop()
                            hit[0] = True
                out.append(s)
            return out

        new.body = inline_iters(list(new.body))

        class M(ast.NodeTransformer):
            """map(F, IT) -> (F(x) for x in IT);  list(<genexp>) -> [<listcomp>]"""

            def visit_Call(self, node: ast.Call) -> ast.AST:
                self.generic_visit(node)
                if isinstance(node.func, ast.Name) and node.func.id == "map" and len(node.args) == 2 and not node.keywords and not any(isinstance(a, ast.Starred) for a in node.args) and (_is_pure(node.args[0]) or isinstance(node.args[0], ast.Lambda)):
                    counter[0] += 1
                    x = f"x__m{counter[0]}"
                    fx = node.args[0]
                    if isinstance(fx, ast.Lambda) and len(fx.args.args) == 1 and not fx.args.defaults and not fx.args.vararg and not fx.args.kwarg:
                        p_ = fx.args.args[0].arg

                        class S_(ast.NodeTransformer):
                            def visit_Name(self, n: ast.Name) -> ast.AST:
                                return ast.Name(id=x, ctx=ast.Load()) if n.id == p_ and isinstance(n.ctx, ast.Load) else n

                        elt: ast.expr = S_().visit(copy.deepcopy(fx.body))
                    else:
                        elt = ast.Call(func=fx, args=[ast.Name(id=x, ctx=ast.Load())], keywords=[])
                    hit[0] = True
                    return ast.copy_location(ast.GeneratorExp(elt=elt, generators=[ast.comprehension(target=ast.Name(id=x, ctx=ast.Store()), iter=node.args[1], ifs=[], is_async=0)]), node)
                if isinstance(node.func, ast.Name) and node.func.id == "list" and len(node.args) == 1 and not node.keywords and isinstance(node.args[0], ast.GeneratorExp):
                    hit[0] = True
                    return ast.copy_location(ast.ListComp(elt=node.args[0].elt, generators=node.args[0].generators), node)
                return node

        M().visit(new)
        E().visit(new)
        new.body = block(list(new.body))
        if not hit[0]:
            return None
        ast.fix_missing_locations(new)
        return new

    def records_as_tuples(self) -> None:
        """N38  A new NamedTuple class of the package (not in the inventory, no instance methods or properties) is the tuple
        of its fields: attribute reads `x.f` on values known to be of that class become `x[i]`, then the constructor calls
        `C(a, b)` / `C(f=a, g=b)` become the tuple display - the form in which the reference tree passes several values."""
        repo = self.repo
        new_classes = getattr(repo, "new_classes", set())
        recs: t.Dict[str, Cls] = {}
        for q in new_classes:
            c = repo.classes.get(q)
            if c is None or not any(x.endswith("NamedTuple") for x in c.ext_bases):
                continue
            if any(not (m.is_staticmethod or m.is_classmethod) for m in c.methods.values()):
                continue
            recs[c.name] = c
        if not recs:
            return
        fields = {n: [p_.name for p_ in c.init_params()] for n, c in recs.items()}

        def ann_rec(ann: t.Optional[ast.expr]) -> t.Optional[str]:
            if ann is None:
                return None
            if isinstance(ann, ast.Constant) and isinstance(ann.value, str):
                try:
                    ann = ast.parse(ann.value, mode="eval").body
                except SyntaxError:
                    return None
            if isinstance(ann, ast.Subscript) and unparse(ann.value).endswith("Optional"):
                ann = ann.slice
            return ann.id if isinstance(ann, ast.Name) and ann.id in recs else None

        for f in list(repo.funcs.values()):
            fn = f.node
            typed: t.Dict[str, str] = {}
            for a in _params(fn):
                r = ann_rec(a.annotation)
                if r:
                    typed[a.arg] = r
            stores: t.Dict[str, int] = {}
            for n in _walk_no_scopes(fn):
                if isinstance(n, ast.Name) and isinstance(n.ctx, (ast.Store, ast.Del)):
                    stores[n.id] = stores.get(n.id, 0) + 1
            # a local is a record when every binding of it is one: C(..), a package call annotated to return C, an annotation
            seen_defs: t.Dict[str, t.List[t.Optional[str]]] = {}
            for n in _walk_no_scopes(fn):
                if isinstance(n, ast.AnnAssign) and isinstance(n.target, ast.Name):
                    seen_defs.setdefault(n.target.id, []).append(ann_rec(n.annotation))
                if isinstance(n, ast.Assign) and len(n.targets) == 1 and isinstance(n.targets[0], ast.Name):
                    kind: t.Optional[str] = None
                    if isinstance(n.value, ast.Call):
                        fx = n.value.func
                        if isinstance(fx, ast.Name) and fx.id in recs and repo.resolve_name(fx.id, f.mod) is recs[fx.id]:
                            kind = fx.id
                        else:
                            cal = self._callee(f, n.value, stored_names(fn) | {a_.arg for a_ in _params(fn)})
                            if cal is not None:
                                kind = ann_rec(cal[0].node.returns)
                    seen_defs.setdefault(n.targets[0].id, []).append(kind)
            for nm, kinds in seen_defs.items():
                if kinds and all(k is not None for k in kinds) and len(set(kinds)) == 1 and stores.get(nm) == len(kinds) and nm not in {a_.arg for a_ in _params(fn)}:
                    typed[nm] = t.cast(str, kinds[0])
            hit = [False]

            class T(ast.NodeTransformer):
                def visit_Attribute(self, node: ast.Attribute) -> ast.AST:
                    # C(a, b).f read on the spot is the field's argument
                    v0 = node.value
                    if isinstance(node.ctx, ast.Load) and isinstance(v0, ast.Call) and isinstance(v0.func, ast.Name) and v0.func.id in recs and repo.resolve_name(v0.func.id, f.mod) is recs[v0.func.id] and node.attr in fields[v0.func.id] and not any(isinstance(a, ast.Starred) for a in v0.args) and all(k.arg for k in v0.keywords):
                        given0: t.Dict[str, ast.expr] = dict(zip(fields[v0.func.id], v0.args))
                        for k in v0.keywords:
                            given0[t.cast(str, k.arg)] = k.value
                        if node.attr in given0 and all(_is_pure(x) for n_, x in given0.items() if n_ != node.attr):
                            hit[0] = True
                            return self.visit(given0[node.attr])
                    self.generic_visit(node)
                    if isinstance(node.ctx, ast.Load) and isinstance(node.value, ast.Name) and node.value.id in typed and node.attr in fields[typed[node.value.id]]:
                        hit[0] = True
                        return ast.copy_location(ast.Subscript(value=node.value, slice=ast.Constant(value=fields[typed[node.value.id]].index(node.attr)), ctx=ast.Load()), node)
                    # a call that returns the record, read on the spot: g(..).f
                    if isinstance(node.ctx, ast.Load) and isinstance(node.value, ast.Call):
                        cal = self_._callee(f, node.value, stored_names(fn) | {a_.arg for a_ in _params(fn)})
                        rname = ann_rec(cal[0].node.returns) if cal is not None else None
                        if rname and node.attr in fields[rname]:
                            hit[0] = True
                            return ast.copy_location(ast.Subscript(value=node.value, slice=ast.Constant(value=fields[rname].index(node.attr)), ctx=ast.Load()), node)
                    return node

                def visit_Call(self, node: ast.Call) -> ast.AST:
                    self.generic_visit(node)
                    if isinstance(node.func, ast.Name) and node.func.id in recs and repo.resolve_name(node.func.id, f.mod) is recs[node.func.id] and not any(isinstance(a, ast.Starred) for a in node.args) and all(k.arg for k in node.keywords):
                        fl = fields[node.func.id]
                        given: t.Dict[str, ast.expr] = dict(zip(fl, node.args))
                        for k in node.keywords:
                            given[t.cast(str, k.arg)] = k.value
                        c = recs[node.func.id]
                        for p_ in c.init_params():
                            if p_.name not in given and p_.default is not None:
                                okd, val = repo.try_fold(p_.default, c.mod)
                                if okd and isinstance(val, (int, bytes, str, bool, type(None))):
                                    given[p_.name] = ast.Constant(value=val)
                        if set(given) == set(fl) and len(node.args) <= len(fl):
                            hit[0] = True
                            return ast.copy_location(ast.Tuple(elts=[given[n_] for n_ in fl], ctx=ast.Load()), node)
                    return node

            self_ = self
            new = copy.deepcopy(fn)
            T().visit(new)

            def tuple_ann(ann: t.Optional[ast.expr]) -> t.Optional[ast.expr]:
                """C / Optional[C] / "C"  ->  tuple[<field annotations>] (same wrapper)"""
                if ann is None:
                    return None
                if isinstance(ann, ast.Constant) and isinstance(ann.value, str):
                    try:
                        ann = ast.parse(ann.value, mode="eval").body
                    except SyntaxError:
                        return None
                if isinstance(ann, ast.Subscript) and unparse(ann.value).endswith("Optional"):
                    inner = tuple_ann(ann.slice)
                    return ast.Subscript(value=ann.value, slice=inner, ctx=ast.Load()) if inner is not None else None
                if isinstance(ann, ast.Name) and ann.id in recs:
                    fas = [copy.deepcopy(fl.ann) if fl.ann is not None else ast.Name(id="object", ctx=ast.Load()) for fl in recs[ann.id].init_params()]
                    return ast.Subscript(value=ast.Name(id="tuple", ctx=ast.Load()), slice=ast.Tuple(elts=fas, ctx=ast.Load()), ctx=ast.Load())
                return None

            for a in _params(new):
                ta = tuple_ann(a.annotation)
                if ta is not None:
                    a.annotation = ta
                    hit[0] = True
            tr = tuple_ann(new.returns)
            if tr is not None:
                new.returns = tr
                hit[0] = True
            if hit[0]:
                ast.fix_missing_locations(new)
                self._replace_node(f, new)
        self.log.setdefault("inlined", []).append("new NamedTuple carriers read as tuples: " + ", ".join(sorted(recs)))

    # ------------------------------------------------------------------------------------------ N26
    def expand_star_args(self, f: Func) -> t.Optional[FuncNode]:
        """g(a, *T, k=v)  ->  g(a, t1, t2, t3, k=v)   when T is a tuple / list display or a NamedTuple construction of the
        package with all fields given - written in place, bound once to a local that is never changed, or a module
        constant that is not in the inventory - and its elements are pure (names, attribute paths, constants)."""
        fn = f.node
        repo = self.repo
        hit = [False]
        stores: t.Dict[str, int] = {}
        for n in _walk_no_scopes(fn):
            if isinstance(n, ast.Name) and isinstance(n.ctx, (ast.Store, ast.Del)):
                stores[n.id] = stores.get(n.id, 0) + 1
        params = {a.arg for a in _params(fn)}

        def elems(e: ast.expr, depth: int = 0) -> t.Optional[t.List[ast.expr]]:
            if depth > 3:
                return None
            if isinstance(e, ast.Name):
                if e.id in params:
                    return None
                if e.id in stores:
                    if stores[e.id] != 1:
                        return None
                    defs = [n for n in fn.body if isinstance(n, (ast.Assign, ast.AnnAssign)) and n.value is not None and [unparse(x) for x in (n.targets if isinstance(n, ast.Assign) else [n.target])] == [e.id]]
                    if len(defs) != 1:
                        return None
                    return elems(t.cast(ast.expr, defs[0].value), depth + 1)
                r = repo.resolve_name(e.id, f.mod)
                if isinstance(r, tuple) and r[0] == "const" and len(r) == 3 and e.id not in self.inv_consts.get(r[1].name, set()):
                    from .load import mutated_global

                    if mutated_global(r[1], e.id):
                        return None
                    return elems(r[2], depth + 1)
                return None
            items: t.Optional[t.List[ast.expr]] = None
            if isinstance(e, (ast.Tuple, ast.List)) and not any(isinstance(x, ast.Starred) for x in e.elts):
                items = list(e.elts)
            elif isinstance(e, ast.Call) and isinstance(e.func, ast.Name) and not any(isinstance(a, ast.Starred) for a in e.args) and all(k.arg for k in e.keywords):
                c = repo.resolve_name(e.func.id, f.mod)
                if isinstance(c, Cls) and any(x.endswith("NamedTuple") for x in c.ext_bases) and not c.methods:
                    fields = [p_.name for p_ in c.init_params()]
                    given: t.Dict[str, ast.expr] = dict(zip(fields, e.args))
                    for k in e.keywords:
                        given[t.cast(str, k.arg)] = k.value
                    for p_ in c.init_params():
                        if p_.name not in given and p_.default is not None:
                            okd, val = repo.try_fold(p_.default, c.mod)
                            if okd and isinstance(val, (int, bytes, str, bool, type(None))):
                                given[p_.name] = ast.Constant(value=val)
                    if list(given) and set(given) == set(fields):
                        items = [given[n_] for n_ in fields]
            if items is None:
                return None
            for c_ in items:
                if not (_is_pure_path(c_) or isinstance(c_, ast.Constant) or (isinstance(c_, ast.UnaryOp) and isinstance(c_.operand, ast.Constant))):
                    return None
                # through a binding the elements are read again at the call: their roots must still hold what they held
                # at the construction (a display written in the call itself is evaluated right there)
                for x in ast.walk(c_):
                    if depth > 0 and isinstance(x, ast.Name) and stores.get(x.id, 0) > (0 if x.id in params else 1):
                        return None
            return items

        def record_fields(e: ast.expr) -> t.Optional[t.List[str]]:
            """Field names when e is a local holding an instance of a NamedTuple class of the package (bound once to
            C(..) - possibly the inlined body of an alternate constructor - or an annotated parameter / local)."""
            if not isinstance(e, ast.Name):
                return None
            c: t.Optional[Cls] = self._class_of_expr(f, e)
            if c is None and stores.get(e.id, 0) == 1 and e.id not in params:
                defs = [n for n in _walk_no_scopes(fn) if isinstance(n, ast.Assign) and len(n.targets) == 1 and isinstance(n.targets[0], ast.Name) and n.targets[0].id == e.id]
                if len(defs) == 1 and isinstance(defs[0].value, ast.Call) and isinstance(defs[0].value.func, ast.Name):
                    r = repo.resolve_name(defs[0].value.func.id, f.mod)
                    c = r if isinstance(r, Cls) else None
            if c is None or not any(x.endswith("NamedTuple") for x in c.ext_bases):
                return None
            return [p_.name for p_ in c.init_params()]

        class C(ast.NodeTransformer):
            def visit_Call(self, node: ast.Call) -> ast.AST:
                self.generic_visit(node)
                # g(**T._asdict()) with T a NamedTuple instance  ->  g(f1=T.f1, f2=T.f2, ..)
                kws: t.List[ast.keyword] = []
                changed = False
                for k in node.keywords:
                    v = k.value
                    if k.arg is None and isinstance(v, ast.Call) and isinstance(v.func, ast.Attribute) and v.func.attr == "_asdict" and not v.args and not v.keywords:
                        flds = record_fields(v.func.value)
                        if flds is not None:
                            kws.extend(ast.keyword(arg=n_, value=ast.Attribute(value=copy.deepcopy(v.func.value), attr=n_, ctx=ast.Load())) for n_ in flds)
                            changed = True
                            continue
                    kws.append(k)
                if changed:
                    node.keywords = kws
                    hit[0] = True
                if not any(isinstance(a, ast.Starred) for a in node.args):
                    return node
                args: t.List[ast.expr] = []
                for a in node.args:
                    if isinstance(a, ast.Starred):
                        es = elems(a.value)
                        if es is None:
                            flds = record_fields(a.value)
                            if flds is None:
                                return node
                            es = [ast.Attribute(value=copy.deepcopy(a.value), attr=n_, ctx=ast.Load()) for n_ in flds]  # *T of a record is its fields in order
                        args.extend(copy.deepcopy(x) for x in es)
                    else:
                        args.append(a)
                node.args = args
                hit[0] = True
                return node

        new = copy.deepcopy(fn)
        C().visit(new)
        return new if hit[0] else None

    # ------------------------------------------------------------------------------------------ N25
    def thread_flags(self, f: Func) -> t.Optional[FuncNode]:
        """An if-nest whose every leaf (tail position) assigns a boolean flag r, directly followed by `if not r: T` /
        `if r: ... ` with T ending in raise / return, r used nowhere else:  each leaf `r = False` becomes T, `r = True`
        becomes nothing, `r = e` becomes `if not e: T`, and the test on r disappears (jump threading: what an inlined
        predicate helper `if not ok(x): raise` looks like after N1)."""
        hit = [False]
        uses: t.Dict[str, int] = {}
        for n in _walk_no_scopes(f.node):
            if isinstance(n, ast.Name) and isinstance(n.ctx, ast.Load):
                uses[n.id] = uses.get(n.id, 0) + 1

        def leaves_assign(stmts: t.List[ast.stmt], r: str) -> bool:
            """Every path through the block ends by assigning r (as its last statement), r is not touched before."""
            if not stmts:
                return False
            last = stmts[-1]
            for s_ in stmts[:-1]:
                if any(isinstance(x, ast.Name) and x.id == r for x in ast.walk(s_)):
                    return False
            if isinstance(last, ast.Assign) and len(last.targets) == 1 and isinstance(last.targets[0], ast.Name) and last.targets[0].id == r:
                return not any(isinstance(x, ast.Name) and x.id == r for x in ast.walk(last.value))
            if isinstance(last, ast.If) and last.orelse:
                if any(isinstance(x, ast.Name) and x.id == r for x in ast.walk(last.test)):
                    return False
                return leaves_assign(last.body, r) and leaves_assign(last.orelse, r)
            return False

        def rewrite(stmts: t.List[ast.stmt], r: str, on_false: t.List[ast.stmt], negated: bool) -> t.List[ast.stmt]:
            out = list(stmts[:-1])
            last = stmts[-1]
            if isinstance(last, ast.Assign):
                v = last.value
                if isinstance(v, ast.Constant):
                    if bool(v.value) == negated:
                        out += copy.deepcopy(on_false)
                    elif not out:
                        out.append(ast.copy_location(ast.Pass(), last))
                else:
                    test = v if negated else _negate(v)
                    out.append(ast.copy_location(ast.If(test=test, body=copy.deepcopy(on_false), orelse=[]), last))
                return out
            assert isinstance(last, ast.If)
            new = copy.copy(last)
            new.body = rewrite(last.body, r, on_false, negated)
            new.orelse = rewrite(last.orelse, r, on_false, negated)
            out.append(new)
            return out

        def block(stmts: t.List[ast.stmt]) -> t.List[ast.stmt]:
            out: t.List[ast.stmt] = []
            i = 0
            while i < len(stmts):
                s_ = stmts[i]
                if not isinstance(s_, (ast.FunctionDef, ast.AsyncFunctionDef, ast.ClassDef)):
                    for fld in ("body", "orelse", "finalbody"):
                        blk = getattr(s_, fld, None)
                        if isinstance(blk, list) and blk and isinstance(blk[0], ast.stmt):
                            setattr(s_, fld, block(blk))
                    if isinstance(s_, ast.Try):
                        for h in s_.handlers:
                            h.body = block(h.body)
                nxt = stmts[i + 1] if i + 1 < len(stmts) else None
                if isinstance(s_, ast.If) and s_.orelse and isinstance(nxt, ast.If) and not nxt.orelse and _terminates(nxt.body):
                    tst = nxt.test
                    negated = False  # the terminating branch runs when r is false
                    core = tst
                    if isinstance(core, ast.UnaryOp) and isinstance(core.op, ast.Not):
                        core = core.operand
                    else:
                        negated = True  # `if r: T` - the terminating branch runs when r is true
                    if isinstance(core, ast.Name) and uses.get(core.id, 0) == 1 and leaves_assign([s_], core.id):
                        out += rewrite([s_], core.id, list(nxt.body), negated)
                        hit[0] = True
                        i += 2
                        continue
                out.append(s_)
                i += 1
            return out

        new = copy.deepcopy(f.node)
        new.body = block(list(new.body))
        return new if hit[0] else None

    # ------------------------------------------------------------------------------------------ N24
    def _class_of_expr(self, f: Func, e: ast.expr) -> t.Optional[Cls]:
        """Package class of `name` (annotated parameter / annotated local) or `self.attr` (annotated in the class body, or
        assigned in __init__ from an annotated parameter); Optional[...] is looked through."""
        def ann_cls(ann: t.Optional[ast.expr], mod: Mod) -> t.Optional[Cls]:
            if ann is None:
                return None
            if isinstance(ann, ast.Constant) and isinstance(ann.value, str):
                try:
                    ann = ast.parse(ann.value, mode="eval").body
                except SyntaxError:
                    return None
            if isinstance(ann, ast.Subscript) and unparse(ann.value).endswith("Optional"):
                ann = ann.slice
            if isinstance(ann, ast.Name):
                r = self.repo.resolve_name(ann.id, mod)
                return r if isinstance(r, Cls) else None
            return None

        if isinstance(e, ast.Name):
            for a in _params(f.node):
                if a.arg == e.id:
                    return ann_cls(a.annotation, f.mod)
            for n in _walk_no_scopes(f.node):
                if isinstance(n, ast.AnnAssign) and isinstance(n.target, ast.Name) and n.target.id == e.id:
                    return ann_cls(n.annotation, f.mod)
            # x = self.TABLE.get(k[, None]) / self.TABLE[k]   with  TABLE: Dict[K, C]  declared in the class
            defs = [n for n in _walk_no_scopes(f.node) if isinstance(n, ast.Assign) and len(n.targets) == 1 and isinstance(n.targets[0], ast.Name) and n.targets[0].id == e.id]
            if len(defs) == 1 and f.cls is not None:
                v = defs[0].value
                base: t.Optional[ast.expr] = None
                if isinstance(v, ast.Call) and isinstance(v.func, ast.Attribute) and v.func.attr == "get" and 1 <= len(v.args) <= 2 and (len(v.args) == 1 or (isinstance(v.args[1], ast.Constant) and v.args[1].value is None)):
                    base = v.func.value
                elif isinstance(v, ast.Subscript):
                    base = v.value
                if isinstance(base, ast.Attribute) and isinstance(base.value, ast.Name) and base.value.id == "self":
                    for c in f.cls.mro():
                        anns = [st.annotation for st in c.node.body if isinstance(st, ast.AnnAssign) and isinstance(st.target, ast.Name) and st.target.id == base.attr]
                        init = c.methods.get("__init__")
                        if init is not None:
                            anns += [n.annotation for n in ast.walk(init.node) if isinstance(n, ast.AnnAssign) and unparse(n.target) == f"self.{base.attr}"]
                        for ann in anns:
                            if isinstance(ann, ast.Subscript) and unparse(ann.value).rsplit(".", 1)[-1] in ("Dict", "dict", "Mapping", "MutableMapping", "DefaultDict") and isinstance(ann.slice, ast.Tuple) and len(ann.slice.elts) == 2:
                                return ann_cls(ann.slice.elts[1], c.mod)
            return None
        if isinstance(e, ast.Attribute) and isinstance(e.value, ast.Name) and e.value.id == "self" and f.cls is not None:
            for c in f.cls.mro():
                for st in c.node.body:
                    if isinstance(st, ast.AnnAssign) and isinstance(st.target, ast.Name) and st.target.id == e.attr:
                        return ann_cls(st.annotation, c.mod)
                init = c.methods.get("__init__")
                if init is not None:
                    for n in ast.walk(init.node):
                        if isinstance(n, ast.AnnAssign) and unparse(n.target) == f"self.{e.attr}":
                            return ann_cls(n.annotation, c.mod)
                        if isinstance(n, ast.Assign) and len(n.targets) == 1 and unparse(n.targets[0]) == f"self.{e.attr}" and isinstance(n.value, ast.Name):
                            for a in _params(init.node):
                                if a.arg == n.value.id:
                                    return ann_cls(a.annotation, c.mod)
        return None

    def unpack_records(self, f: Func) -> t.Optional[FuncNode]:
        """a, b, c = X   with X a name / self attribute whose class is a NamedTuple of the package with exactly that many
        fields   ->   a = X.f1; b = X.f2; c = X.f3   (positional unpacking of a record is reading its fields in order)."""
        hit = [False]

        def block(stmts: t.List[ast.stmt]) -> t.List[ast.stmt]:
            out: t.List[ast.stmt] = []
            for s_ in stmts:
                if not isinstance(s_, (ast.FunctionDef, ast.AsyncFunctionDef, ast.ClassDef)):
                    for fld in ("body", "orelse", "finalbody"):
                        blk = getattr(s_, fld, None)
                        if isinstance(blk, list) and blk and isinstance(blk[0], ast.stmt):
                            setattr(s_, fld, block(blk))
                    if isinstance(s_, ast.Try):
                        for h in s_.handlers:
                            h.body = block(h.body)
                if isinstance(s_, ast.Assign) and len(s_.targets) == 1 and isinstance(s_.targets[0], ast.Tuple) and isinstance(s_.value, (ast.Tuple, ast.List)) and len(s_.value.elts) == len(s_.targets[0].elts) and not any(isinstance(x, ast.Starred) for x in list(s_.targets[0].elts) + list(s_.value.elts)) and all(isinstance(x, ast.Name) for x in s_.targets[0].elts):
                    # a, b = (x, y)  ->  a = x; b = y   when no target is read by a later element
                    tnames = [t.cast(ast.Name, x).id for x in s_.targets[0].elts]
                    clash = any(isinstance(n_, ast.Name) and n_.id in tnames[:i_] for i_, v_ in enumerate(s_.value.elts) for n_ in ast.walk(v_))
                    if not clash and len(set(tnames)) == len(tnames):
                        for el, v_ in zip(s_.targets[0].elts, s_.value.elts):
                            out.append(ast.copy_location(ast.Assign(targets=[el], value=v_), s_))
                        hit[0] = True
                        continue
                if isinstance(s_, ast.Assign) and len(s_.targets) == 1 and isinstance(s_.targets[0], ast.Tuple) and _is_pure_path(s_.value) and not any(isinstance(x, ast.Starred) for x in s_.targets[0].elts):
                    cls = self._class_of_expr(f, s_.value)
                    if cls is not None and any(x.endswith("NamedTuple") for x in cls.ext_bases):
                        fields = [p_.name for p_ in cls.init_params()]
                        tg = s_.targets[0].elts
                        names = {x.id for x in ast.walk(s_.value) if isinstance(x, ast.Name)}
                        if len(fields) == len(tg) and not any(isinstance(x, ast.Name) and x.id in names for x in tg):
                            for el, fl in zip(tg, fields):
                                out.append(ast.copy_location(ast.Assign(targets=[el], value=ast.Attribute(value=copy.deepcopy(s_.value), attr=fl, ctx=ast.Load())), s_))
                            hit[0] = True
                            continue
                out.append(s_)
            return out

        new = copy.deepcopy(f.node)
        new.body = block(list(new.body))
        return new if hit[0] else None

    # ------------------------------------------------------------------------------------------ N3
    def propagate(self, f: Func) -> t.Optional[FuncNode]:
        fn = f.node
        params = {a.arg for a in _params(fn)}
        if fn.args.vararg:
            params.add(fn.args.vararg.arg)
        if fn.args.kwarg:
            params.add(fn.args.kwarg.arg)
        defs: t.Dict[str, t.List[ast.stmt]] = {}
        multi: t.Set[str] = set()
        attr_stores: t.Set[str] = set()
        sub_stores: t.Set[str] = set()
        for n in _walk_no_scopes(fn):
            if isinstance(n, ast.Name) and isinstance(n.ctx, (ast.Store, ast.Del)):
                defs.setdefault(n.id, [])
            if isinstance(n, ast.Attribute) and isinstance(n.ctx, (ast.Store, ast.Del)):
                attr_stores.add(n.attr)
            if isinstance(n, ast.Subscript) and isinstance(n.ctx, (ast.Store, ast.Del)):
                b = n.value
                while isinstance(b, (ast.Attribute, ast.Subscript)):
                    b = b.value
                if isinstance(b, ast.Name):
                    sub_stores.add(b.id)
            if isinstance(n, (ast.FunctionDef, ast.AsyncFunctionDef, ast.ClassDef)) and n is not fn:
                multi.add(n.name)
        # count binding occurrences per name
        count: t.Dict[str, int] = {}
        for n in _walk_no_scopes(fn):
            if isinstance(n, ast.Name) and isinstance(n.ctx, (ast.Store, ast.Del)):
                count[n.id] = count.get(n.id, 0) + 1
            elif isinstance(n, ast.ExceptHandler) and n.name:
                count[n.name] = count.get(n.name, 0) + 2
        # candidates: top-level-or-nested simple `x = <pure path or constant>` with one binding, not in a loop
        cands: t.Dict[str, ast.expr] = {}

        def scan(block: t.List[ast.stmt], in_loop: bool, cond: bool) -> None:
            for s in block:
                tgts: t.List[t.Optional[ast.expr]] = []
                if isinstance(s, ast.Assign) and all(isinstance(x, ast.Name) for x in s.targets):
                    tgts = list(s.targets)  # a = b = <value>: every name is an alias of the value
                elif isinstance(s, ast.AnnAssign):
                    tgts = [s.target]
                for tgt in tgts if (isinstance(s, (ast.Assign, ast.AnnAssign)) and not in_loop and not cond) else []:
                    if len(tgts) > 1 and not (isinstance(s.value, ast.Constant) or _is_pure_path(t.cast(ast.expr, s.value))):
                        continue
                    if isinstance(tgt, ast.Name) and s.value is not None and count.get(tgt.id) == 1 and tgt.id not in params and tgt.id not in multi:
                        v = s.value
                        ok = False
                        if _is_access_path(v) and not isinstance(v, ast.Constant):
                            root = v
                            attrs = []
                            names_in_slices: t.List[str] = []
                            while isinstance(root, (ast.Attribute, ast.Subscript)):
                                if isinstance(root, ast.Attribute):
                                    attrs.append(root.attr)
                                else:
                                    names_in_slices += [x.id for x in ast.walk(root.slice) if isinstance(x, ast.Name)]
                                root = root.value
                            assert isinstance(root, ast.Name)

                            def stable(nm: str) -> bool:
                                if nm in params:
                                    return count.get(nm, 0) == 0
                                return count.get(nm, 0) <= 1

                            has_sub = any(isinstance(x, ast.Subscript) for x in ast.walk(v))
                            # the path must be stable: no name on it is rebound, no attribute on it is stored to,
                            # and (for an element access) the container is never written through a subscript here
                            if stable(root.id) and all(stable(nm) for nm in names_in_slices) and not (set(attrs) & attr_stores) and (attrs or has_sub):
                                ok = root.id != tgt.id and tgt.id not in names_in_slices and not (has_sub and root.id in sub_stores)
                        else:
                            try:
                                c = self.repo.fold(v, f.mod, dict(self._const_env))
                                ok = isinstance(c, (bool, int, bytes, str)) and not isinstance(v, ast.Constant) and _is_pure(v)
                                if ok:
                                    v = ast.copy_location(ast.Constant(value=c), v)
                            except Exception:
                                ok = False
                            if isinstance(s.value, ast.Constant) and isinstance(s.value.value, (int, bytes, str)) and not isinstance(s.value.value, bool):
                                ok, v = True, s.value
                        if ok:
                            cands[tgt.id] = v
                            if isinstance(v, ast.Constant):
                                self._const_env[tgt.id] = v.value
                for fld in ("body", "orelse", "finalbody"):
                    blk = getattr(s, fld, None)
                    if isinstance(blk, list) and blk and isinstance(blk[0], ast.stmt):
                        scan(blk, in_loop or isinstance(s, (ast.For, ast.AsyncFor, ast.While)), cond or isinstance(s, (ast.If, ast.Try, ast.For, ast.AsyncFor, ast.While)))
                if isinstance(s, ast.Try):
                    for h in s.handlers:
                        scan(h.body, in_loop, True)

        self._const_env: t.Dict[str, t.Any] = {}
        scan(fn.body, False, False)
        if not cands:
            return None
        # a use before the definition (textually) would be an UnboundLocalError in the source; top-level single
        # unconditional definitions dominate every later use, and uses inside nested lambdas/comprehensions are fine
        new = copy.deepcopy(fn)
        cmap = cands

        class T(ast.NodeTransformer):
            def visit_Name(self, node: ast.Name) -> ast.AST:
                if isinstance(node.ctx, ast.Load) and node.id in cmap:
                    return ast.copy_location(copy.deepcopy(cmap[node.id]), node)
                return node

            def visit_Assign(self, node: ast.Assign) -> t.Any:
                if all(isinstance(x, ast.Name) for x in node.targets) and any(x.id in cmap for x in node.targets):  # type: ignore[attr-defined]
                    keep = [x for x in node.targets if x.id not in cmap]  # type: ignore[attr-defined]
                    if not keep:
                        return None
                    node.targets = keep
                return self.generic_visit(node)

            def visit_AnnAssign(self, node: ast.AnnAssign) -> t.Any:
                if isinstance(node.target, ast.Name) and node.target.id in cmap and node.value is not None:
                    return None
                return self.generic_visit(node)

        # resolve chains (a = b.c; d = a.e)
        for _ in range(4):
            for k2 in list(cmap):
                cmap[k2] = t.cast(ast.expr, T().visit(copy.deepcopy(cmap[k2])))
        T().visit(new)
        _fill_empty_blocks(new)
        for k2, v in cmap.items():
            self.log["aliases"].append(f"{f.qual}: {k2} = {unparse(v)}")
        return new


def _fill_empty_blocks(node: ast.AST) -> None:
    for n in ast.walk(node):
        for fld in ("body",):
            blk = getattr(n, fld, None)
            if isinstance(blk, list) and not blk and isinstance(n, (ast.If, ast.For, ast.While, ast.With, ast.Try, ast.FunctionDef, ast.AsyncFunctionDef, ast.AsyncWith, ast.AsyncFor, ast.ExceptHandler)):
                blk.append(ast.Pass())


def _replace_expr(s: ast.stmt, old: ast.AST, new: ast.expr) -> ast.stmt:
    class R(ast.NodeTransformer):
        def visit(self, node: ast.AST) -> t.Any:
            if node is old:
                return ast.copy_location(new, old) if not hasattr(new, "lineno") else new
            if isinstance(node, ast.stmt) and node is not s2:
                return node  # do not descend into nested statements
            return self.generic_visit(node)

    s2 = copy.copy(s)
    # shallow-copy the expression spine so the original tree is left intact
    for name, val in ast.iter_fields(s2):
        if name in ("body", "orelse", "finalbody", "handlers"):
            continue
        if isinstance(val, ast.AST):
            setattr(s2, name, _copy_spine(val, old))
        elif isinstance(val, list):
            setattr(s2, name, [_copy_spine(v, old) if isinstance(v, ast.AST) else v for v in val])
    return t.cast(ast.stmt, R().visit(s2))


def _replace_in_expr(e: ast.AST, old: ast.AST, new: ast.expr) -> ast.AST:
    """e with the node `old` (by identity) replaced by `new`; nodes on the way are modified in place."""
    if e is old:
        return new

    class R(ast.NodeTransformer):
        def visit(self, node: ast.AST) -> t.Any:
            if node is old:
                return new
            return self.generic_visit(node)

    return R().visit(e)


def _copy_spine(node: ast.AST, old: ast.AST) -> ast.AST:
    """Copy every node on a path to `old` (identity of `old` is kept so it can be replaced)."""
    if node is old:
        return node
    if not any(x is old for x in ast.walk(node)):
        return node
    c = copy.copy(node)
    for name, val in ast.iter_fields(c):
        if isinstance(val, ast.AST):
            setattr(c, name, _copy_spine(val, old))
        elif isinstance(val, list):
            setattr(c, name, [_copy_spine(v, old) if isinstance(v, ast.AST) else v for v in val])
    return c


def normalize(repo: Repo) -> None:
    inv = load_inventory()
    if inv is None:
        inv = build_inventory(repo)
    Normalizer(repo, inv).run()
