"""E1 - resolved call graph (name/annotation based) and region closures."""

from __future__ import annotations

import ast
import typing as t

from .intervals import World
from .load import Cls, Func, Repo, body_nodes, unparse


class CallGraph:
    def __init__(self, repo: Repo, world: t.Optional[World] = None) -> None:
        self.repo = repo
        self.world = world or World(repo)
        self.props: t.Dict[str, t.List[Func]] = {}
        for f in repo.funcs.values():
            if f.is_property:
                self.props.setdefault(f.name, []).append(f)
        self.unresolved: t.Dict[str, t.List[str]] = {}

    def callees(self, f: Func) -> t.List[Func]:
        out: t.List[Func] = []
        for n in body_nodes(f.node):
            if isinstance(n, ast.Call):
                tg = self.world.resolve_call(f, n)
                if isinstance(tg, Func):
                    out.append(tg)
                    # virtual dispatch: overriding methods of subclasses
                    if tg.cls is not None:
                        for sub in self.repo.subclasses(tg.cls):
                            m = sub.methods.get(tg.name)
                            if m is not None:
                                out.append(m)
                elif isinstance(tg, Cls):
                    for nm in ("__init__", "__post_init__"):
                        m = tg.find_method(nm)
                        if m is not None:
                            out.append(m)
                elif isinstance(n.func, ast.Attribute):
                    head = n.func.value
                    while isinstance(head, ast.Attribute):
                        head = head.value
                    ext = isinstance(head, ast.Name) and f.mod.imports.get(head.id, ("",))[0] == "ext"
                    if ext:
                        continue
                    cands = [g for g in self.repo.funcs.values() if g.cls is not None and g.name == n.func.attr and not g.name.startswith("__")]
                    if cands:
                        out += cands
                    else:
                        self.unresolved.setdefault(f.qual, []).append(unparse(n.func))
            elif isinstance(n, ast.Attribute) and isinstance(n.ctx, ast.Load) and n.attr in self.props:
                out += self.props[n.attr]
            elif isinstance(n, (ast.With, ast.AsyncWith)):
                pass
        seen = set()
        uniq = []
        for g in out:
            if g.qual not in seen:
                seen.add(g.qual)
                uniq.append(g)
        return uniq

    def closure(self, starts: t.Sequence[Func], stop: t.Set[str]) -> t.Dict[str, Func]:
        seen: t.Dict[str, Func] = {}
        work = list(starts)
        while work:
            f = work.pop()
            if f.qual in seen or f.qual in stop:
                continue
            seen[f.qual] = f
            work += self.callees(f)
        return seen

    def recursive(self, region: t.Dict[str, Func]) -> t.List[t.List[str]]:
        """Cycles inside the region (recursion => unbounded stack for nested data)."""
        graph = {q: [g.qual for g in self.callees(f) if g.qual in region] for q, f in region.items()}
        cycles: t.List[t.List[str]] = []
        color: t.Dict[str, int] = {}

        def dfs(u: str, stack: t.List[str]) -> None:
            color[u] = 1
            stack.append(u)
            for v in graph[u]:
                if color.get(v, 0) == 0:
                    dfs(v, stack)
                elif color.get(v) == 1:
                    cycles.append(stack[stack.index(v) :] + [v])
            stack.pop()
            color[u] = 2

        for q in sorted(graph):
            if color.get(q, 0) == 0:
                dfs(q, [])
        return cycles
