"""E0 - source model of /repo/src/dpapi_ng built from ``ast`` only.

Nothing from the analysed package is imported or executed.  The model offers:
module / class / function tables by qualified name, import resolution of the
package's relative imports, dataclass field tables, decorator registries and
a constant folder for the literal idioms the package uses.
"""

from __future__ import annotations

import ast
import hashlib
import os
import typing as t

REPO_ROOT = os.environ.get("VERIF_REPO", "/repo")
PKG_REL = "src/dpapi_ng"


class AnalysisError(Exception):
    """The analysis itself cannot be carried out (anchor vanished, idiom unknown)."""


def unparse(node: t.Optional[ast.AST]) -> str:
    if node is None:
        return ""
    try:
        return ast.unparse(node)
    except Exception:  # pragma: no cover
        return ast.dump(node)


class Mod:
    def __init__(self, name: str, path: str, rel: str, source: str) -> None:
        self.name = name  # "_client", "_rpc._client"
        self.path = path
        self.rel = rel  # src/dpapi_ng/_client.py
        self.source = source
        self.tree = ast.parse(source, filename=path)
        # local name -> ("mod", module name) | ("sym", module name, symbol) | ("ext", dotted)
        self.imports: t.Dict[str, t.Tuple[str, ...]] = {}
        self.consts: t.Dict[str, ast.expr] = {}  # module level NAME = expr
        self.is_pkg = rel.endswith("__init__.py")

    def __repr__(self) -> str:
        return f"<Mod {self.name}>"


class Field:
    def __init__(self, name: str, ann: t.Optional[ast.expr], default: t.Optional[ast.expr], init: bool, owner: str) -> None:
        self.name = name
        self.ann = ann
        self.default = default  # the default *value* expression (unwrapped from dataclasses.field)
        self.init = init
        self.owner = owner


class Cls:
    def __init__(self, qual: str, node: ast.ClassDef, mod: Mod) -> None:
        self.qual = qual
        self.name = node.name
        self.node = node
        self.mod = mod
        self.base_exprs = list(node.bases)
        self.bases: t.List["Cls"] = []  # resolved package classes
        self.ext_bases: t.List[str] = []  # dotted names of non package bases
        self.methods: t.Dict[str, "Func"] = {}
        self.own_fields: t.List[Field] = []
        self.class_consts: t.Dict[str, ast.expr] = {}
        self.is_dataclass = False
        self.frozen = False
        self.decorators = list(node.decorator_list)

    def mro(self) -> t.List["Cls"]:
        out: t.List[Cls] = [self]
        for b in self.bases:
            for c in b.mro():
                if c not in out:
                    out.append(c)
        return out

    def find_method(self, name: str) -> t.Optional["Func"]:
        for c in self.mro():
            if name in c.methods:
                return c.methods[name]
        return None

    def fields(self) -> t.List[Field]:
        """Dataclass fields in dataclass order (base first, redefinition keeps position)."""
        order: t.List[str] = []
        table: t.Dict[str, Field] = {}
        for c in reversed(self.mro()):
            for f in c.own_fields:
                if f.name not in table:
                    order.append(f.name)
                table[f.name] = f
        return [table[n] for n in order]

    def field(self, name: str) -> t.Optional[Field]:
        for f in self.fields():
            if f.name == name:
                return f
        return None

    def init_params(self) -> t.List[Field]:
        return [f for f in self.fields() if f.init]

    def is_subclass_of(self, other: "Cls") -> bool:
        return other in self.mro()

    def enum_kind(self) -> t.Optional[str]:
        for c in self.mro():
            for e in c.ext_bases:
                if e in ("enum.Enum", "enum.IntEnum", "enum.IntFlag", "enum.Flag"):
                    return e
        return None

    def __repr__(self) -> str:
        return f"<Cls {self.qual}>"


_MUT_CACHE: t.Dict[t.Tuple[int, str], bool] = {}


def mutated_global(mod: t.Any, name: str) -> bool:
    """The module stores into / calls a mutating method on the module level container `name` somewhere."""
    key = (id(mod.tree), name)
    if key not in _MUT_CACHE:
        hit = False
        for n in ast.walk(mod.tree):
            if isinstance(n, (ast.Subscript, ast.Attribute)) and isinstance(n.ctx, (ast.Store, ast.Del)) and isinstance(n.value, ast.Name) and n.value.id == name:
                hit = True
            elif isinstance(n, ast.Call) and isinstance(n.func, ast.Attribute) and isinstance(n.func.value, ast.Name) and n.func.value.id == name and n.func.attr in ("append", "extend", "insert", "pop", "popitem", "clear", "update", "setdefault", "add", "discard", "remove", "sort", "reverse", "__setitem__", "__delitem__"):
                hit = True
            elif isinstance(n, ast.AugAssign) and isinstance(n.target, ast.Name) and n.target.id == name:
                hit = True
            elif isinstance(n, ast.Global) and name in n.names:
                hit = True
        _MUT_CACHE[key] = hit
    return _MUT_CACHE[key]


class Func:
    def __init__(self, qual: str, node: t.Union[ast.FunctionDef, ast.AsyncFunctionDef], mod: Mod, cls: t.Optional[Cls]) -> None:
        self.qual = qual
        self.name = node.name
        self.node = node
        self.mod = mod
        self.cls = cls
        self.is_async = isinstance(node, ast.AsyncFunctionDef)
        decs = [unparse(d) for d in node.decorator_list]
        self.is_classmethod = "classmethod" in decs
        self.is_staticmethod = "staticmethod" in decs
        self.is_property = "property" in decs
        self.decorators = decs

    @property
    def params(self) -> t.List[str]:
        a = self.node.args
        return [x.arg for x in (a.posonlyargs + a.args + a.kwonlyargs)]

    def param_default(self, name: str) -> t.Optional[ast.expr]:
        a = self.node.args
        pos = a.posonlyargs + a.args
        defaults = [None] * (len(pos) - len(a.defaults)) + list(a.defaults)
        for p, d in zip(pos, defaults):
            if p.arg == name:
                return d
        for p, d in zip(a.kwonlyargs, a.kw_defaults):
            if p.arg == name:
                return d
        return None

    @property
    def file(self) -> str:
        return self.mod.rel

    def __repr__(self) -> str:
        return f"<Func {self.qual}>"


class Unfoldable(Exception):
    pass


class Obj:
    """A folded literal construction ``Cls(a=1, ...)`` (dataclass / NamedTuple)."""

    def __init__(self, cls: Cls, attrs: t.Dict[str, t.Any]) -> None:
        self.cls = cls
        self.attrs = attrs

    def __repr__(self) -> str:
        return f"{self.cls.name}({', '.join(f'{k}={v!r}' for k, v in self.attrs.items())})"

    def __eq__(self, other: object) -> bool:
        return isinstance(other, Obj) and other.cls is self.cls and other.attrs == self.attrs

    def __hash__(self) -> int:  # pragma: no cover
        return hash(self.cls.qual)


class EnumVal:
    def __init__(self, cls: Cls, name: str, value: t.Any) -> None:
        self.cls = cls
        self.name = name
        self.value = value

    def __repr__(self) -> str:
        return f"{self.cls.name}.{self.name}"

    def __eq__(self, other: object) -> bool:
        if isinstance(other, EnumVal):
            return self.cls is other.cls and self.value == other.value
        return False

    def __hash__(self) -> int:
        return hash((self.cls.qual, self.value))


class Repo:
    def __init__(self, root: t.Optional[str] = None) -> None:
        self.root = root or REPO_ROOT
        self.pkg_dir = os.path.join(self.root, PKG_REL)
        if not os.path.isdir(self.pkg_dir):
            raise AnalysisError(f"package directory {self.pkg_dir} not found")
        self.modules: t.Dict[str, Mod] = {}
        self.classes: t.Dict[str, Cls] = {}
        self.funcs: t.Dict[str, Func] = {}
        self.moved: t.Dict[str, str] = {}  # anchor asked for -> where the (unique) definition of that name lives now
        self._load()

    # ------------------------------------------------------------------ load
    def _load(self) -> None:
        for dirpath, dirnames, filenames in os.walk(self.pkg_dir):
            dirnames[:] = sorted(d for d in dirnames if d != "__pycache__")
            for fn in sorted(filenames):
                if not fn.endswith(".py"):
                    continue
                path = os.path.join(dirpath, fn)
                rel = os.path.relpath(path, self.root)
                sub = os.path.relpath(path, self.pkg_dir)[:-3].replace(os.sep, ".")
                if sub.endswith("__init__"):
                    sub = sub[: -len("__init__")].rstrip(".")
                name = sub
                with open(path, encoding="utf-8") as fh:
                    src = fh.read()
                try:
                    self.modules[name] = Mod(name, path, rel, src)
                except SyntaxError as e:
                    raise AnalysisError(f"{rel} does not parse: {e}")
        for mod in self.modules.values():
            self._scan_imports(mod)
        for mod in self.modules.values():
            self._scan_defs(mod)
        for cls in self.classes.values():
            self._resolve_bases(cls)

    def digest(self) -> str:
        h = hashlib.sha256()
        for name in sorted(self.modules):
            h.update(name.encode())
            h.update(self.modules[name].source.encode())
        return h.hexdigest()

    def _pkg_of(self, mod: Mod) -> str:
        if mod.is_pkg:
            return mod.name
        return mod.name.rpartition(".")[0]

    def _scan_imports(self, mod: Mod) -> None:
        for node in ast.walk(mod.tree):
            if isinstance(node, ast.Import):
                for a in node.names:
                    local = a.asname or a.name.split(".")[0]
                    mod.imports[local] = ("ext", a.name if a.asname else a.name.split(".")[0])
            elif isinstance(node, ast.ImportFrom):
                if node.level:
                    base = self._pkg_of(mod)
                    for _ in range(node.level - 1):
                        base = base.rpartition(".")[0]
                    target = ".".join(x for x in (base, node.module or "") if x)
                    for a in node.names:
                        local = a.asname or a.name
                        sub = ".".join(x for x in (target, a.name) if x)
                        if sub in self.modules and (target not in self.modules or not node.module):
                            mod.imports[local] = ("mod", sub)
                        else:
                            mod.imports[local] = ("sym", target, a.name)
                else:
                    for a in node.names:
                        local = a.asname or a.name
                        mod.imports[local] = ("ext", f"{node.module}.{a.name}")

    def _scan_defs(self, mod: Mod) -> None:
        for node in mod.tree.body:
            if isinstance(node, (ast.FunctionDef, ast.AsyncFunctionDef)):
                q = f"{mod.name}.{node.name}" if mod.name else node.name
                self.funcs[q] = Func(q, node, mod, None)
            elif isinstance(node, ast.ClassDef):
                q = f"{mod.name}.{node.name}" if mod.name else node.name
                cls = Cls(q, node, mod)
                self.classes[q] = cls
                self._scan_class(cls)
            elif isinstance(node, ast.Assign) and len(node.targets) == 1 and isinstance(node.targets[0], ast.Name):
                mod.consts[node.targets[0].id] = node.value
            elif isinstance(node, ast.AnnAssign) and isinstance(node.target, ast.Name) and node.value is not None:
                mod.consts[node.target.id] = node.value

    def _scan_class(self, cls: Cls) -> None:
        for d in cls.decorators:
            txt = unparse(d)
            if txt.startswith("dataclasses.dataclass") or txt.startswith("dataclass"):
                cls.is_dataclass = True
                if isinstance(d, ast.Call):
                    for kw in d.keywords:
                        if kw.arg == "frozen" and isinstance(kw.value, ast.Constant):
                            cls.frozen = bool(kw.value.value)
        for node in cls.node.body:
            if isinstance(node, (ast.FunctionDef, ast.AsyncFunctionDef)):
                q = f"{cls.qual}.{node.name}"
                f = Func(q, node, cls.mod, cls)
                cls.methods[node.name] = f
                self.funcs[q] = f
            elif isinstance(node, ast.AnnAssign) and isinstance(node.target, ast.Name):
                default = node.value
                init = True
                if isinstance(default, ast.Call) and unparse(default.func) in ("dataclasses.field", "field"):
                    dv = None
                    for kw in default.keywords:
                        if kw.arg == "default":
                            dv = kw.value
                        elif kw.arg == "init" and isinstance(kw.value, ast.Constant):
                            init = bool(kw.value.value)
                    default = dv
                cls.own_fields.append(Field(node.target.id, node.annotation, default, init, cls.qual))
                if default is not None:
                    cls.class_consts[node.target.id] = default
            elif isinstance(node, ast.Assign) and len(node.targets) == 1 and isinstance(node.targets[0], ast.Name):
                cls.class_consts[node.targets[0].id] = node.value

    def _resolve_bases(self, cls: Cls) -> None:
        for b in cls.base_exprs:
            r = self.resolve(b, cls.mod)
            if isinstance(r, Cls):
                cls.bases.append(r)
            else:
                cls.ext_bases.append(self.dotted(b, cls.mod))
        # NamedTuple classes behave like dataclasses for field tables
        if any(e in ("typing.NamedTuple", "t.NamedTuple") or e.endswith("NamedTuple") for e in cls.ext_bases):
            cls.is_dataclass = True

    # --------------------------------------------------------------- lookups
    def mod(self, name: str) -> Mod:
        if name not in self.modules:
            raise AnalysisError(f"anchor module {name!r} not found")
        return self.modules[name]

    def func(self, qual: str) -> Func:
        if qual not in self.funcs:
            # moved to another module of the package: the same (Class.)name, defined exactly once elsewhere
            parts = qual.split(".")
            tail = parts[-2:] if len(parts) >= 2 and parts[-2][:1].isupper() else parts[-1:]
            cands = [f for q, f in self.funcs.items() if q.split(".")[-len(tail):] == tail and (len(tail) == 2 or f.cls is None)]
            if len(cands) == 1:
                self.moved[qual] = cands[0].qual
                return cands[0]
            raise AnalysisError(f"anchor function {qual!r} not found")
        return self.funcs[qual]

    def cls(self, qual: str) -> Cls:
        if qual not in self.classes:
            name = qual.split(".")[-1]
            cands = [c for q, c in self.classes.items() if q.split(".")[-1] == name]
            if len(cands) == 1:
                self.moved[qual] = cands[0].qual
                return cands[0]
            raise AnalysisError(f"anchor class {qual!r} not found")
        return self.classes[qual]

    def method(self, cqual: str, name: str) -> Func:
        c = self.cls(cqual)
        f = c.find_method(name)
        if f is None:
            raise AnalysisError(f"anchor method {cqual}.{name} not found")
        return f

    def subclasses(self, cls: Cls) -> t.List[Cls]:
        return [c for c in self.classes.values() if c is not cls and cls in c.mro()]

    def dotted(self, expr: ast.expr, mod: Mod) -> str:
        """Dotted name of an expression with the head import-resolved for externals."""
        parts: t.List[str] = []
        cur: ast.expr = expr
        while isinstance(cur, ast.Attribute):
            parts.append(cur.attr)
            cur = cur.value
        if isinstance(cur, ast.Name):
            head = cur.id
            imp = mod.imports.get(head)
            if imp and imp[0] == "ext":
                head = imp[1]
            elif imp and imp[0] == "sym":
                head = f"{imp[1]}.{imp[2]}" if imp[1] else imp[2]
            elif imp and imp[0] == "mod":
                head = imp[1]
            parts.append(head)
            return ".".join(reversed(parts))
        return unparse(expr)

    def resolve_name(self, name: str, mod: Mod, _seen: t.Optional[set] = None) -> t.Any:
        """Resolve a module-level name to Cls | Func | Mod | ("const", mod, expr) | None."""
        _seen = _seen or set()
        key = (mod.name, name)
        if key in _seen:
            return None
        _seen.add(key)
        q = f"{mod.name}.{name}" if mod.name else name
        if q in self.classes:
            return self.classes[q]
        if q in self.funcs:
            return self.funcs[q]
        if name in mod.consts:
            return ("const", mod, mod.consts[name])
        imp = mod.imports.get(name)
        if imp:
            if imp[0] == "mod":
                return self.modules.get(imp[1])
            if imp[0] == "sym":
                target = self.modules.get(imp[1])
                if target is not None:
                    return self.resolve_name(imp[2], target, _seen)
                return None
            return None
        return None

    def resolve(self, expr: ast.expr, mod: Mod) -> t.Any:
        """Resolve Name / dotted Attribute to a package entity (Cls, Func, Mod, const) or None."""
        if isinstance(expr, ast.Name):
            return self.resolve_name(expr.id, mod)
        if isinstance(expr, ast.Attribute):
            base = self.resolve(expr.value, mod)
            if isinstance(base, Mod):
                return self.resolve_name(expr.attr, base)
            if isinstance(base, Cls):
                m = base.find_method(expr.attr)
                if m is not None:
                    return m
                for c in base.mro():
                    if expr.attr in c.class_consts:
                        return ("const", c.mod, c.class_consts[expr.attr], c)
                return None
        return None

    # ---------------------------------------------------------- registries
    def registry(self, decorator_name: str) -> t.Dict[t.Any, Cls]:
        """Classes decorated with @register_x(...) / @register_x keyed by folded argument or field default."""
        out: t.Dict[t.Any, Cls] = {}
        for cls in self.classes.values():
            for d in cls.decorators:
                if isinstance(d, ast.Call) and unparse(d.func) == decorator_name:
                    arg0 = d.args[0] if d.args else (d.keywords[0].value if len(d.keywords) == 1 else None)
                    key = self.fold(arg0, cls.mod) if arg0 is not None else None
                    out[key] = cls
                elif isinstance(d, ast.Name) and d.id == decorator_name:
                    out[cls.qual] = cls
        return out

    # ------------------------------------------------------------- folding
    def enum_members(self, cls: Cls) -> t.Dict[str, t.Any]:
        out: t.Dict[str, t.Any] = {}
        for c in reversed(cls.mro()):
            for k, v in c.class_consts.items():
                if k.startswith("_"):
                    continue
                try:
                    out[k] = self.fold(v, c.mod)
                except Unfoldable:
                    pass
        return out

    def fold(self, expr: ast.expr, mod: Mod, env: t.Optional[t.Dict[str, t.Any]] = None, _depth: int = 0) -> t.Any:
        """Fold a literal expression to a Python value, Obj, or EnumVal; raise Unfoldable otherwise."""
        if _depth > 40:
            raise Unfoldable("depth")
        f = lambda e: self.fold(e, mod, env, _depth + 1)  # noqa: E731
        if isinstance(expr, ast.Constant):
            return expr.value
        if isinstance(expr, ast.Name):
            if env is not None and expr.id in env:
                return env[expr.id]
            r = self.resolve_name(expr.id, mod)
            if isinstance(r, tuple) and r[0] == "const":
                if len(r) == 3 and isinstance(r[2], (ast.Dict, ast.List, ast.Set, ast.DictComp, ast.ListComp, ast.SetComp, ast.Call)) and mutated_global(r[1], expr.id):
                    # a module level container that the module writes to is state, not a constant table
                    raise Unfoldable(f"{expr.id} is written to")
                return self.fold(r[2], r[1], None, _depth + 1)
            if isinstance(r, (Cls, Func)):
                return r
            if expr.id in ("True", "False", "None"):
                return {"True": True, "False": False, "None": None}[expr.id]
            raise Unfoldable(expr.id)
        if isinstance(expr, ast.Attribute):
            # enum member / class constant / attribute of folded object
            r = self.resolve(expr.value, mod)
            if isinstance(r, Cls):
                kind = r.enum_kind()
                for c in r.mro():
                    if expr.attr in c.class_consts:
                        v = self.fold(c.class_consts[expr.attr], c.mod, None, _depth + 1)
                        if kind and not expr.attr.startswith("_"):
                            return EnumVal(r, expr.attr, v)
                        return v
                m = r.find_method(expr.attr)
                if m is not None:
                    return m
                raise Unfoldable(unparse(expr))
            if isinstance(r, Mod):
                rr = self.resolve_name(expr.attr, r)
                if isinstance(rr, tuple) and rr[0] == "const":
                    return self.fold(rr[2], rr[1], None, _depth + 1)
                if isinstance(rr, (Cls, Func)):
                    return rr
                raise Unfoldable(unparse(expr))
            base = f(expr.value)
            if isinstance(base, Obj):
                if expr.attr in base.attrs:
                    return base.attrs[expr.attr]
                fld = base.cls.field(expr.attr)
                if fld is not None and fld.default is not None:
                    return self.fold(fld.default, self.classes[fld.owner].mod, None, _depth + 1)
                raise Unfoldable(unparse(expr))
            if isinstance(base, EnumVal):
                if expr.attr == "value":
                    return base.value
                if expr.attr == "name":
                    return base.name
            raise Unfoldable(unparse(expr))
        if isinstance(expr, ast.Compare) and all(isinstance(o, (ast.Eq, ast.NotEq, ast.Lt, ast.LtE, ast.Gt, ast.GtE)) for o in expr.ops):
            vals = [f(x) for x in [expr.left] + list(expr.comparators)]
            vals = [x.value if isinstance(x, EnumVal) and isinstance(x.value, int) else x for x in vals]
            if all(isinstance(x, (int, str, bytes)) and not isinstance(x, bool) for x in vals) and len({type(x) for x in vals}) == 1:
                import operator as _op

                fn_ = {ast.Eq: _op.eq, ast.NotEq: _op.ne, ast.Lt: _op.lt, ast.LtE: _op.le, ast.Gt: _op.gt, ast.GtE: _op.ge}
                return all(fn_[type(o)](a_, b_) for o, a_, b_ in zip(expr.ops, vals, vals[1:]))
            raise Unfoldable(unparse(expr))
        if isinstance(expr, ast.BoolOp):
            vals2 = [f(x) for x in expr.values]
            if all(isinstance(x, (bool, int)) for x in vals2):
                return all(vals2) if isinstance(expr.op, ast.And) else any(vals2)
            raise Unfoldable(unparse(expr))
        if isinstance(expr, ast.UnaryOp):
            v = f(expr.operand)
            if isinstance(v, EnumVal):
                v = v.value
            if isinstance(expr.op, ast.USub):
                return -v
            if isinstance(expr.op, ast.UAdd):
                return +v
            if isinstance(expr.op, ast.Invert):
                return ~v
            if isinstance(expr.op, ast.Not):
                return not v
        if isinstance(expr, ast.BinOp):
            a, b = f(expr.left), f(expr.right)
            ea = a if isinstance(a, EnumVal) else None
            if isinstance(a, EnumVal):
                a = a.value
            if isinstance(b, EnumVal):
                b = b.value
            try:
                op = expr.op
                if isinstance(op, ast.Add):
                    return a + b
                if isinstance(op, ast.Sub):
                    return a - b
                if isinstance(op, ast.Mult):
                    return a * b
                if isinstance(op, ast.FloorDiv):
                    return a // b
                if isinstance(op, ast.Mod):
                    return a % b
                if isinstance(op, ast.Pow):
                    if isinstance(b, int) and abs(b) > 4096:
                        raise Unfoldable("pow")
                    return a**b
                if isinstance(op, ast.LShift):
                    return a << b
                if isinstance(op, ast.RShift):
                    return a >> b
                if isinstance(op, ast.BitOr):
                    return a | b
                if isinstance(op, ast.BitAnd):
                    return a & b
                if isinstance(op, ast.BitXor):
                    return a ^ b
                if isinstance(op, ast.Div):
                    return a / b
            except Unfoldable:
                raise
            except Exception as e:
                raise Unfoldable(str(e))
            del ea
        if isinstance(expr, (ast.List, ast.Tuple)):
            vals = [f(e) for e in expr.elts]
            return vals if isinstance(expr, ast.List) else tuple(vals)
        if isinstance(expr, ast.Dict):
            return {f(k): f(v) for k, v in zip(expr.keys, expr.values) if k is not None}
        if isinstance(expr, (ast.DictComp, ast.ListComp, ast.SetComp, ast.GeneratorExp)) and len(expr.generators) == 1 and not expr.generators[0].is_async:
            # a comprehension over a constant iterable with a foldable element: {v: k for k, v in TABLE.items()}
            g = expr.generators[0]
            it = g.iter
            if isinstance(it, ast.Call) and isinstance(it.func, ast.Attribute) and it.func.attr in ("items", "keys", "values") and not it.args:
                base = f(it.func.value)
                if not isinstance(base, dict):
                    raise Unfoldable("comprehension over a non-dict")
                seq: t.List[t.Any] = list(getattr(base, it.func.attr)())
            else:
                seqv = f(it)
                if not isinstance(seqv, (list, tuple, dict, range)):
                    raise Unfoldable("comprehension over a non-constant")
                seq = list(seqv)
            if len(seq) > 256:
                raise Unfoldable("comprehension too large")
            out_items: t.List[t.Any] = []
            for item in seq:
                env2 = dict(env or {})
                tg = g.target
                if isinstance(tg, ast.Name):
                    env2[tg.id] = item
                elif isinstance(tg, (ast.Tuple, ast.List)) and all(isinstance(x, ast.Name) for x in tg.elts) and isinstance(item, (tuple, list)) and len(item) == len(tg.elts):
                    for x, v_ in zip(tg.elts, item):
                        env2[x.id] = v_  # type: ignore[attr-defined]
                else:
                    raise Unfoldable("comprehension target")
                if not all(self.fold(c, mod, env2, _depth + 1) for c in g.ifs):
                    continue
                if isinstance(expr, ast.DictComp):
                    out_items.append((self.fold(expr.key, mod, env2, _depth + 1), self.fold(expr.value, mod, env2, _depth + 1)))
                else:
                    out_items.append(self.fold(expr.elt, mod, env2, _depth + 1))
            if isinstance(expr, ast.DictComp):
                return dict(out_items)
            return set(out_items) if isinstance(expr, ast.SetComp) else out_items
        if isinstance(expr, ast.Subscript):
            base = f(expr.value)
            if isinstance(expr.slice, ast.Slice):
                lo = f(expr.slice.lower) if expr.slice.lower else None
                hi = f(expr.slice.upper) if expr.slice.upper else None
                try:
                    return base[lo:hi]
                except Exception as e:
                    raise Unfoldable(str(e))
            idx = f(expr.slice)
            try:
                return base[idx]
            except Exception as e:
                raise Unfoldable(str(e))
        if isinstance(expr, ast.JoinedStr):
            out = ""
            for v in expr.values:
                if isinstance(v, ast.Constant):
                    out += str(v.value)
                elif isinstance(v, ast.FormattedValue) and v.format_spec is None and v.conversion == -1:
                    out += str(f(v.value))
                else:
                    raise Unfoldable("fstring")
            return out
        if isinstance(expr, ast.Call):
            fn = expr.func
            # "text".encode("utf-16-le")
            if isinstance(fn, ast.Attribute) and fn.attr == "encode" and not expr.keywords:
                base = f(fn.value)
                if isinstance(base, str):
                    enc = f(expr.args[0]) if expr.args else "utf-8"
                    return base.encode(enc)
            if isinstance(fn, ast.Attribute) and fn.attr == "to_bytes":
                base = f(fn.value)
                if isinstance(base, EnumVal):
                    base = base.value
                if isinstance(base, int):
                    args = [f(a) for a in expr.args]
                    kws = {k.arg: f(k.value) for k in expr.keywords if k.arg}
                    try:
                        return base.to_bytes(*args, **kws)
                    except Exception as e:
                        raise Unfoldable(str(e))
            if isinstance(fn, ast.Attribute) and fn.attr == "from_bytes" and isinstance(fn.value, ast.Name) and fn.value.id == "int" and expr.args:
                args = [f(a) for a in expr.args]
                kws = {k.arg: f(k.value) for k in expr.keywords if k.arg}
                if isinstance(args[0], (bytes, bytearray)):
                    try:
                        return int.from_bytes(*args, **kws)
                    except Exception as e:
                        raise Unfoldable(str(e))
            dotted = self.dotted(fn, mod)
            if dotted == "uuid.UUID":
                import uuid as _uuid

                def plain(v: t.Any) -> t.Any:
                    if isinstance(v, EnumVal):
                        return v.value
                    if isinstance(v, tuple):
                        return tuple(plain(x) for x in v)
                    return v

                args = [plain(f(a)) for a in expr.args]
                kws = {k.arg: plain(f(k.value)) for k in expr.keywords if k.arg}
                try:
                    return _uuid.UUID(*args, **kws)
                except Exception as e:
                    raise Unfoldable(str(e))
            if dotted in ("len",) and len(expr.args) == 1:
                return len(f(expr.args[0]))
            if dotted in ("int", "bytes", "str", "bool") and len(expr.args) == 1:
                v = f(expr.args[0])
                if isinstance(v, EnumVal):
                    v = v.value
                return {"int": int, "bytes": bytes, "str": str, "bool": bool}[dotted](v)
            r = self.resolve(fn, mod)
            if isinstance(r, Cls):
                if r.enum_kind():
                    v = f(expr.args[0])
                    for k, mv in self.enum_members(r).items():
                        if mv == v:
                            return EnumVal(r, k, mv)
                    return EnumVal(r, f"<{v}>", v)
                if r.is_dataclass:
                    params = r.init_params()
                    attrs: t.Dict[str, t.Any] = {}
                    if len(expr.args) > len(params):
                        raise Unfoldable("too many args")
                    for p, a in zip(params, expr.args):
                        attrs[p.name] = f(a)
                    for kw in expr.keywords:
                        if kw.arg is None:
                            raise Unfoldable("**kw")
                        attrs[kw.arg] = f(kw.value)
                    return Obj(r, attrs)
            if isinstance(r, Func) and r.cls is None:
                # inline a pure one-expression function: def f(a, b): return <expr>
                body = [s for s in r.node.body if not (isinstance(s, ast.Expr) and isinstance(s.value, ast.Constant))]
                if len(body) == 1 and isinstance(body[0], ast.Return) and body[0].value is not None:
                    sub: t.Dict[str, t.Any] = {}
                    names = r.params
                    for n, a in zip(names, expr.args):
                        sub[n] = f(a)
                    for kw in expr.keywords:
                        if kw.arg:
                            sub[kw.arg] = f(kw.value)
                    for n in names:
                        if n not in sub:
                            d = r.param_default(n)
                            if d is None:
                                raise Unfoldable("missing arg")
                            sub[n] = self.fold(d, r.mod, None, _depth + 1)
                    return self.fold(body[0].value, r.mod, sub, _depth + 1)
        raise Unfoldable(unparse(expr))

    def try_fold(self, expr: t.Optional[ast.expr], mod: Mod, env: t.Optional[t.Dict[str, t.Any]] = None) -> t.Tuple[bool, t.Any]:
        if expr is None:
            return False, None
        try:
            return True, self.fold(expr, mod, env)
        except Unfoldable:
            return False, None
        except RecursionError:
            return False, None


# --------------------------------------------------------------------- helpers
def body_nodes(fn: t.Union[ast.FunctionDef, ast.AsyncFunctionDef, ast.Lambda]) -> t.Iterator[ast.AST]:
    """All nodes of a function body, not descending into nested defs/lambdas/classes."""
    stack: t.List[ast.AST] = list(fn.body) if not isinstance(fn, ast.Lambda) else [fn.body]
    while stack:
        n = stack.pop()
        yield n
        for c in ast.iter_child_nodes(n):
            if isinstance(c, (ast.FunctionDef, ast.AsyncFunctionDef, ast.Lambda, ast.ClassDef)):
                continue
            stack.append(c)


def calls_in(fn: t.Union[ast.FunctionDef, ast.AsyncFunctionDef]) -> t.List[ast.Call]:
    out = [n for n in body_nodes(fn) if isinstance(n, ast.Call)]
    out.sort(key=lambda n: (n.lineno, n.col_offset))
    return out


def strip_docstring(body: t.List[ast.stmt]) -> t.List[ast.stmt]:
    if body and isinstance(body[0], ast.Expr) and isinstance(body[0].value, ast.Constant) and isinstance(body[0].value.value, str):
        return body[1:]
    return body


def call_arg(call: ast.Call, pos: int, name: t.Optional[str]) -> t.Optional[ast.expr]:
    if name:
        for kw in call.keywords:
            if kw.arg == name:
                return kw.value
    if pos is not None and 0 <= pos < len(call.args):
        a = call.args[pos]
        if not isinstance(a, ast.Starred):
            return a
    return None


def bind_args(call: ast.Call, params: t.List[str]) -> t.Dict[str, ast.expr]:
    """Map parameter names to argument expressions (positional then keyword)."""
    out: t.Dict[str, ast.expr] = {}
    for p, a in zip(params, call.args):
        if isinstance(a, ast.Starred):
            break
        out[p] = a
    for kw in call.keywords:
        if kw.arg:
            out[kw.arg] = kw.value
    return out
