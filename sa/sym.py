"""Symbolic value domain shared by the layout, provenance and constant engines.

Integers are linear expressions over opaque *atoms* with a canonical form, so that
``8 + 8 + len(sd) + (-len(sd) % 8)`` extracted from a writer and
``16 + n + (-n % 8)`` extracted from a reader compare equal once ``n`` has been
identified with ``len(sd)``.  Nothing here evaluates program code; these are the
abstract values of a syntax directed abstract interpretation.
"""

from __future__ import annotations

import typing as t

Atom = t.Tuple[t.Any, ...]


class Lin:
    """const + sum(coef * atom) with integer coefficients; immutable, canonical."""

    __slots__ = ("const", "terms", "_key")

    def __init__(self, const: int = 0, terms: t.Optional[t.Dict[Atom, int]] = None) -> None:
        self.const = int(const)
        self.terms = {a: c for a, c in (terms or {}).items() if c != 0}
        self._key: t.Optional[t.Tuple[t.Any, ...]] = None

    @staticmethod
    def atom(a: Atom) -> "Lin":
        return Lin(0, {a: 1})

    @staticmethod
    def of(v: t.Union[int, "Lin"]) -> "Lin":
        return v if isinstance(v, Lin) else Lin(int(v))

    def is_const(self) -> bool:
        return not self.terms

    def key(self) -> t.Tuple[t.Any, ...]:
        if self._key is None:
            self._key = (self.const, tuple(sorted(((repr(a), c) for a, c in self.terms.items()))))
        return self._key

    def __eq__(self, other: object) -> bool:
        if isinstance(other, int):
            return self.is_const() and self.const == other
        return isinstance(other, Lin) and self.key() == other.key()

    def __hash__(self) -> int:
        return hash(self.key())

    def __add__(self, o: t.Union[int, "Lin"]) -> "Lin":
        o = Lin.of(o)
        terms = dict(self.terms)
        for a, c in o.terms.items():
            terms[a] = terms.get(a, 0) + c
        return Lin(self.const + o.const, terms)

    __radd__ = __add__

    def __neg__(self) -> "Lin":
        return Lin(-self.const, {a: -c for a, c in self.terms.items()})

    def __sub__(self, o: t.Union[int, "Lin"]) -> "Lin":
        return self + (-Lin.of(o))

    def __rsub__(self, o: t.Union[int, "Lin"]) -> "Lin":
        return Lin.of(o) - self

    def scale(self, k: int) -> "Lin":
        return Lin(self.const * k, {a: c * k for a, c in self.terms.items()})

    def subst(self, mapping: t.Dict[Atom, "Lin"]) -> "Lin":
        out = Lin(self.const)
        for a, c in self.terms.items():
            a2 = _subst_atom(a, mapping)
            if a2 in mapping:
                out = out + mapping[a2].scale(c)
            elif isinstance(a2, Lin):
                out = out + a2.scale(c)
            else:
                out = out + Lin(0, {a2: c})
        return out

    def atoms(self) -> t.Set[Atom]:
        out: t.Set[Atom] = set()
        for a in self.terms:
            out.add(a)
            out |= _atoms_in(a)
        return out

    def __repr__(self) -> str:
        parts: t.List[str] = []
        for a, c in sorted(self.terms.items(), key=lambda kv: repr(kv[0])):
            s = atom_str(a)
            parts.append(s if c == 1 else (f"-{s}" if c == -1 else f"{c}*{s}"))
        if self.const or not parts:
            parts.append(str(self.const))
        return " + ".join(parts).replace("+ -", "- ")


def atom_str(a: Atom) -> str:
    k = a[0]
    if k == "len":
        return f"len({a[1]})"
    if k == "mod":
        return f"({a[2]!r} % {a[1]})"
    if k == "field":
        return str(a[1])
    if k == "read":
        return f"<{a[1]}>"
    if k == "var":
        return str(a[1])
    if k == "end":
        return f"END({a[1]})"
    if k == "floordiv":
        return f"({a[1]!r} // {a[2]!r})"
    return "(" + " ".join(str(x) for x in a) + ")"


def _atoms_in(a: Atom) -> t.Set[Atom]:
    out: t.Set[Atom] = set()
    for x in a[1:]:
        if isinstance(x, Lin):
            out |= x.atoms()
    return out


def _subst_atom(a: Atom, mapping: t.Dict[Atom, Lin]) -> t.Any:
    if a in mapping:
        return a
    if any(isinstance(x, Lin) for x in a[1:]):
        new = tuple(x.subst(mapping) if isinstance(x, Lin) else x for x in a[1:])
        if a[0] == "mod":
            return mod(new[1], new[0])  # may return Lin
        if a[0] == "floordiv" and isinstance(new[0], Lin) and isinstance(new[1], Lin):
            return floordiv(new[0], new[1])
        return (a[0],) + new
    return a


def mod(x: Lin, m: int) -> Lin:
    """Canonical x % m for a positive constant modulus."""
    if m <= 0:
        return Lin.atom(("opaque-mod", x, m))
    # flatten nested moduli whose modulus is a multiple of m: (B % m') % m == B % m
    flat = Lin(x.const)
    for a, c in x.terms.items():
        if a[0] == "mod" and isinstance(a[1], int) and a[1] % m == 0:
            flat = flat + t.cast(Lin, a[2]).scale(c)
        else:
            flat = flat + Lin(0, {a: c})
    red = Lin(flat.const % m, {a: c % m for a, c in flat.terms.items()})
    if red.is_const():
        return Lin(red.const % m)
    return Lin.atom(("mod", m, red))


def floordiv(x: Lin, y: Lin) -> Lin:
    if x.is_const() and y.is_const() and y.const != 0:
        return Lin(x.const // y.const)
    # (k*X + c) // k = X for 0 <= c < k and integer X (every coefficient a multiple of k): ceil-division of an exact multiple
    if y.is_const() and y.const > 0 and x.terms and all(c % y.const == 0 for c in x.terms.values()) and 0 <= x.const % y.const == x.const - (x.const // y.const) * y.const:
        k = y.const
        q = Lin(x.const // k)
        for a, c in x.terms.items():
            q = q + Lin.atom(a).scale(c // k)
        return q
    return Lin.atom(("floordiv", x, y))


# ------------------------------------------------------------------ other values
class Unknown:
    """A value the engine does not model; carries a description for diagnostics."""

    def __init__(self, what: str) -> None:
        self.what = what

    def __repr__(self) -> str:
        return f"?{self.what}"

    def __eq__(self, other: object) -> bool:
        return isinstance(other, Unknown) and other.what == self.what

    def __hash__(self) -> int:
        return hash(self.what)


class Ref:
    """A reference to program data: ``self.l0``, a parameter, ``self.uuid.bytes_le`` ..."""

    def __init__(self, path: str) -> None:
        self.path = path

    def __repr__(self) -> str:
        return self.path

    def __eq__(self, other: object) -> bool:
        return isinstance(other, Ref) and other.path == self.path

    def __hash__(self) -> int:
        return hash(("ref", self.path))


class Seg:
    """One segment of a byte string built by a writer.

    kind: int | lit | raw | str | pad | nested | repeat | cond | uuid
    """

    def __init__(self, kind: str, width: t.Optional[Lin], **kw: t.Any) -> None:
        self.kind = kind
        self.width = width
        self.a = kw

    def __getattr__(self, name: str) -> t.Any:
        try:
            return self.__dict__["a"][name]
        except KeyError:
            raise AttributeError(name)

    def describe(self) -> t.Dict[str, t.Any]:
        d: t.Dict[str, t.Any] = {"kind": self.kind, "width": repr(self.width)}
        for k, v in self.a.items():
            if k in ("body", "then", "orelse"):
                d[k] = [s.describe() for s in v]
            elif isinstance(v, bytes):
                d[k] = v.hex()
            else:
                d[k] = repr(v) if not isinstance(v, (str, int, bool, type(None))) else v
        return d

    def __repr__(self) -> str:
        return f"Seg({self.describe()})"


class SBytes:
    def __init__(self, segs: t.Sequence[Seg]) -> None:
        self.segs = list(segs)

    def length(self) -> t.Optional[Lin]:
        total = Lin(0)
        for s in self.segs:
            if s.width is None:
                return None
            total = total + s.width
        return total

    def __add__(self, other: "SBytes") -> "SBytes":
        return SBytes(self.segs + other.segs)

    def __repr__(self) -> str:
        return f"SBytes({self.segs})"


class SStr:
    """A string: list of literal parts and Refs; encoded length atoms are derived from it."""

    def __init__(self, parts: t.Sequence[t.Union[str, Ref, Unknown]]) -> None:
        merged: t.List[t.Union[str, Ref, Unknown]] = []
        for p in parts:
            if isinstance(p, str) and merged and isinstance(merged[-1], str):
                merged[-1] = t.cast(str, merged[-1]) + p
            elif p != "":
                merged.append(p)
        self.parts = merged

    def is_const(self) -> bool:
        return all(isinstance(p, str) for p in self.parts)

    def const(self) -> str:
        return "".join(t.cast(str, p) for p in self.parts)

    def __add__(self, o: "SStr") -> "SStr":
        return SStr(self.parts + o.parts)

    def __eq__(self, other: object) -> bool:
        return isinstance(other, SStr) and other.parts == self.parts

    def __hash__(self) -> int:
        return hash(tuple(repr(p) for p in self.parts))

    def __repr__(self) -> str:
        return "SStr(" + " ".join(repr(p) for p in self.parts) + ")"


class SObj:
    def __init__(self, cls: t.Any, fields: t.Dict[str, t.Any], ref: t.Optional[str] = None) -> None:
        self.cls = cls
        self.fields = fields
        self.ref = ref

    def __repr__(self) -> str:
        n = getattr(self.cls, "name", str(self.cls))
        return f"{n}({', '.join(f'{k}={v!r}' for k, v in self.fields.items())})"


class STuple:
    def __init__(self, items: t.Sequence[t.Any], names: t.Optional[t.Sequence[str]] = None) -> None:
        self.items = list(items)
        self.names = list(names) if names is not None else None  # a NamedTuple value: fields by name as well

    def __repr__(self) -> str:
        return f"STuple{tuple(self.items)!r}"

    def __getattr__(self, name: str) -> t.Any:
        # a NamedTuple value also answers like a constructed object: .fields = {name: item}
        if name == "fields":
            names = self.__dict__.get("names")
            if names is not None:
                return dict(zip(names, self.__dict__["items"]))
        raise AttributeError(name)



def eval_lin(x: "Lin", env: t.Dict[Atom, int]) -> t.Optional[int]:
    """Value of a linear form whose atoms are bit/arith operators over the atoms valued in env (None: not evaluable)."""
    total = x.const
    for a, c in x.terms.items():
        v = eval_atom(a, env)
        if v is None:
            return None
        total += c * v
    return total


def eval_atom(a: Atom, env: t.Dict[Atom, int]) -> t.Optional[int]:
    if a in env:
        return env[a]
    op = a[0]
    if op in ("bitand", "bitor", "bitxor", "lshift", "rshift", "mul", "floordiv", "modv") and len(a) == 3 and isinstance(a[1], Lin) and isinstance(a[2], Lin):
        l, r = eval_lin(a[1], env), eval_lin(a[2], env)
        if l is None or r is None:
            return None
        try:
            return {"bitand": l & r, "bitor": l | r, "bitxor": l ^ r, "lshift": l << r if 0 <= r < 64 else None, "rshift": l >> r if 0 <= r < 64 else None, "mul": l * r, "floordiv": l // r if r else None, "modv": l % r if r else None}[op]
        except (ValueError, ZeroDivisionError):
            return None
    if op == "mod" and len(a) == 3 and isinstance(a[1], int) and isinstance(a[2], Lin):
        v = eval_lin(a[2], env)
        return None if v is None else v % a[1]
    return None


def same_on_byte(a: t.Any, b: t.Any, atom: Atom) -> bool:
    """Do two integer forms over one octet-valued atom agree on all 256 values of the octet?  (finite table)"""
    if not isinstance(a, Lin) or not isinstance(b, Lin):
        return False
    if a == b:
        return True
    for v in range(256):
        x, y = eval_lin(a, {atom: v}), eval_lin(b, {atom: v})
        if x is None or y is None or x != y:
            return False
    return True
