"""E5 - order tables: exhaustive evaluation of comparison predicates over sign vectors,
and normalisation of sort specifications.  A finite abstract domain: each pair of compared
quantities (A.f ? B.f) is abstracted to its sign {<, =, >}."""

from __future__ import annotations

import ast
import itertools
import typing as t

from .load import unparse

LT, EQ, GT = -1, 0, 1


class NotOrderPredicate(Exception):
    pass


def eval_pred(e: ast.expr, sign: t.Callable[[ast.expr, ast.expr], t.Optional[int]], atoms: t.Optional[t.Callable[[ast.expr], t.Optional[bool]]] = None) -> bool:
    """Evaluate a boolean combination of comparisons; sign(a, b) gives the sign of a - b."""
    if isinstance(e, ast.BoolOp):
        vals = [eval_pred(v, sign, atoms) for v in e.values]
        return all(vals) if isinstance(e.op, ast.And) else any(vals)
    if isinstance(e, ast.UnaryOp) and isinstance(e.op, ast.Not):
        return not eval_pred(e.operand, sign, atoms)
    if isinstance(e, ast.Compare):
        left = e.left
        res = True
        for op, right in zip(e.ops, e.comparators):
            s = _lex_sign(left, right, sign)
            if s is None:
                raise NotOrderPredicate(unparse(e))
            ok = {
                ast.Lt: s < 0,
                ast.LtE: s <= 0,
                ast.Gt: s > 0,
                ast.GtE: s >= 0,
                ast.Eq: s == 0,
                ast.NotEq: s != 0,
            }.get(type(op))
            if ok is None:
                raise NotOrderPredicate(unparse(e))
            res = res and ok
            left = right
        return res
    if atoms is not None:
        v = atoms(e)
        if v is not None:
            return v
    raise NotOrderPredicate(unparse(e))


def _lex_sign(a: ast.expr, b: ast.expr, sign: t.Callable[[ast.expr, ast.expr], t.Optional[int]]) -> t.Optional[int]:
    """Sign of a - b; tuples (and lists) of equal length compare lexicographically, as in Python."""
    if isinstance(a, (ast.Tuple, ast.List)) and isinstance(b, (ast.Tuple, ast.List)) and len(a.elts) == len(b.elts) and type(a) is type(b):
        for x, y in zip(a.elts, b.elts):
            s = _lex_sign(x, y, sign)
            if s is None:
                return None
            if s != 0:
                return s
        return 0
    return sign(a, b)


def pair_sign(fields_a: t.Dict[str, str], fields_b: t.Dict[str, str], vec: t.Dict[str, int]) -> t.Callable[[ast.expr, ast.expr], t.Optional[int]]:
    """fields_x: expression text -> role name.  vec: role -> sign of (A.role - B.role)."""

    def neg(e: ast.expr) -> t.Tuple[ast.expr, int]:
        if isinstance(e, ast.UnaryOp) and isinstance(e.op, ast.USub):
            inner, s = neg(e.operand)
            return inner, -s
        return e, 1

    def sign(a: ast.expr, b: ast.expr) -> t.Optional[int]:
        a, sa = neg(a)
        b, sb = neg(b)
        ta, tb = unparse(a), unparse(b)
        if sa != sb:
            return None
        if ta in fields_a and tb in fields_b and fields_a[ta] == fields_b[tb]:
            return vec[fields_a[ta]] * sa
        if ta in fields_b and tb in fields_a and fields_b[ta] == fields_a[tb]:
            return -vec[fields_b[ta]] * sa
        return None

    return sign


def vectors(roles: t.Sequence[str]) -> t.Iterator[t.Dict[str, int]]:
    for combo in itertools.product((LT, EQ, GT), repeat=len(roles)):
        yield dict(zip(roles, combo))


def lex_cmp(vec: t.Dict[str, int], roles: t.Sequence[str]) -> int:
    for r in roles:
        if vec[r] != 0:
            return vec[r]
    return 0


# ------------------------------------------------------------------ sort specifications
SortSpec = t.List[t.Tuple[str, str]]  # (field, "asc"|"desc"), most significant first


def key_spec(key: ast.expr) -> t.Optional[SortSpec]:
    """lambda a: (a.priority, -a.weight)  ->  [("priority","asc"), ("weight","desc")]"""
    if not isinstance(key, ast.Lambda) or len(key.args.args) != 1:
        return None
    var = key.args.args[0].arg
    body = key.body
    elts = list(body.elts) if isinstance(body, ast.Tuple) else [body]
    out: SortSpec = []
    for e in elts:
        d = "asc"
        while isinstance(e, ast.UnaryOp) and isinstance(e.op, ast.USub):
            d = "desc" if d == "asc" else "asc"
            e = e.operand
        if isinstance(e, ast.Attribute) and isinstance(e.value, ast.Name) and e.value.id == var:
            out.append((e.attr, d))
        else:
            return None
    return out


def selection_spec(e: ast.expr) -> t.Optional[t.Tuple[str, SortSpec]]:
    """Normalise `sorted(xs, key=K)[0]`, `sorted(xs, key=K, reverse=True)[-1]`, `min(xs, key=K)`,
    `max(xs, key=K)` to (collection text, spec of the element that is *selected* as minimal)."""

    def flip(spec: SortSpec) -> SortSpec:
        return [(f, "desc" if d == "asc" else "asc") for f, d in spec]

    if isinstance(e, ast.Subscript) and isinstance(e.value, ast.Call) and unparse(e.value.func) == "sorted" and isinstance(e.slice, (ast.Constant, ast.UnaryOp)):
        call = e.value
        idx = e.slice.value if isinstance(e.slice, ast.Constant) else (-e.slice.operand.value if isinstance(e.slice.operand, ast.Constant) else None)  # type: ignore[union-attr]
        key = next((k.value for k in call.keywords if k.arg == "key"), None)
        rev = next((k.value for k in call.keywords if k.arg == "reverse"), None)
        if key is None or not call.args or idx not in (0, -1):
            return None
        spec = key_spec(key)
        if spec is None:
            return None
        reverse = isinstance(rev, ast.Constant) and bool(rev.value)
        if rev is not None and not isinstance(rev, ast.Constant):
            return None
        if reverse != (idx == -1):
            spec = flip(spec)
        return unparse(call.args[0]), spec
    if isinstance(e, ast.Call) and unparse(e.func) in ("min", "max") and e.args:
        key = next((k.value for k in e.keywords if k.arg == "key"), None)
        if key is None:
            return None
        spec = key_spec(key)
        if spec is None:
            return None
        return unparse(e.args[0]), (spec if unparse(e.func) == "min" else flip(spec))
    return None
