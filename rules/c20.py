"""C20 - DC discovery asks the right SRV name and picks the best record."""

from __future__ import annotations

import ast
import typing as t

from sa import layout, ordertab, twins
from sa.cfg import build
from sa.flow import ReachingDefs
from sa.load import AnalysisError, Func, Repo, body_nodes, unparse
from sa.report import Check, Site
from sa.sym import Ref, SStr
from sa.symeval import CallVal, TRef

PREFIX = "_ldap._tcp.dc._msdcs"
WANT_SPEC = [("priority", "asc"), ("weight", "desc")]


def run(repo: Repo, chk: Check) -> None:
    chk.scope_decides = (
        "O1 both lookups build exactly '_ldap._tcp.dc._msdcs' (+ '.' + domain iff a domain is given; string-domain evaluation over the "
        "cases domain given / empty / None) and call resolve(name, 'SRV', search=True); O2 the selection normalises to 'priority ascending, "
        "then weight descending, take first' (sort specification, or for a hand written scan the truth table of its comparison over all 9 sign "
        "vectors); O3 target = str(record.target) with trailing dots stripped, port/weight/priority copied to the same-named fields, records kept under a key only when the key is the position in the answer (no record can replace another before ranking); "
        "O4 the API functions look up only when no server is given and use the record's target; sync and async lookups are twins (same "
        "decorators, same path signatures) and neither is memoised."
    )
    chk.scope_not = "dnspython's search-list semantics; empty answers."
    chk.trusted = ["dnspython resolve()/Answer iteration", "Python sorted() is stable and ascending"]
    for q, resolver in (("_dns.lookup_dc", "dns.resolver.resolve"), ("_dns.async_lookup_dc", "dns.asyncresolver.resolve")):
        query(repo, chk, repo.func(q), resolver)
    d = twins.diff(repo, repo.func("_dns.lookup_dc"), repo.func("_dns.async_lookup_dc"), {"dns.resolver.resolve": "RESOLVE"}, {"dns.asyncresolver.resolve": "RESOLVE"})
    chk.ob("O1", Site.of(repo.func("_dns.async_lookup_dc"), construct="lookup_dc == async_lookup_dc modulo await/resolver"), d is None, "twins agree" if d is None else f"sync and async lookups differ: '{d[0]}' vs '{d[1]}'")
    selection(repo, chk)
    mapping(repo, chk)
    use_sites(repo, chk)
    chk.require_min("query paths", 4)
    chk.require_min("lookup use sites", 4)


def query(repo: Repo, chk: Check, f: Func, resolver: str) -> None:
    chk.analysed(f)
    for d in f.node.decorator_list:
        txt = unparse(d)
        memo = any(w in txt.lower() for w in ("cache", "memo"))
        if not memo:
            raise AnalysisError(f"{f.qual}: decorator @{txt} replaces the function by something this rule cannot see through")
        chk.ob("O1", Site.of(f, d, f"@{txt}"), False, f"{f.name} is memoised by @{txt[:50]}: a later call returns the record chosen from an earlier answer set without asking DNS, not the best record of the current answers")
    for st, out in layout.Interp(repo, f).run(layout.self_state(repo, f)):
        if out.kind != "return":
            continue
        chk.count("query paths")
        given = None
        from .c11 import implied

        for c, pol in implied(st.conds):
            if c.info.get("truthy") == "domain_name":
                given = pol
        calls = [c for c in st.calls if c.name == resolver]
        site = Site.of(f, calls[0].node if calls else None, None if calls else f"{f.name}: resolve call")
        if len(calls) != 1:
            chk.ob("O1", site, False, f"{f.name} does not call {resolver} exactly once on the path domain {'given' if given else 'absent'}")
            continue
        name = calls[0].arg(0, "qname")
        if given:
            want = SStr([PREFIX + ".", Ref("domain_name")])
        else:
            want = SStr([PREFIX])
        if given is None:
            # no case split on the domain: the expression must still be right in both cases, which a single value cannot be
            chk.ob("O1", site, False, f"query name {name!r} does not depend on whether a domain is given")
            continue
        ok = isinstance(name, SStr) and name == want
        chk.ob("O1", site, ok, f"query name = {want!r}" if ok else f"query name is {name!r} when the domain is {'given' if given else 'absent'}, expected {want!r}")
        rd = calls[0].arg(1, "rdtype")
        okr = isinstance(rd, SStr) and rd.is_const() and rd.const() == "SRV"
        chk.ob("O1", site, okr, "record type SRV" if okr else f"record type is {rd!r}")
        se = calls[0].kwargs.get("search")
        chk.ob("O1", site, se is True, "search=True (search list used for relative names)" if se is True else f"search argument is {se!r}")
    # the answer of that query is what gets ranked (path summaries: local names and temporaries do not matter)
    from sa.pathsum import Summary

    rname = resolver.rsplit(".", 1)[-1]
    for ps in Summary(f).returning():
        rc = [c for c in ps.calls(rname) if ps.text(t.cast(ast.Call, c.tree).func) == resolver]
        v = ps.value
        okg = len(rc) == 1 and isinstance(v, ast.Call) and ps.text(v.func) == "_get_highest_answer" and len(v.args) == 1 and ps.key(v.args[0]) == ps.key(rc[0].tree)
        chk.ob("O1", Site.of(f, ps.exit_node), okg, "returns _get_highest_answer(<answer of this query>)" if okg else "the function does not return _get_highest_answer applied to the answer of this query")


def selection(repo: Repo, chk: Check) -> None:
    f = repo.func("_dns._get_highest_answer")
    chk.analysed(f)
    rets = [n for n in body_nodes(f.node) if isinstance(n, ast.Return) and n.value is not None]
    if not rets:
        raise AnalysisError("_get_highest_answer: no return")
    # the list that is ranked: SrvRecord objects appended in the loop over the answer
    for r in rets:
        site = Site.of(f, r)
        spec = ordertab.selection_spec(_as_sorted_selection(repo, f, r.value))
        if spec is not None:
            coll, sp = spec
            ok = sp == WANT_SPEC
            chk.table("selection spec", sp)
            chk.ob("O2", site, ok, "selects by priority ascending, then weight descending" if ok else f"selection order is {sp}, expected {WANT_SPEC} (lowest priority, then highest weight)")
            continue
        # hand written scan: `best` updated under a comparison between candidate and best
        ok, why = scan_selection(f, r)
        chk.ob("O2", site, ok, why)


def _key_lambda(repo: Repo, f: Func, key: t.Optional[ast.expr]) -> t.Optional[ast.expr]:
    """A key given as the name of a one-expression function is read as the equivalent lambda."""
    if isinstance(key, ast.Call) and repo.dotted(key.func, f.mod) == "operator.attrgetter" and not key.keywords and key.args and all(isinstance(a, ast.Constant) and isinstance(a.value, str) and "." not in a.value for a in key.args):
        # operator.attrgetter("a") / attrgetter("a", "b"): the attribute, or the tuple of attributes
        reads: t.List[ast.expr] = [ast.Attribute(value=ast.Name(id="rec__g", ctx=ast.Load()), attr=a.value, ctx=ast.Load()) for a in key.args]  # type: ignore[attr-defined]
        return ast.Lambda(args=ast.arguments(posonlyargs=[], args=[ast.arg(arg="rec__g")], kwonlyargs=[], kw_defaults=[], defaults=[]), body=reads[0] if len(reads) == 1 else ast.Tuple(elts=reads, ctx=ast.Load()))
    if isinstance(key, ast.Attribute) and isinstance(key.value, ast.Name):
        # a method used unbound as the key: SrvRecord.sort_key
        c = repo.resolve_name(key.value.id, f.mod)
        m = c.find_method(key.attr) if hasattr(c, "find_method") else None
        if m is not None and not m.is_staticmethod and not m.is_classmethod and len(m.params) == 1:
            body = [b for b in m.node.body if not (isinstance(b, ast.Expr) and isinstance(b.value, ast.Constant))]
            if len(body) == 1 and isinstance(body[0], ast.Return) and body[0].value is not None:
                return ast.Lambda(args=m.node.args, body=body[0].value)
    if isinstance(key, ast.Name):
        r = repo.resolve_name(key.id, f.mod)
        if isinstance(r, Func):
            body = [b for b in r.node.body if not (isinstance(b, ast.Expr) and isinstance(b.value, ast.Constant))]
            if len(body) == 1 and isinstance(body[0], ast.Return) and body[0].value is not None and len(r.params) == 1:
                return ast.Lambda(args=r.node.args, body=body[0].value)
    return key


def _as_sorted_selection(repo: Repo, f: Func, e: ast.expr) -> ast.expr:
    """`xs.sort(key=K[, reverse=R]); return xs[i]` is the selection `sorted(xs, key=K, reverse=R)[i]`; named keys become lambdas."""
    import copy

    e = copy.deepcopy(e)
    if isinstance(e, ast.Subscript) and isinstance(e.value, ast.Name):
        name = e.value.id
        sorts = [n for n in body_nodes(f.node) if isinstance(n, ast.Call) and isinstance(n.func, ast.Attribute) and n.func.attr == "sort" and isinstance(n.func.value, ast.Name) and n.func.value.id == name]
        others = [n for n in body_nodes(f.node) if isinstance(n, ast.Call) and isinstance(n.func, ast.Attribute) and n.func.attr in ("reverse", "insert", "pop", "remove") and isinstance(n.func.value, ast.Name) and n.func.value.id == name]
        if len(sorts) == 1 and not others and not sorts[0].args:
            call = ast.Call(func=ast.Name(id="sorted", ctx=ast.Load()), args=[ast.Name(id=name, ctx=ast.Load())], keywords=copy.deepcopy(sorts[0].keywords))
            e = ast.Subscript(value=call, slice=e.slice, ctx=ast.Load())
        elif len(sorts) >= 2 and not others and not any(c.args for c in sorts) and all(isinstance(st, ast.Expr) and isinstance(st.value, ast.Call) for st in f.node.body if any(c is getattr(st, "value", None) for c in sorts)) and sum(1 for st in f.node.body if isinstance(st, ast.Expr) and any(c is st.value for c in sorts)) == len(sorts):
            # several stable sorts in a row: the last one is the primary key, the earlier ones break its ties (list.sort
            # keeps the order of equal elements, also with reverse=True); a reversed pass on a number is the pass on its negation
            order = [st.value for st in f.node.body if isinstance(st, ast.Expr) and any(c is st.value for c in sorts)]
            parts: t.List[ast.expr] = []
            okm = True
            for c in reversed(order):
                kws = {k.arg: k.value for k in c.keywords}
                key = _key_lambda(repo, f, kws.get("key"))
                rev = kws.get("reverse")
                if not isinstance(key, ast.Lambda) or len(key.args.args) != 1 or (rev is not None and not (isinstance(rev, ast.Constant) and isinstance(rev.value, bool))) or set(kws) - {"key", "reverse"}:
                    okm = False
                    break
                p_ = key.args.args[0].arg

                class R_(ast.NodeTransformer):
                    def visit_Name(self, n: ast.Name) -> ast.AST:
                        return ast.Name(id="rec__k", ctx=n.ctx) if n.id == p_ else n

                body = R_().visit(copy.deepcopy(key.body))
                if rev is not None and rev.value:
                    body = ast.UnaryOp(op=ast.USub(), operand=body)
                parts.append(body)
            if okm:
                lam = ast.Lambda(args=ast.arguments(posonlyargs=[], args=[ast.arg(arg="rec__k")], kwonlyargs=[], kw_defaults=[], defaults=[]), body=ast.Tuple(elts=parts, ctx=ast.Load()))
                call = ast.Call(func=ast.Name(id="sorted", ctx=ast.Load()), args=[ast.Name(id=name, ctx=ast.Load())], keywords=[ast.keyword(arg="key", value=lam)])
                e = ast.Subscript(value=call, slice=e.slice, ctx=ast.Load())
    for n in ast.walk(e):
        if isinstance(n, ast.Call):
            for kw in n.keywords:
                if kw.arg == "key":
                    kw.value = t.cast(ast.expr, _key_lambda(repo, f, kw.value))
    return ast.fix_missing_locations(e)


def scan_selection(f: Func, ret: ast.Return) -> t.Tuple[bool, str]:
    """for a in xs: if <first> or pred(a, best): best = a   ...   return best"""
    if not isinstance(ret.value, ast.Name):
        return False, f"selection '{unparse(ret.value)}' is neither a sort specification nor a scan over the records"
    best = ret.value.id
    updates = []
    for loop in [n for n in body_nodes(f.node) if isinstance(n, ast.For) and isinstance(n.target, ast.Name)]:
        cand = loop.target.id
        for n in ast.walk(loop):
            if isinstance(n, ast.Assign) and unparse(n.targets[0]) == best and unparse(n.value) == cand:
                updates.append((loop, n, cand))
    if len(updates) != 1:
        return False, f"cannot find a single '{best} = <candidate>' update in a loop"
    loop, _upd, cand = updates[0]
    fa = {f"{cand}.priority": "priority", f"{cand}.weight": "weight"}
    fb = {f"{best}.priority": "priority", f"{best}.weight": "weight"}
    table = []

    class _Stop(Exception):
        pass

    for vec in ordertab.vectors(["priority", "weight"]):
        sign = ordertab.pair_sign(fa, fb, vec)
        flags: t.Dict[str, bool] = {}

        def atoms(e: ast.expr) -> t.Optional[bool]:
            txt = unparse(e)
            if txt in (f"{best} is None", f"not {best}"):
                return False  # a best exists already (the first element case is the trivial one)
            if txt in (f"{best} is not None", best):
                return True
            if isinstance(e, ast.Name) and e.id in flags:
                return flags[e.id]
            if isinstance(e, ast.Constant) and isinstance(e.value, bool):
                return e.value
            return None

        # one trip of the loop body for this ordering of (candidate, best): is best replaced?
        def trip(stmts: t.Sequence[ast.stmt]) -> bool:
            """True when the trip ended early (continue)."""
            for st in stmts:
                if isinstance(st, (ast.Pass,)) or (isinstance(st, ast.Expr) and isinstance(st.value, ast.Constant)):
                    continue
                if isinstance(st, ast.Continue):
                    return True
                if isinstance(st, ast.If):
                    if trip(st.body if ordertab.eval_pred(st.test, sign, atoms) else st.orelse):
                        return True
                    continue
                if isinstance(st, (ast.Assign, ast.AnnAssign)) and st.value is not None:
                    tg = st.targets[0] if isinstance(st, ast.Assign) else st.target
                    if isinstance(st, ast.Assign) and len(st.targets) != 1 or not isinstance(tg, ast.Name):
                        raise ordertab.NotOrderPredicate(unparse(st))
                    if tg.id == best:
                        if unparse(st.value) != cand:
                            raise ordertab.NotOrderPredicate(unparse(st))
                        flags["<replaced>"] = True
                        continue
                    flags[tg.id] = ordertab.eval_pred(st.value, sign, atoms)
                    continue
                raise ordertab.NotOrderPredicate(unparse(st))
            return False

        try:
            trip(loop.body)
            val = flags.get("<replaced>", False)
        except ordertab.NotOrderPredicate as e:
            return False, f"update condition contains '{e}', which is not a comparison of priority/weight between candidate and best"
        # candidate strictly better: priority lower, or equal and weight higher
        better = vec["priority"] < 0 or (vec["priority"] == 0 and vec["weight"] > 0)
        worse = vec["priority"] > 0 or (vec["priority"] == 0 and vec["weight"] < 0)
        table.append((vec["priority"], vec["weight"], val))
        if better and not val:
            return False, f"a record with {_d(vec)} than the current best does not replace it"
        if worse and val:
            return False, f"a record with {_d(vec)} than the current best replaces it: the result depends on the answer order and is not the lowest priority / highest weight record"
    return True, f"scan truth table over the 9 sign vectors equals 'lower priority, then higher weight': {table}"


def _d(vec: t.Dict[str, int]) -> str:
    w = {-1: "lower", 0: "equal", 1: "higher"}
    return f"{w[vec['priority']]} priority and {w[vec['weight']]} weight"


def mapping(repo: Repo, chk: Check) -> None:
    f = repo.func("_dns._get_highest_answer")
    ctors = [n for n in body_nodes(f.node) if isinstance(n, ast.Call) and unparse(n.func) == "SrvRecord"]
    if not ctors:
        raise AnalysisError("_get_highest_answer: SrvRecord construction vanished")
    loops = [n for n in body_nodes(f.node) if isinstance(n, ast.For) and any(x is ctors[0] for x in ast.walk(n))]
    ok = bool(loops) and unparse(loops[0].iter) == f.params[0] and isinstance(loops[0].target, ast.Name)
    chk.ob("O3", Site.of(f, loops[0] if loops else None, None if loops else "record loop"), ok, "every record of the answer is considered" if ok else "records are not taken from a loop over the whole answer")
    if not ok:
        return
    var = loops[0].target.id  # type: ignore[attr-defined]
    from .util import args_of, prov_text

    for c in ctors:
        site = Site.of(f, c)
        kws = args_of(repo, f, c)
        for name in ("port", "weight", "priority"):
            v = kws.get(name)
            okf = v is not None and prov_text(f, v, c) == f"{var}.{name}"
            chk.ob("O3", site, okf, f"{name} copied" if okf else f"SrvRecord.{name} is built from {unparse(v) if v is not None else 'nothing'}, not from {var}.{name}")
        tv = kws.get("target")
        ttxt = prov_text(f, tv, c) if tv is not None else ""
        okt = ttxt in (f"str({var}.target).rstrip('.')", f"str({var}.target).removesuffix('.')", f"{var}.target.to_text().rstrip('.')", f"{var}.target.to_text(omit_final_dot=True)")
        chk.ob("O3", site, okt, "target = text of the record target without trailing dot" if okt else f"SrvRecord.target is '{ttxt}': the trailing dot must be stripped only if present and nothing else removed")
    # a record kept under a key can be replaced by a later record with the same key: then not every record is ranked
    for n in body_nodes(f.node):
        keyed: t.Optional[ast.expr] = None
        if isinstance(n, ast.Assign) and any(isinstance(tg, ast.Subscript) for tg in n.targets) and any(x in ctors for x in ast.walk(n.value)):
            keyed = next(tg for tg in n.targets if isinstance(tg, ast.Subscript)).slice
        elif isinstance(n, ast.Call) and isinstance(n.func, ast.Attribute) and n.func.attr in ("setdefault", "update", "__setitem__") and any(x in ctors for a in list(n.args) + [k.value for k in n.keywords] for x in ast.walk(a)):
            keyed = n.args[0] if n.args else n.func.value
        if keyed is None:
            continue
        idx_vars = set()
        for lp in loops:
            if isinstance(lp.iter, ast.Call) and unparse(lp.iter.func) == "enumerate" and isinstance(lp.target, ast.Tuple) and lp.target.elts and isinstance(lp.target.elts[0], ast.Name):
                idx_vars.add(lp.target.elts[0].id)
        okk = isinstance(keyed, ast.Name) and keyed.id in idx_vars
        chk.ob("O3", Site.of(f, n, f"records stored under key {unparse(keyed)[:60]}"), okk, "keyed by the position in the answer" if okk else f"records are collected under the key {unparse(keyed)[:60]}: a record with the same key replaces (or is dropped in favour of) another one, so the record returned need not be the best of all answers and depends on their order")
    # the ranked collection is the list these records were appended to
    apps = [n for n in body_nodes(f.node) if isinstance(n, ast.Call) and isinstance(n.func, ast.Attribute) and n.func.attr == "append" and any(x is ctors[0] for x in ast.walk(n))]
    rets = [n for n in body_nodes(f.node) if isinstance(n, ast.Return) and n.value is not None]
    if apps and rets:
        lst = unparse(apps[0].func.value)  # type: ignore[attr-defined]
        spec = ordertab.selection_spec(_as_sorted_selection(repo, f, rets[0].value))
        okc = spec is None or spec[0] == lst
        chk.ob("O3", Site.of(f, rets[0]), okc, f"ranks the converted records ({lst})" if okc else f"ranks {spec[0] if spec else '?'} instead of the converted records {lst}")


def use_sites(repo: Repo, chk: Check) -> None:
    from sa.pathsum import Summary

    from .util import ev_args

    apis = {
        "_client.ncrypt_unprotect_secret": ("lookup_dc", "_sync_get_key", "DPAPINGBlob.unpack(data).key_identifier.domain_name"),
        "_client.async_ncrypt_unprotect_secret": ("async_lookup_dc", "_async_get_key", "DPAPINGBlob.unpack(data).key_identifier.domain_name"),
        "_client.ncrypt_protect_secret": ("lookup_dc", "_sync_get_key", "domain_name"),
        "_client.async_ncrypt_protect_secret": ("async_lookup_dc", "_async_get_key", "domain_name"),
    }
    for q, (fn, rpc, arg) in apis.items():
        f = repo.func(q)
        chk.analysed(f)
        summ = Summary(f, prune=True)  # public API
        nsites = 0
        for ps in summ.returning():
            looks = ps.calls(fn)
            rpcs = ps.calls(rpc)
            for r in rpcs:
                srv = ev_args(repo, f, r).get("server")
                stxt = ps.text(srv)
                if not looks:
                    ok = stxt == "server"
                    chk.ob("O4", Site.of(f, r.node, "server given"), ok, "the caller's server is used as is" if ok else f"without a lookup the RPC goes to {stxt}")
                    continue
            if len(looks) > 1:
                chk.ob("O4", Site.of(f, looks[1].node), False, f"{f.name} calls {fn} {len(looks)} times on one path")
                continue
            if not looks:
                continue
            nsites += 1
            c = looks[0]
            site = Site.of(f, c.node)
            a = [ps.text(x) for x in ev_args(repo, f, c).values()]
            oka = a == [arg]
            chk.ob("O4", site, oka, f"looks up the DC of {arg}" if oka else f"{fn}({', '.join(a)}) does not use {arg}")
            okg = "not (server)" in ps.facts(before=c)
            chk.ob("O4", site, okg, "lookup only when no server was given" if okg else "the DNS lookup is not guarded by 'server not given'")
            oks = bool(rpcs) and all(ps.key(ev_args(repo, f, r).get("server")) == f"{ps.key(c.tree)}.target" for r in rpcs)
            chk.ob("O4", site, oks, "server := target of the selected record" if oks else "the selected record's target is not what becomes the server")
        chk.count("lookup use sites", 1 if nsites else 0)
