"""C20 - DC discovery asks the right SRV name and picks the best record."""

from __future__ import annotations

import ast
import typing as t

from sa import layout, ordertab, twins
from sa.cfg import build
from sa.flow import ReachingDefs
from sa.load import AnalysisError, Func, Repo, body_nodes, unparse
from sa.report import Check, Site
from sa.sym import Ref, SStr
from sa.symeval import CallVal, TRef

PREFIX = "_ldap._tcp.dc._msdcs"
WANT_SPEC = [("priority", "asc"), ("weight", "desc")]


def run(repo: Repo, chk: Check) -> None:
    chk.scope_decides = (
        "O1 both lookups build exactly '_ldap._tcp.dc._msdcs' (+ '.' + domain iff a domain is given; string-domain evaluation over the "
        "cases domain given / empty / None) and call resolve(name, 'SRV', search=True); O2 the selection normalises to 'priority ascending, "
        "then weight descending, take first' (sort specification, or for a hand written scan the truth table of its comparison over all 9 sign "
        "vectors); O3 target = str(record.target) with trailing dots stripped, port/weight/priority copied to the same-named fields; "
        "O4 the API functions look up only when no server is given and use the record's target; sync and async lookups are twins."
    )
    chk.scope_not = "dnspython's search-list semantics; empty answers."
    chk.trusted = ["dnspython resolve()/Answer iteration", "Python sorted() is stable and ascending"]
    for q, resolver in (("_dns.lookup_dc", "dns.resolver.resolve"), ("_dns.async_lookup_dc", "dns.asyncresolver.resolve")):
        query(repo, chk, repo.func(q), resolver)
    d = twins.diff(repo, repo.func("_dns.lookup_dc"), repo.func("_dns.async_lookup_dc"), {"dns.resolver.resolve": "RESOLVE"}, {"dns.asyncresolver.resolve": "RESOLVE"})
    chk.ob("O1", Site.of(repo.func("_dns.async_lookup_dc"), construct="lookup_dc == async_lookup_dc modulo await/resolver"), d is None, "twins agree" if d is None else f"sync and async lookups differ: '{d[0]}' vs '{d[1]}'")
    selection(repo, chk)
    mapping(repo, chk)
    use_sites(repo, chk)
    chk.require_min("query paths", 4)
    chk.require_min("lookup use sites", 4)


def query(repo: Repo, chk: Check, f: Func, resolver: str) -> None:
    chk.analysed(f)
    for st, out in layout.Interp(repo, f).run(layout.self_state(repo, f)):
        if out.kind != "return":
            continue
        chk.count("query paths")
        given = None
        for c, pol in st.conds:
            if c.info.get("truthy") == "domain_name":
                given = pol
        calls = [c for c in st.calls if c.name == resolver]
        site = Site.of(f, calls[0].node if calls else None, None if calls else f"{f.name}: resolve call")
        if len(calls) != 1:
            chk.ob("O1", site, False, f"{f.name} does not call {resolver} exactly once on the path domain {'given' if given else 'absent'}")
            continue
        name = calls[0].arg(0, "qname")
        if given:
            want = SStr([PREFIX + ".", Ref("domain_name")])
        else:
            want = SStr([PREFIX])
        if given is None:
            # no case split on the domain: the expression must still be right in both cases, which a single value cannot be
            chk.ob("O1", site, False, f"query name {name!r} does not depend on whether a domain is given")
            continue
        ok = isinstance(name, SStr) and name == want
        chk.ob("O1", site, ok, f"query name = {want!r}" if ok else f"query name is {name!r} when the domain is {'given' if given else 'absent'}, expected {want!r}")
        rd = calls[0].arg(1, "rdtype")
        okr = isinstance(rd, SStr) and rd.is_const() and rd.const() == "SRV"
        chk.ob("O1", site, okr, "record type SRV" if okr else f"record type is {rd!r}")
        se = calls[0].kwargs.get("search")
        chk.ob("O1", site, se is True, "search=True (search list used for relative names)" if se is True else f"search argument is {se!r}")
        gh = [c for c in st.calls if c.name.endswith("_get_highest_answer")]
        okg = len(gh) == 1 and isinstance(out.value, CallVal) and out.value.rec is gh[0] and isinstance(gh[0].arg(0), CallVal) and gh[0].arg(0).rec is calls[0]
        chk.ob("O1", site, okg, "returns _get_highest_answer(<answer of this query>)" if okg else "the function does not return _get_highest_answer applied to the answer of this query")


def selection(repo: Repo, chk: Check) -> None:
    f = repo.func("_dns._get_highest_answer")
    chk.analysed(f)
    rets = [n for n in body_nodes(f.node) if isinstance(n, ast.Return) and n.value is not None]
    if not rets:
        raise AnalysisError("_get_highest_answer: no return")
    # the list that is ranked: SrvRecord objects appended in the loop over the answer
    for r in rets:
        site = Site.of(f, r)
        spec = ordertab.selection_spec(r.value)
        if spec is not None:
            coll, sp = spec
            ok = sp == WANT_SPEC
            chk.table("selection spec", sp)
            chk.ob("O2", site, ok, "selects by priority ascending, then weight descending" if ok else f"selection order is {sp}, expected {WANT_SPEC} (lowest priority, then highest weight)")
            continue
        # hand written scan: `best` updated under a comparison between candidate and best
        ok, why = scan_selection(f, r)
        chk.ob("O2", site, ok, why)


def scan_selection(f: Func, ret: ast.Return) -> t.Tuple[bool, str]:
    """for a in xs: if <first> or pred(a, best): best = a   ...   return best"""
    if not isinstance(ret.value, ast.Name):
        return False, f"selection '{unparse(ret.value)}' is neither a sort specification nor a scan over the records"
    best = ret.value.id
    updates = []
    for loop in [n for n in body_nodes(f.node) if isinstance(n, ast.For) and isinstance(n.target, ast.Name)]:
        cand = loop.target.id
        for n in ast.walk(loop):
            if isinstance(n, ast.If):
                for s in n.body:
                    if isinstance(s, ast.Assign) and unparse(s.targets[0]) == best and unparse(s.value) == cand:
                        updates.append((loop, n, cand))
    if len(updates) != 1:
        return False, f"cannot find a single 'if <better>: {best} = <candidate>' update in a loop"
    loop, ifn, cand = updates[0]
    fa = {f"{cand}.priority": "priority", f"{cand}.weight": "weight"}
    fb = {f"{best}.priority": "priority", f"{best}.weight": "weight"}
    table = []
    for vec in ordertab.vectors(["priority", "weight"]):
        sign = ordertab.pair_sign(fa, fb, vec)

        def atoms(e: ast.expr) -> t.Optional[bool]:
            txt = unparse(e)
            if txt in (f"{best} is None", f"not {best}"):
                return False  # a best exists already (the first element case is the trivial one)
            if txt in (f"{best} is not None", best):
                return True
            return None

        try:
            val = ordertab.eval_pred(ifn.test, sign, atoms)
        except ordertab.NotOrderPredicate as e:
            return False, f"update condition contains '{e}', which is not a comparison of priority/weight between candidate and best"
        # candidate strictly better: priority lower, or equal and weight higher
        better = vec["priority"] < 0 or (vec["priority"] == 0 and vec["weight"] > 0)
        worse = vec["priority"] > 0 or (vec["priority"] == 0 and vec["weight"] < 0)
        table.append((vec["priority"], vec["weight"], val))
        if better and not val:
            return False, f"a record with {_d(vec)} than the current best does not replace it"
        if worse and val:
            return False, f"a record with {_d(vec)} than the current best replaces it: the result depends on the answer order and is not the lowest priority / highest weight record"
    return True, f"scan truth table over the 9 sign vectors equals 'lower priority, then higher weight': {table}"


def _d(vec: t.Dict[str, int]) -> str:
    w = {-1: "lower", 0: "equal", 1: "higher"}
    return f"{w[vec['priority']]} priority and {w[vec['weight']]} weight"


def mapping(repo: Repo, chk: Check) -> None:
    f = repo.func("_dns._get_highest_answer")
    ctors = [n for n in body_nodes(f.node) if isinstance(n, ast.Call) and unparse(n.func) == "SrvRecord"]
    if not ctors:
        raise AnalysisError("_get_highest_answer: SrvRecord construction vanished")
    loops = [n for n in body_nodes(f.node) if isinstance(n, ast.For) and any(x is ctors[0] for x in ast.walk(n))]
    ok = bool(loops) and unparse(loops[0].iter) == f.params[0] and isinstance(loops[0].target, ast.Name)
    chk.ob("O3", Site.of(f, loops[0] if loops else None, None if loops else "record loop"), ok, "every record of the answer is considered" if ok else "records are not taken from a loop over the whole answer")
    if not ok:
        return
    var = loops[0].target.id  # type: ignore[attr-defined]
    for c in ctors:
        site = Site.of(f, c)
        kws = {k.arg: k.value for k in c.keywords if k.arg}
        fields = ["target", "port", "weight", "priority"]
        for i, a in enumerate(c.args):
            kws.setdefault(fields[i], a)
        for name in ("port", "weight", "priority"):
            v = kws.get(name)
            okf = v is not None and unparse(v) == f"{var}.{name}"
            chk.ob("O3", site, okf, f"{name} copied" if okf else f"SrvRecord.{name} is built from {unparse(v) if v is not None else 'nothing'}, not from {var}.{name}")
        tv = kws.get("target")
        ttxt = unparse(tv) if tv is not None else ""
        okt = ttxt in (f"str({var}.target).rstrip('.')", f"str({var}.target).removesuffix('.')", f"{var}.target.to_text().rstrip('.')", f"{var}.target.to_text(omit_final_dot=True)")
        chk.ob("O3", site, okt, "target = text of the record target without trailing dot" if okt else f"SrvRecord.target is '{ttxt}': the trailing dot must be stripped only if present and nothing else removed")
    # the ranked collection is the list these records were appended to
    apps = [n for n in body_nodes(f.node) if isinstance(n, ast.Call) and isinstance(n.func, ast.Attribute) and n.func.attr == "append" and any(x is ctors[0] for x in ast.walk(n))]
    rets = [n for n in body_nodes(f.node) if isinstance(n, ast.Return) and n.value is not None]
    if apps and rets:
        lst = unparse(apps[0].func.value)  # type: ignore[attr-defined]
        spec = ordertab.selection_spec(rets[0].value)
        okc = spec is None or spec[0] == lst
        chk.ob("O3", Site.of(f, rets[0]), okc, f"ranks the converted records ({lst})" if okc else f"ranks {spec[0] if spec else '?'} instead of the converted records {lst}")


def use_sites(repo: Repo, chk: Check) -> None:
    apis = {
        "_client.ncrypt_unprotect_secret": ("lookup_dc", "blob.key_identifier.domain_name"),
        "_client.async_ncrypt_unprotect_secret": ("async_lookup_dc", "blob.key_identifier.domain_name"),
        "_client.ncrypt_protect_secret": ("lookup_dc", "domain_name"),
        "_client.async_ncrypt_protect_secret": ("async_lookup_dc", "domain_name"),
    }
    for q, (fn, arg) in apis.items():
        f = repo.func(q)
        chk.analysed(f)
        g = build(f.node)
        rd = ReachingDefs(f, g)
        calls = [n for n in body_nodes(f.node) if isinstance(n, ast.Call) and unparse(n.func) == fn]
        chk.count("lookup use sites", len(calls))
        site = Site.of(f, calls[0] if calls else None, None if calls else f"{f.name}: {fn} call")
        if len(calls) != 1:
            chk.ob("O4", site, False, f"{f.name} calls {fn} {len(calls)} times")
            continue
        c = calls[0]
        oka = len(c.args) == 1 and unparse(c.args[0]) == arg
        chk.ob("O4", site, oka, f"looks up the DC of {arg}" if oka else f"{fn}({', '.join(map(unparse, c.args))}) does not use {arg}")
        nid = rd.node_of(c)
        guards = g.guards_of(nid) if nid is not None else []
        okg = any(unparse(e) == "server" and pol is False for e, pol in guards)
        chk.ob("O4", site, okg, "lookup only when no server was given" if okg else "the DNS lookup is not guarded by 'server not given'")
        # server = <lookup result>.target
        asg = [n for n in body_nodes(f.node) if isinstance(n, ast.Assign) and unparse(n.targets[0]) == "server"]
        oks = False
        for a in asg:
            v = a.value
            if isinstance(v, ast.Attribute) and v.attr == "target" and isinstance(v.value, ast.Name):
                d = rd.single_def(v.value.id, a)
                inner = d.value.value if d is not None and isinstance(d.value, ast.Await) else (d.value if d is not None else None)
                if inner is c:
                    oks = True
        chk.ob("O4", site, oks, "server := target of the selected record" if oks else "the selected record's target is not what becomes the server")
