"""C05 - decrypting untrusted bytes ends promptly with a deliberate error type."""

from __future__ import annotations

import ast
import typing as t

from sa.callgraph import CallGraph
from sa.cfg import build
from sa.intervals import IV, World
from sa.lensum import Lengths
from sa.load import AnalysisError, Cls, Func, Repo, body_nodes, unparse
from sa.loops import LoopChecker
from sa.report import Check, Site

ALLOWED_RAISES = {"ValueError", "NotImplementedError", "NotEnougData"}
STOP = {"_dns.lookup_dc", "_dns.async_lookup_dc", "_client._sync_get_key", "_client._async_get_key"}


def region(repo: Repo, world: World) -> t.Tuple[t.Dict[str, Func], CallGraph]:
    cg = CallGraph(repo, world)
    starts = [repo.func("_client.ncrypt_unprotect_secret"), repo.func("_client.async_ncrypt_unprotect_secret")]
    return cg.closure(starts, STOP), cg


def run(repo: Repo, chk: Check) -> None:
    chk.scope_decides = (
        "for the call-graph closure of the two unprotect functions up to (not including) DC lookup / GetKey RPC: O1 every explicit raise is "
        "ValueError, NotImplementedError or the ASN.1 not-enough-data error; every primitive that can raise an internal error (index into a "
        "sequence, struct.unpack / Struct.unpack_from incl. class-level Structs and offsets, int.to_bytes, dict subscript, datetime / timedelta construction from decoded numbers) is shown safe by a dominating guard, a value-range proof (intervals seeded with "
        "the wire field widths and the SID grammar) or a length summary; O2 every loop has a termination/bounded-work certificate (KDF walks "
        "<= 31 steps each, parser loops consume input), and the region has no recursion; no handler turns an error into a silent result."
    )
    chk.scope_not = "'promptly' in seconds; errors raised inside cryptography/uuid/codecs for malformed values beyond their documented ValueError family."
    chk.trusted = [
        "external leaves: aes_key_unwrap -> InvalidUnwrap/ValueError; AESGCM(..)/decrypt -> InvalidTag/ValueError; KBKDFHMAC/ConcatKDFHash -> ValueError; EC public numbers / derive / exchange -> ValueError; pow(a,b,m) -> ValueError; uuid.UUID(bytes_le=) / bytes.decode / int(str) / Enum(v) -> ValueError",
        "slices, int.from_bytes, len, tobytes, memoryview never raise on bytes-like input",
    ]
    world = World(repo)
    # grammar facts of the SID string feed the interval analysis (established by C08's grammar rule in this run)
    from . import c08

    scratch = Check("C05", chk.tier)
    f_sid = repo.func("_security_descriptor.sid_to_bytes")
    runs = c08.grammar(repo, scratch, f_sid)
    grammar_ok = all(o.ok for o in scratch.obligations)
    c08.ranges(repo, scratch, f_sid, world, runs)
    reg, cg = region(repo, world)
    chk.table("region", sorted(reg))
    chk.count("region functions", len(reg))
    chk.require_min("region functions", 42)  # 55 today; floors sit at ~3/4 so that merging helpers or replacing a loop by one call is not an alarm
    lens = Lengths(world)
    nsites = 0
    for q, f in sorted(reg.items()):
        chk.analysed(f)
        g = build(f.node)
        res = world.analyse(f)
        ann_nodes = _annotation_nodes(f)
        for n in body_nodes(f.node):
            if id(n) in ann_nodes:
                continue
            # ---- explicit raises
            if isinstance(n, ast.Raise):
                nsites += 1
                name = unparse(n.exc.func) if isinstance(n.exc, ast.Call) else (unparse(n.exc) if n.exc is not None else "re-raise")
                ok = name.split(".")[-1] in ALLOWED_RAISES
                chk.ob("O1", Site.of(f, n, f"raise {name}(...)"), ok, "deliberate error type" if ok else f"raises {name}, which is not one of the deliberate error types {sorted(ALLOWED_RAISES)}")
            # ---- struct.unpack
            elif isinstance(n, ast.Call) and unparse(n.func) == "struct.unpack":
                nsites += 1
                from .c07 import nonempty_guard

                ok, why = nonempty_guard(f, n)
                chk.ob("O1", Site.of(f, n), ok, why)
            # ---- S.unpack_from(buf) / S.unpack(buf) on a struct.Struct: struct.error unless the buffer is long enough
            elif isinstance(n, ast.Call) and isinstance(n.func, ast.Attribute) and n.func.attr in ("unpack_from", "unpack", "iter_unpack") and _struct_size(repo, f, n.func.value) is not None:
                nsites += 1
                need = t.cast(int, _struct_size(repo, f, n.func.value))
                off_e = (n.args[1] if len(n.args) > 1 else next((k.value for k in n.keywords if k.arg == "offset"), None)) if n.func.attr == "unpack_from" else None
                if off_e is not None:
                    oko, offv = repo.try_fold(off_e, f.mod)
                    need = need + offv if oko and isinstance(offv, int) and offv >= 0 else 1 << 62
                ok, why = struct_guard(repo, f, n, need)
                chk.ob("O1", Site.of(f, n), ok, why)
            # ---- to_bytes capacity
            elif isinstance(n, ast.Call) and isinstance(n.func, ast.Attribute) and n.func.attr == "to_bytes" and n.args:
                nsites += 1
                ok, why = to_bytes_ok(repo, world, lens, f, n)
                chk.ob("O1", Site.of(f, n), ok, why)
            # ---- struct.pack capacity (struct.error for an out-of-range field)
            elif isinstance(n, ast.Call) and repo.dotted(n.func, f.mod) == "struct.pack":
                nsites += 1
                from .c08 import _pack_sink

                sk = _pack_sink(repo, f, n)
                if sk is None:
                    chk.ob("O1", Site.of(f, n), False, f"{unparse(n)[:60]}: struct.pack with a format this rule cannot bound (struct.error escapes)")
                else:
                    val, width, signed, _o = sk
                    lo_, hi_ = (-(1 << (8 * width - 1)), (1 << (8 * width - 1)) - 1) if signed else (0, (1 << (8 * width)) - 1)
                    iv = res.iv_of(val)
                    chk.ob("O1", Site.of(f, n), iv.within(lo_, hi_), f"{unparse(val)} in {iv} fits the {width} byte field" if iv.within(lo_, hi_) else f"{unparse(val)} can be {iv} at a {width} byte struct field: struct.error escapes instead of a deliberate error")
            # ---- datetime arithmetic on decoded numbers: OverflowError / ValueError beyond year 9999 or 999999999 days
            elif isinstance(n, ast.Call) and (repo.dotted(n.func, f.mod) or "").split(".")[0] == "datetime" and (repo.dotted(n.func, f.mod) or "").rsplit(".", 1)[-1] in ("datetime", "date", "timedelta", "fromtimestamp", "utcfromtimestamp", "fromordinal"):
                nsites += 1
                badarg = None
                for a in list(n.args) + [k.value for k in n.keywords]:
                    okc_, _v = repo.try_fold(a, f.mod)
                    if okc_ or isinstance(a, (ast.Attribute, ast.Name)) and (repo.dotted(a, f.mod) or "").startswith("datetime."):
                        continue
                    iv = res.iv_of(a)
                    if iv.lo is None or iv.hi is None or iv.lo < -999999999 or iv.hi > 999999999:
                        badarg = (a, iv)
                        break
                chk.ob("O1", Site.of(f, n), badarg is None, "date/time built from constants or bounded values" if badarg is None else f"{unparse(n)[:70]}: argument {unparse(badarg[0])[:40]} can be {badarg[1]}: OverflowError / ValueError of datetime escapes on a decoded number that is out of the calendar's range, before (or instead of) the deliberate range error")
            # ---- subscripts
            elif isinstance(n, ast.Subscript) and not isinstance(n.slice, ast.Slice) and isinstance(n.ctx, ast.Load):
                nsites += 1
                ok, why = index_ok(repo, world, f, g, n, grammar_ok)
                chk.ob("O1", Site.of(f, n), ok, why)
            # ---- true division by a possibly zero value
            elif isinstance(n, ast.BinOp) and isinstance(n.op, (ast.Div, ast.FloorDiv, ast.Mod)):
                iv = res.iv_of(n.right)
                if iv.lo is not None and iv.hi is not None and iv.lo <= 0 <= iv.hi and not (isinstance(n.left, ast.Constant) and isinstance(n.left.value, str)):
                    if not isinstance(n.left, (ast.JoinedStr,)) and not (isinstance(n.left, ast.Constant) and isinstance(n.left.value, (str, bytes))):
                        chk.ob("O1", Site.of(f, n), False, f"division by {unparse(n.right)} in {iv}: ZeroDivisionError")
        # ---- loops
        for c in LoopChecker(world, f).all():
            chk.count("region loops")
            chk.ob("O2", Site.of(f, c.node, c.text), c.kind is not None, f"{c.kind}: {c.why}" + (f" ({c.bound})" if c.bound else "") if c.kind else f"no termination/bounded-work certificate: {c.why}")
        # ---- handlers
        for n in body_nodes(f.node):
            if isinstance(n, ast.Try):
                for h in n.handlers:
                    reraises = any(isinstance(x, ast.Raise) for s in h.body for x in ast.walk(s))
                    chk.ob("O1", Site.of(f, h, f"except {unparse(h.type) if h.type else ''}"), reraises, "handler re-raises" if reraises else "an exception handler in the decrypt path continues normally: errors become silent results")
    chk.count("primitive sites", nsites)
    chk.require_min("primitive sites", 45)
    chk.require_min("region loops", 5)
    cyc = cg.recursive(reg)
    chk.ob("O2", Site("src/dpapi_ng", "unprotect region", 0, "no recursion in the region"), not cyc, "the call graph of the region is acyclic: stack depth is bounded by the code, not by the data" if not cyc else f"recursion {cyc[0]}: nesting depth of the input drives the stack")
    unresolved = {k: v for k, v in cg.unresolved.items() if k in reg}
    chk.table("unresolved calls (external leaves)", unresolved)


def _annotation_nodes(f: Func) -> t.Set[int]:
    out: t.Set[int] = set()
    for n in ast.walk(f.node):
        anns: t.List[t.Optional[ast.AST]] = []
        if isinstance(n, ast.AnnAssign):
            anns.append(n.annotation)
        if isinstance(n, ast.arg):
            anns.append(n.annotation)
        if isinstance(n, (ast.FunctionDef, ast.AsyncFunctionDef)):
            anns.append(n.returns)
        for a in anns:
            if a is not None:
                for x in ast.walk(a):
                    out.add(id(x))
    return out


def _struct_size(repo: Repo, f: Func, recv: ast.expr) -> t.Optional[int]:
    """Size in bytes when `recv` denotes struct.Struct(<constant format>) (in place or through a module constant)."""
    import struct as _struct

    e: t.Optional[ast.expr] = recv
    if isinstance(recv, ast.Name):
        r = repo.resolve_name(recv.id, f.mod)
        e = r[2] if isinstance(r, tuple) and r[0] == "const" and len(r) >= 3 else None
    elif isinstance(recv, ast.Attribute) and isinstance(recv.value, ast.Name):
        # cls.S / self.S / Klass.S: a class level constant (also one annotated ClassVar[struct.Struct])
        owner: t.Optional[t.Any] = f.cls if recv.value.id in ("cls", "self") else None
        if owner is None:
            r = repo.resolve_name(recv.value.id, f.mod)
            owner = r[1] if isinstance(r, tuple) and r[0] == "class" else None
        e = None
        for c in owner.mro() if owner is not None else []:
            if recv.attr in c.class_consts:
                e = c.class_consts[recv.attr]
                break
    if isinstance(e, ast.Call) and repo.dotted(e.func, f.mod) == "struct.Struct" and len(e.args) == 1:
        ok, fmt = repo.try_fold(e.args[0], f.mod)
        if ok and isinstance(fmt, (str, bytes)):
            try:
                return _struct.calcsize(fmt)
            except _struct.error:
                return None
    return None


def struct_guard(repo: Repo, f: Func, n: ast.Call, size: int) -> t.Tuple[bool, str]:
    """The conditions dominating the call prove len(buffer) >= size (unpack needs exactly size: only a constant-width
    slice of that size counts)."""
    from sa.linfacts import ge0_facts, goal_ge, proves_ge0
    from .util import atoms_at, prov_text

    if not n.args:
        return False, f"{unparse(n)[:60]}: no buffer argument"
    buf = n.args[0]
    facts = ge0_facts(atoms_at(f, n))
    for b in {unparse(buf), prov_text(f, buf, n)}:
        try:
            ln = ast.parse(f"len({b})", mode="eval").body
        except SyntaxError:
            continue
        if proves_ge0(facts, goal_ge(ln, ast.Constant(value=0), size)):
            return True, f"dominated by a test that the buffer holds the {size} bytes the format needs"
    return False, f"{unparse(n)[:60]} needs {size} bytes: a shorter (truncated) input escapes with struct.error instead of a deliberate error - no dominating length test"


def region_terminates(repo: Repo, chk: Check, rule: str) -> None:
    """Every loop in the functions reachable from the unprotect entry points has a termination / bounded-work certificate
    and the region has no recursion (used by C04: a tampered blob must end in an error or a result, not in a hang)."""
    world = World(repo)
    reg, cg = region(repo, world)
    n = 0
    for q, f in sorted(reg.items()):
        for c in LoopChecker(world, f).all():
            n += 1
            chk.analysed(f)
            chk.ob(rule, Site.of(f, c.node, c.text), c.kind is not None, f"{c.kind}: {c.why}" + (f" ({c.bound})" if c.bound else "") if c.kind else f"no termination/bounded-work certificate: {c.why}")
    cyc = cg.recursive(reg)
    chk.ob(rule, Site("src/dpapi_ng", "unprotect region", 0, "no recursion in the region"), not cyc, "the call graph of the region is acyclic" if not cyc else f"recursion {cyc[0]}: nesting depth of the input drives the stack")
    chk.count("region loops", n)


_SEEDED: t.Set[t.Tuple[int, str]] = set()


def seed_lengths(world: World, lens: Lengths, f: Func) -> None:
    """len(<local byte string>) facts from the length summaries, handed to the interval analysis so that offsets that
    are accumulated statement by statement (`off = nxt; nxt = off + len(part)`) are bounded flow-sensitively."""
    key = (id(world), f.qual)
    if key in _SEEDED:
        return
    _SEEDED.add(key)
    changed = False
    for n in body_nodes(f.node):
        if isinstance(n, ast.Call) and unparse(n.func) == "len" and len(n.args) == 1 and isinstance(n.args[0], ast.Name) and n.args[0].id not in f.params:
            name = n.args[0].id
            if (f.qual, name) in world.len_of:
                continue
            stores = [x for x in body_nodes(f.node) if isinstance(x, ast.Name) and x.id == name and isinstance(x.ctx, ast.Store)]
            if len(stores) != 1:
                continue  # the fact must hold at every use: one definition only
            try:
                iv = lens.varlen(f, name, 0)
            except RecursionError:
                continue
            if iv.lo is not None and iv.hi is not None:
                world.len_of[(f.qual, name)] = iv
                changed = True
    if changed:
        world.results.pop(f.qual, None)


def to_bytes_ok(repo: Repo, world: World, lens: Lengths, f: Func, n: ast.Call) -> t.Tuple[bool, str]:
    seed_lengths(world, lens, f)
    res = world.analyse(f)
    val = n.func.value  # type: ignore[attr-defined]
    okw, width = repo.try_fold(n.args[0], f.mod)
    signed = any(k.arg == "signed" and isinstance(k.value, ast.Constant) and k.value.value for k in n.keywords)
    if not okw or not isinstance(width, int):
        # symbolic width: the pow(y, x, p) < p <= 256**key_length argument (reviewed, side conditions checked here)
        return modexp_width(repo, f, n)
    lo, hi = (-(1 << (8 * width - 1)), (1 << (8 * width - 1)) - 1) if signed else (0, (1 << (8 * width)) - 1)
    iv = res.iv_of(val)
    if iv.within(lo, hi):
        return True, f"{unparse(val)} in {iv} fits {width} byte(s)"
    # sizes of byte strings: length summaries
    liv = len_expr_iv(world, lens, f, val, n)
    if liv is not None and liv.within(lo, hi):
        return True, f"{unparse(val)} in {liv} (length summary) fits {width} byte(s)"
    shown = liv if liv is not None and liv.hi is not None else iv
    return False, f"{unparse(val)} can be {shown} at to_bytes({width}{', signed' if signed else ''}): OverflowError escapes instead of a deliberate error"


_BUSY: t.Set[t.Tuple[str, str]] = set()


def len_expr_iv(world: World, lens: Lengths, f: Func, e: ast.expr, at: ast.AST) -> t.Optional[IV]:
    """Interval of an integer expression built from len(<bytes>) terms, constants and + ."""
    if isinstance(e, ast.Name):
        k = (f.qual, e.id)
        if k in _BUSY:
            return None  # defined in terms of itself (a running offset): left to the flow-sensitive analysis
        _BUSY.add(k)
        try:
            return _len_expr_iv(world, lens, f, e, at)
        finally:
            _BUSY.discard(k)
    return _len_expr_iv(world, lens, f, e, at)


def _len_expr_iv(world: World, lens: Lengths, f: Func, e: ast.expr, at: ast.AST) -> t.Optional[IV]:
    res = world.analyse(f)
    if isinstance(e, ast.Call) and unparse(e.func) == "len" and len(e.args) == 1:
        a = e.args[0]
        if isinstance(a, ast.Name) and a.id in f.params:
            return lens.list_count(f, a.id)
        return lens.exprlen(f, a, at)
    if isinstance(e, ast.BinOp) and isinstance(e.op, ast.Add):
        from sa.intervals import _add

        a = len_expr_iv(world, lens, f, e.left, at)
        b = len_expr_iv(world, lens, f, e.right, at)
        if a is not None and b is not None:
            return _add(a, b)
        return None
    if isinstance(e, ast.Name):
        # offsets accumulated from lengths: var = const; var += len(x)
        from sa.intervals import _add

        base: t.Optional[IV] = None
        extra = IV.const(0)
        # a, b = L  with L a local list that only ever receives `L.append(x)` / a display: each target is one of those x
        for n in body_nodes(f.node):
            if isinstance(n, ast.Assign) and len(n.targets) == 1 and isinstance(n.targets[0], (ast.Tuple, ast.List)) and any(isinstance(x, ast.Name) and x.id == e.id for x in n.targets[0].elts) and isinstance(n.value, ast.Name):
                lst = n.value.id
                vals: t.List[ast.expr] = []
                okl = True
                for m in body_nodes(f.node):
                    if isinstance(m, ast.Assign) and len(m.targets) == 1 and isinstance(m.targets[0], ast.Name) and m.targets[0].id == lst:
                        if isinstance(m.value, (ast.List, ast.Tuple)) and not any(isinstance(x, ast.Starred) for x in m.value.elts):
                            vals += list(m.value.elts)
                        else:
                            okl = False
                    elif isinstance(m, ast.Call) and isinstance(m.func, ast.Attribute) and isinstance(m.func.value, ast.Name) and m.func.value.id == lst:
                        if m.func.attr == "append" and len(m.args) == 1:
                            vals.append(m.args[0])
                        else:
                            okl = False
                    elif isinstance(m, ast.AugAssign) and isinstance(m.target, ast.Name) and m.target.id == lst:
                        okl = False
                if not okl or not vals:
                    return None
                out_iv: t.Optional[IV] = None
                for v_ in vals:
                    iv_ = len_expr_iv(world, lens, f, v_, n)
                    if iv_ is None:
                        return None
                    out_iv = iv_ if out_iv is None else out_iv.join(iv_)
                return out_iv
        for n in body_nodes(f.node):
            if isinstance(n, ast.Assign) and len(n.targets) == 1 and isinstance(n.targets[0], ast.Name) and n.targets[0].id == e.id:
                iv = len_expr_iv(world, lens, f, n.value, n)
                if iv is None:
                    return None
                base = iv if base is None else base.join(iv)
            elif isinstance(n, ast.AugAssign) and isinstance(n.target, ast.Name) and n.target.id == e.id:
                if not isinstance(n.op, (ast.Add, ast.BitOr)):
                    return None
                iv = len_expr_iv(world, lens, f, n.value, n)
                if iv is None:
                    return None
                if isinstance(n.op, ast.BitOr):
                    if base is None or base.hi is None or iv.hi is None:
                        return None
                    bits = max(base.hi.bit_length(), iv.hi.bit_length())
                    base = IV(0, (1 << bits) - 1)
                    continue
                from sa.intervals import _mul

                iv = _mul(iv, lens.trip_count(f, n))
                extra = _add(extra, IV(0, iv.hi) if lens.conditional(f, n) else iv)
        if base is None:
            return None
        return _add(base, extra)
    iv = res.iv_of(e)
    if iv.lo is not None and iv.hi is not None:
        return iv
    return None


def modexp_width(repo: Repo, f: Func, n: ast.Call) -> t.Tuple[bool, str]:
    """X.to_bytes(K.key_length) with X = pow(_, _, K.field_order) and K = FFCDHKey.unpack(..): X < p < 256**key_length
    because FFCDHKey.unpack reads field_order from exactly key_length bytes."""
    from sa.flow import ReachingDefs

    rd = ReachingDefs(f)
    val = n.func.value  # type: ignore[attr-defined]
    width = n.args[0]
    why = f"{unparse(n)[:70]}: width is not constant"
    if not (isinstance(val, ast.Name) and isinstance(width, ast.Attribute) and isinstance(width.value, ast.Name)):
        return False, why
    d = rd.single_def(val.id, n)
    if d is None or not isinstance(d.value, ast.Call) or unparse(d.value.func) != "pow" or len(d.value.args) != 3:
        return False, why + f" and {val.id} is not a modular power"
    m = d.value.args[2]
    if not (isinstance(m, ast.Attribute) and unparse(m.value) == unparse(width.value)):
        return False, why + " and the modulus does not belong to the same key object"
    kd = rd.single_def(unparse(width.value), n)
    if kd is None or not isinstance(kd.value, ast.Call) or not unparse(kd.value.func).endswith(".unpack"):
        return False, why + " and the key object does not come from a decoder"
    cls = repo.resolve(kd.value.func.value, f.mod) if isinstance(kd.value.func, ast.Attribute) else None
    if not isinstance(cls, Cls):
        return False, why
    up = cls.methods.get("unpack")
    if up is None:
        return False, why
    from sa import layout

    for p in layout.reader_paths(repo, up):
        res = p.result
        fields = getattr(res, "fields", {})
        mod_v = fields.get(m.attr)
        wid_v = fields.get(width.attr)
        rid = None
        for a in getattr(mod_v, "atoms", lambda: [])():
            if a[0] == "read":
                rid = a[1]
        rdrec = [r for r in p.reads if r.rid == rid]
        if not rdrec or not (rdrec[0].hi - rdrec[0].lo == wid_v) or rdrec[0].a.get("signed"):
            return False, f"{cls.name}.unpack does not read {m.attr} from exactly {width.attr} bytes: pow(...) % {m.attr} may need more than {width.attr} bytes"
    return True, f"pow(.., .., {unparse(m)}) < {unparse(m)} < 256**{unparse(width)} because {cls.name}.unpack reads {m.attr} from exactly {width.attr} bytes"


def index_ok(repo: Repo, world: World, f: Func, g: t.Any, n: ast.Subscript, grammar_ok: bool) -> t.Tuple[bool, str]:
    base = n.value
    txt = unparse(n)
    # tuple returned by struct.unpack: fixed arity
    if isinstance(base, ast.Call) and unparse(base.func) == "struct.unpack":
        okf, fmt = repo.try_fold(base.args[0], f.mod)
        okc, idx = repo.try_fold(n.slice, f.mod)
        if okf and okc and isinstance(idx, int) and 0 <= idx < len(str(fmt).lstrip("<>=!@")):
            return True, "element of the fixed-size struct.unpack result"
    # dict literal indexed by a closed set of keys
    if isinstance(base, ast.Dict):
        return dict_key_ok(repo, world, f, n)
    from .util import atoms_at, prov_text

    b = unparse(base)
    bp = prov_text(f, base, n)
    okc, idx = repo.try_fold(n.slice, f.mod)
    # a local whose every binding is a tuple display (or a package call annotated to return a fixed-size tuple) long
    # enough, and that is never changed in place
    if isinstance(base, ast.Name) and okc and isinstance(idx, int) and not isinstance(idx, bool) and base.id not in f.params:
        sizes: t.List[t.Optional[int]] = []
        touched = False
        for m in body_nodes(f.node):
            if isinstance(m, ast.Assign):
                for tg in m.targets:
                    if isinstance(tg, ast.Name) and tg.id == base.id:
                        v = m.value
                        if isinstance(v, ast.Tuple) and not any(isinstance(x, ast.Starred) for x in v.elts):
                            sizes.append(len(v.elts))
                        else:
                            sizes.append(None)
                    elif any(isinstance(x, ast.Name) and x.id == base.id and isinstance(x.ctx, (ast.Store, ast.Del)) for x in ast.walk(tg)):
                        touched = True
            elif isinstance(m, (ast.AugAssign, ast.AnnAssign, ast.For, ast.With, ast.NamedExpr)) and any(isinstance(x, ast.Name) and x.id == base.id and isinstance(x.ctx, (ast.Store, ast.Del)) for x in ast.walk(m.target if hasattr(m, "target") else m)):
                touched = True
        if sizes and not touched and all(k is not None and -k <= idx < k for k in sizes):
            return True, f"{base.id} is a {min(t.cast(t.List[int], sizes))}-tuple display on every path"
    # x[i] where len(x) == k is known (dominating guard, guard through a flag variable, or short-circuit operand)
    for c, pol in atoms_at(f, n):
        if isinstance(c, ast.Compare) and len(c.ops) == 1:
            for lhs, rhs, op in ((c.left, c.comparators[0], c.ops[0]), (c.comparators[0], c.left, c.ops[0])):
                if unparse(lhs) in (f"len({b})", f"len({bp})"):
                    okk, k = repo.try_fold(rhs, f.mod)
                    if okk and isinstance(k, int) and okc and isinstance(idx, int):
                        if (isinstance(op, ast.NotEq) and pol is False) or (isinstance(op, ast.Eq) and pol):
                            if 0 <= idx < k:
                                return True, f"evaluated only when len({b}) == {k}"
    # value ranges: 0 <= index < (lower bound of the length), from guards such as `if not v: raise`, `len(v) < n`,
    # the exit condition of `while len(v) < n` growth loops
    if isinstance(base, ast.Name):
        res0 = world.analyse(f)
        env0 = res0.env_at(n)
        if env0:
            ln0 = res0._call_iv(ast.Call(func=ast.Name(id="len", ctx=ast.Load()), args=[base], keywords=[]), env0)
            ix0 = res0.eval(n.slice, env0)
            if ln0.lo is not None and ix0.lo is not None and ix0.hi is not None and (0 <= ix0.lo and ix0.hi < ln0.lo or ix0.hi < 0 and -ln0.lo <= ix0.lo):
                return True, f"index {ix0} within the length {ln0} established by the guards before it"
    # components of the SID string after the grammar matched
    if f.qual == "_security_descriptor.sid_to_bytes" and isinstance(base, ast.Name):
        res = world.analyse(f)
        ln = world.len_of.get((f.qual, base.id))
        iv = res.iv_of(n.slice)
        if grammar_ok and ln is not None and ln.lo is not None and iv.lo is not None and iv.hi is not None and 0 <= iv.lo and iv.hi < ln.lo:
            return True, f"index {iv} < number of components {ln} guaranteed by the SID grammar (C08-O1)"
        if grammar_ok and ln is not None and iv.lo is not None and iv.lo >= 0 and _index_from_range_len(f, n, base.id):
            return True, "index runs over range(.., len(components))"
    return False, f"{txt}: index into '{b}' without a proof that the element exists (IndexError/KeyError escapes instead of a deliberate error)"


def _index_from_range_len(f: Func, n: ast.Subscript, base: str) -> bool:
    if not isinstance(n.slice, ast.Name):
        return False
    for loop in [x for x in body_nodes(f.node) if isinstance(x, ast.For) and any(y is n for y in ast.walk(x))]:
        if isinstance(loop.target, ast.Name) and loop.target.id == n.slice.id and isinstance(loop.iter, ast.Call) and unparse(loop.iter.func) == "range":
            stop = loop.iter.args[-1] if len(loop.iter.args) < 3 else loop.iter.args[1]
            if unparse(stop) == f"len({base})":
                return True
    return False


def _enclosing_boolop(f: Func, n: ast.AST) -> t.Optional[t.Tuple[ast.boolop, t.List[ast.expr]]]:
    for b in body_nodes(f.node):
        if isinstance(b, ast.BoolOp):
            for i, v in enumerate(b.values):
                if any(x is n for x in ast.walk(v)):
                    return b.op, list(b.values[:i])
    return None


def dict_key_ok(repo: Repo, world: World, f: Func, n: ast.Subscript) -> t.Tuple[bool, str]:
    """{...}[self.F]: F only ever holds one of the literal keys (every construction site passes a value from a
    guarded constant table with those values, or the same field of another instance)."""
    okd, table = repo.try_fold(ast.Dict(keys=n.value.keys, values=[ast.Constant(value=0) for _ in n.value.keys]), f.mod)  # type: ignore[attr-defined]
    key = n.slice
    if not okd or not (isinstance(key, ast.Attribute) and isinstance(key.value, ast.Name) and key.value.id == "self" and f.cls is not None):
        return False, f"{unparse(n)[:60]}: dictionary subscript with a key that is not shown to be present (KeyError)"
    keys = set(table)
    world.callsites()
    assert world._ctor_sites is not None
    sites = world._ctor_sites.get(f.cls.qual, [])
    params = [p.name for p in f.cls.init_params()]
    if not sites:
        return False, f"no construction site of {f.cls.name} found"
    for caller, call in sites:
        arg = None
        for kw in call.keywords:
            if kw.arg == key.attr:
                arg = kw.value
        if arg is None and key.attr in params and params.index(key.attr) < len(call.args):
            arg = call.args[params.index(key.attr)]
        if arg is None:
            return False, f"{caller.qual} constructs {f.cls.name} without {key.attr}"
        if isinstance(arg, ast.Attribute) and arg.attr == key.attr:
            continue  # copied from another instance of the same class
        from sa.flow import ReachingDefs

        rd = ReachingDefs(caller)
        d = rd.single_def(unparse(arg), call) if isinstance(arg, ast.Name) else None
        v = d.value if d is not None else None
        ok = False
        if isinstance(v, ast.Call) and isinstance(v.func, ast.Attribute) and v.func.attr == "get":
            # TABLE.get(code) with a constant table (literal, module constant or its inverse comprehension)
            okv, tbl = repo.try_fold(v.func.value, caller.mod)
            vals = list(tbl.values()) if okv and isinstance(tbl, dict) else []
            okv = okv and isinstance(tbl, dict) and all(isinstance(x, str) for x in vals)
            g = build(caller.node)
            nid = rd.node_of(call)
            guards = g.guards_of(nid) if nid is not None else []
            guarded = any(unparse(c) == unparse(arg) and pol for c, pol in guards) or any(
                isinstance(c, ast.Compare) and len(c.ops) == 1 and unparse(c.left) == unparse(arg) and isinstance(c.comparators[0], ast.Constant) and c.comparators[0].value is None
                and (isinstance(c.ops[0], ast.IsNot) and pol or isinstance(c.ops[0], ast.Is) and not pol) for c, pol in guards)
            ok = bool(okv and vals and set(vals) <= keys and guarded)
        if not ok:
            return False, f"{caller.qual} can construct {f.cls.name} with a {key.attr} outside {sorted(keys)}: KeyError in {f.name}"
    return True, f"{key.attr} is always one of {sorted(keys)}: every construction site takes it from a guarded constant table or copies it"
