"""C17 - online vs a conforming DC: faithful requests, correct results, sync = async."""

from __future__ import annotations

import ast
import typing as t
import uuid

from sa import twins
from sa.flow import ReachingDefs
from sa.load import AnalysisError, EnumVal, Func, Obj, Repo, body_nodes, unparse
from sa.report import Check, Site

from .c15 import call_of

ISD_KEY = uuid.UUID("b9785960-524f-11df-8b6d-83dcded72085")  # MS-GKDI 1.9
EPM = uuid.UUID("e1af8308-5d1f-11c9-91a4-08002b14a0fa")  # C706 appendix O
NDR = uuid.UUID("8a885d04-1ceb-11c9-9fe8-08002b104860")  # C706
NDR64 = uuid.UUID("71710533-beba-4937-8319-b5dbef9ccc36")  # MS-RPCE 2.2.5
BTFN_PREFIX = "6cb71c2c-9812-4540-"  # MS-RPCE 2.2.2.14 bind time feature negotiation


def run(repo: Repo, chk: Check) -> None:
    chk.scope_decides = (
        "O1 the sync and async flavours are twins (GetKey conversation, bind, request, the four API functions) modulo await and the named "
        "counterparts; O2 unprotect requests exactly blob.key_identifier.{root_key_identifier, l0, l1, l2} with the SD built from the blob's "
        "descriptor, protect requests (-1, -1, -1) with the caller's root key id, and GetKey receives them in role-correct positions and "
        "serialises them per the NDR64 reference (C11); O3 conversation constants: unauthenticated endpoint-mapper leg (opnum 3, ISD_KEY tower), "
        "authenticated second leg on the mapped port with contexts {0: ISD_KEY/NDR64, 1: ISD_KEY/bind-time-features}, GetKey opnum 0 with the "
        "PCONTEXT|END verification trailer, UUID/version constants against the specifications; O4 PKT_PRIVACY sealing and framing (C16/C13/C15 obligations)."
    )
    chk.scope_not = "that results decrypt correctly for every key position (numerical; C02/C03 own the structural part)."
    chk.trusted = ["UUID/version constants transcribed from MS-GKDI 1.9, C706 and MS-RPCE"]
    twin_obligations(repo, chk)
    fidelity(repo, chk)
    constants(repo, chk)
    conversation(repo, chk)
    # shared obligations that the statement names explicitly
    from . import codecs
    from .c11 import _reference as c11_reference
    from .c11 import _reply, _trim
    from .c15 import relay
    from .c16 import provider

    codecs.plain(repo, chk, "O2", "_gkdi.GetKey")
    c11_reference(repo, chk)
    _reply(repo, chk)
    _trim(repo, chk)
    provider(repo, chk)
    for q in ("_rpc._client.SyncRpcClient.bind", "_rpc._client.AsyncRpcClient.bind"):
        relay(repo, chk, repo.func(q))


TWINS = [
    ("_client._sync_get_key", "_client._async_get_key", {"create_rpc_connection": "CONNECT"}, {"async_create_rpc_connection": "CONNECT"}),
    ("_rpc._client.SyncRpcClient.bind", "_rpc._client.AsyncRpcClient.bind", {}, {}),
    ("_rpc._client.SyncRpcClient.request", "_rpc._client.AsyncRpcClient.request", {}, {}),
    ("_client.ncrypt_unprotect_secret", "_client.async_ncrypt_unprotect_secret", {"lookup_dc": "LOOKUP", "_sync_get_key": "GETKEY"}, {"async_lookup_dc": "LOOKUP", "_async_get_key": "GETKEY"}),
    ("_client.ncrypt_protect_secret", "_client.async_ncrypt_protect_secret", {"lookup_dc": "LOOKUP", "_sync_get_key": "GETKEY"}, {"async_lookup_dc": "LOOKUP", "_async_get_key": "GETKEY"}),
]


def twin_obligations(repo: Repo, chk: Check) -> None:
    for a, b, na, nb in TWINS:
        fa, fb = repo.func(a), repo.func(b)
        chk.analysed(fa, fb)
        chk.count("twin pairs")
        d = twins.diff(repo, fa, fb, na, nb)
        chk.ob("O1", Site.of(fb, construct=f"{fa.name} == {fb.name} modulo await"), d is None, "twins agree statement by statement" if d is None else f"the two flavours differ at statement {d[2]}: sync '{d[0][:160]}' vs async '{d[1][:160]}'")
    # parameter lists (names, order, defaults) of the public pairs
    for a, b, _, _ in TWINS[3:]:
        fa, fb = repo.func(a), repo.func(b)
        sa = [(p, unparse(fa.param_default(p))) for p in fa.params]
        sb = [(p, unparse(fb.param_default(p))) for p in fb.params]
        chk.ob("O1", Site.of(fb, construct=f"signature of {fb.name}"), sa == sb, "same parameters and defaults" if sa == sb else f"signatures differ: {sa} vs {sb}")
    # the two connection factories pass the same things on
    fa, fb = repo.func("_rpc._client.create_rpc_connection"), repo.func("_rpc._client.async_create_rpc_connection")
    for f in (fa, fb):
        ap = [n for n in body_nodes(f.node) if isinstance(n, ast.Call) and unparse(n.func) == "AuthenticationProvider"]
        ok = len(ap) == 1 and [unparse(x) for x in ap[0].args] == ["username", "password", "server", "auth_protocol"]
        chk.ob("O1", Site.of(f, ap[0] if ap else None, None if ap else "AuthenticationProvider"), ok, "provider built from (username, password, server, auth_protocol)" if ok else "the authentication provider is not built from (username, password, server, auth_protocol)")
        guard = [n for n in body_nodes(f.node) if isinstance(n, ast.If) and unparse(n.test) == "auth_protocol"]
        chk.ob("O1", Site.of(f, guard[0] if guard else None, None if guard else "auth guard"), bool(guard), "authenticated iff an auth protocol is given")
    chk.require_min("twin pairs", 5)


def fidelity(repo: Repo, chk: Check) -> None:
    # ---- unprotect: arguments of the GetKey conversation
    for q, rpc in (("_client.ncrypt_unprotect_secret", "_sync_get_key"), ("_client.async_ncrypt_unprotect_secret", "_async_get_key")):
        f = repo.func(q)
        rd = ReachingDefs(f)
        calls = [n for n in body_nodes(f.node) if isinstance(n, ast.Call) and unparse(n.func) == rpc]
        if len(calls) != 1:
            raise AnalysisError(f"{q}: {rpc} call changed")
        c = calls[0]
        site = Site.of(f, c)
        args = [unparse(a) for a in c.args]
        want = ["server", "target_sd", "blob.key_identifier.root_key_identifier", "blob.key_identifier.l0", "blob.key_identifier.l1", "blob.key_identifier.l2"]
        chk.ob("O2", site, args == want, "requests (SD, root key id, L0, L1, L2) named by the blob, in that order" if args == want else f"GetKey arguments are {args}, expected {want}")
        kws = {k.arg: unparse(k.value) for k in c.keywords if k.arg}
        wk = {"username": "username", "password": "password", "auth_protocol": "auth_protocol"}
        chk.ob("O2", site, kws == wk, "credentials and protocol passed through" if kws == wk else f"keyword arguments {kws}")
        # target_sd = blob.protection_descriptor.get_target_sd(); blob = DPAPINGBlob.unpack(data)
        d = rd.single_def("target_sd", c)
        oks = d is not None and d.value is not None and unparse(d.value) == "blob.protection_descriptor.get_target_sd()"
        chk.ob("O2", site, oks, "SD derived from the blob's protection descriptor" if oks else f"target_sd is {unparse(d.value) if d is not None and d.value is not None else '?'}")
        b = rd.single_def("blob", c)
        okb = b is not None and b.value is not None and unparse(b.value) == f"DPAPINGBlob.unpack({f.params[0]})"
        chk.ob("O2", site, okb, "blob = DPAPINGBlob.unpack(data)")
    # ---- protect: (-1, -1, -1) and the caller's root key id
    for q, rpc in (("_client.ncrypt_protect_secret", "_sync_get_key"), ("_client.async_ncrypt_protect_secret", "_async_get_key")):
        f = repo.func(q)
        rd = ReachingDefs(f)
        calls = [n for n in body_nodes(f.node) if isinstance(n, ast.Call) and unparse(n.func) == rpc]
        if len(calls) != 1:
            raise AnalysisError(f"{q}: {rpc} call changed")
        c = calls[0]
        site = Site.of(f, c)
        ok = len(c.args) == 6 and unparse(c.args[0]) == "server" and unparse(c.args[2]) == "root_key_identifier"
        vals = []
        for a in c.args[3:6]:
            v: t.Any = None
            if isinstance(a, ast.Name):
                dd = rd.single_def(a.id, c)
                if dd is not None and dd.value is not None:
                    okf, v = repo.try_fold(dd.value, f.mod)
            else:
                okf, v = repo.try_fold(a, f.mod)
            vals.append(v)
        ok = ok and vals == [-1, -1, -1]
        chk.ob("O2", site, ok, "protect asks for the current key: (root key id, -1, -1, -1)" if ok else f"protect requests {[unparse(a) for a in c.args]} with index values {vals}, expected (server, sd, root_key_identifier, -1, -1, -1)")
        d = rd.single_def(unparse(c.args[1]), c) if isinstance(c.args[1], ast.Name) else None
        oks = d is not None and d.value is not None and unparse(d.value).endswith(".get_target_sd()")
        chk.ob("O2", site, oks, "SD derived from the given protection descriptor")
    # ---- GetKey construction inside the conversation: role-correct positions
    gk = repo.cls("_gkdi.GetKey")
    params = [p.name for p in gk.init_params()]
    want_roles = ["target_sd", "root_key_id", "l0_key_id", "l1_key_id", "l2_key_id"]
    chk.ob("O2", Site(gk.mod.rel, gk.qual, gk.node.lineno, "GetKey field order"), params == want_roles, f"GetKey({', '.join(params)})" if params == want_roles else f"GetKey init parameters are {params}")
    for q in ("_client._sync_get_key", "_client._async_get_key"):
        f = repo.func(q)
        ctor = [n for n in body_nodes(f.node) if isinstance(n, ast.Call) and unparse(n.func) == "GetKey"]
        if len(ctor) != 1:
            raise AnalysisError(f"{q}: GetKey construction changed")
        a = [unparse(x) for x in ctor[0].args] + [f"{k.arg}={unparse(k.value)}" for k in ctor[0].keywords]
        ok = a == ["target_sd", "root_key_id", "l0", "l1", "l2"]
        chk.ob("O2", Site.of(f, ctor[0]), ok, "GetKey(target_sd, root_key_id, l0, l1, l2)" if ok else f"GetKey built from {a}: an index transposition requests another key")
        pn = [p for p in f.params]
        okp = pn[:6] == ["server", "target_sd", "root_key_id", "l0", "l1", "l2"]
        chk.ob("O2", Site.of(f, construct=f"{f.name} parameter order"), okp, "parameters (server, target_sd, root_key_id, l0, l1, l2)" if okp else f"parameter order is {pn}")


def _syntax(o: t.Any) -> t.Tuple[t.Any, t.Any, t.Any]:
    return (o.attrs.get("uuid"), o.attrs.get("version"), o.attrs.get("version_minor")) if isinstance(o, Obj) else (None, None, None)


def constants(repo: Repo, chk: Check) -> None:
    m = repo.mod("_client")
    anchor = repo.func("_client._sync_get_key")

    def const(name: str, mod: t.Any = m) -> t.Any:
        okf, v = repo.try_fold(ast.Name(id=name, ctx=ast.Load()), mod)
        if not okf:
            raise AnalysisError(f"constant {name} is not foldable any more")
        return v

    def ob(what: str, ok: bool, detail: str) -> None:
        chk.count("constants")
        chk.ob("O3", Site(m.rel, "_client module constants", 0, what), ok, detail)

    isd = const("ISD_KEY")
    ob("ISD_KEY interface", _syntax(isd) == (ISD_KEY, 1, 0), f"{_syntax(isd)}")
    ob("EPM interface", _syntax(const("EPM")) == (EPM, 3, 0), f"{_syntax(const('EPM'))}")
    ob("NDR transfer syntax", _syntax(const("NDR")) == (NDR, 2, 0), f"{_syntax(const('NDR'))}")
    ob("NDR64 transfer syntax", _syntax(const("NDR64")) == (NDR64, 1, 0), f"{_syntax(const('NDR64'))}")
    epm_ctx = const("_EPM_CONTEXTS")
    ok = isinstance(epm_ctx, list) and len(epm_ctx) == 1 and epm_ctx[0].attrs.get("context_id") == 0 and _syntax(epm_ctx[0].attrs.get("abstract_syntax")) == (EPM, 3, 0) and [_syntax(x) for x in epm_ctx[0].attrs.get("transfer_syntaxes", [])] == [(NDR64, 1, 0)]
    ob("_EPM_CONTEXTS", ok, "one context: id 0, EPM v3.0 over NDR64" if ok else f"{epm_ctx!r}")
    ic = const("_ISD_KEY_CONTEXTS")
    ok = isinstance(ic, list) and len(ic) == 2 and [c.attrs.get("context_id") for c in ic] == [0, 1] and all(_syntax(c.attrs.get("abstract_syntax")) == (ISD_KEY, 1, 0) for c in ic)
    ok = ok and [_syntax(x) for x in ic[0].attrs.get("transfer_syntaxes", [])] == [(NDR64, 1, 0)]
    bt = ic[1].attrs.get("transfer_syntaxes", [None])[0] if ok else None
    okb = ok and isinstance(bt, Obj) and str(bt.attrs.get("uuid")).startswith(BTFN_PREFIX) and bt.attrs.get("version") == 1
    ob("_ISD_KEY_CONTEXTS", bool(okb), "contexts {0: ISD_KEY/NDR64, 1: ISD_KEY/bind time feature negotiation}" if okb else f"{ic!r}")
    em = const("_EPT_MAP_ISD_KEY")
    tower = em.attrs.get("tower") if isinstance(em, Obj) else None
    okt = isinstance(tower, list) and [t_.cls.name for t_ in tower] == ["UUIDFloor", "UUIDFloor", "RPCConnectionOrientedFloor", "TCPFloor", "IPFloor"]
    okt = okt and (tower[0].attrs.get("uuid"), tower[0].attrs.get("version"), tower[0].attrs.get("version_minor")) == (ISD_KEY, 1, 0)
    okt = okt and (tower[1].attrs.get("uuid"), tower[1].attrs.get("version"), tower[1].attrs.get("version_minor")) == (NDR, 2, 0)
    okt = okt and tower[3].attrs.get("port") == 135 and tower[4].attrs.get("addr") == 0 and em.attrs.get("obj") is None and em.attrs.get("entry_handle") is None
    ob("_EPT_MAP_ISD_KEY", bool(okt), "ept_map for the ISD_KEY/NDR tcp-ip tower, null object and entry handle" if okt else f"{em!r}")
    okm = isinstance(em, Obj) and isinstance(em.attrs.get("max_towers"), int) and 1 <= em.attrs["max_towers"] <= 500
    ob("_EPT_MAP_ISD_KEY.max_towers", okm, f"max_towers = {em.attrs.get('max_towers') if isinstance(em, Obj) else '?'} in [1, 500]")
    vt = const("_VERIFICATION_TRAILER")
    cmds = vt.attrs.get("commands") if isinstance(vt, Obj) else None
    okv = isinstance(cmds, list) and len(cmds) == 1 and cmds[0].cls.name == "CommandPContext"
    if okv:
        c0 = cmds[0]
        fl = c0.attrs.get("flags")
        okv = isinstance(fl, EnumVal) and fl.value == 0x4000 and _syntax(c0.attrs.get("interface_id")) == (ISD_KEY, 1, 0) and _syntax(c0.attrs.get("transfer_syntax")) == (NDR64, 1, 0)
    ob("_VERIFICATION_TRAILER", bool(okv), "one PCONTEXT command flagged END naming ISD_KEY over NDR64" if okv else f"{vt!r}")
    # opnums
    for q, want in (("_gkdi.GetKey", 0), ("_epm.EptMap", 3)):
        cls = repo.cls(q)
        fld = cls.field("opnum")
        okf, v = repo.try_fold(fld.default, cls.mod) if fld is not None and fld.default is not None else (False, None)
        ob(f"{cls.name}.opnum", okf and v == want and fld is not None and not fld.init, f"opnum {v}")
    chk.require_min("constants", 11)
    del anchor


def conversation(repo: Repo, chk: Check) -> None:
    for q in ("_client._sync_get_key", "_client._async_get_key"):
        f = repo.func(q)
        chk.analysed(f)
        conns = sorted([n for n in body_nodes(f.node) if isinstance(n, ast.Call) and unparse(n.func) in ("create_rpc_connection", "async_create_rpc_connection")], key=lambda n: n.lineno)
        if len(conns) != 2:
            chk.ob("O3", Site.of(f, construct="two connections"), False, f"{len(conns)} RPC connections, expected endpoint mapper then ISD_KEY")
            continue
        a0 = [unparse(a) for a in conns[0].args] + [k.arg for k in conns[0].keywords]
        ok0 = a0 == ["server"]
        chk.ob("O3", Site.of(f, conns[0]), ok0, "endpoint mapper leg: default port, no authentication" if ok0 else f"first connection is created with {a0}")
        a1 = [unparse(a) for a in conns[1].args]
        k1 = {k.arg: unparse(k.value) for k in conns[1].keywords if k.arg}
        ok1 = len(a1) == 2 and a1[0] == "server" and k1 == {"username": "username", "password": "password", "auth_protocol": "auth_protocol"}
        chk.ob("O3", Site.of(f, conns[1]), ok1, "second leg: mapped port, caller's credentials and protocol" if ok1 else f"second connection is created with {a1} {k1}")
        rd = ReachingDefs(f)
        port = conns[1].args[1] if len(conns[1].args) > 1 else None
        d = rd.single_def(unparse(port), conns[1]) if isinstance(port, ast.Name) else None
        okp = d is not None and d.value is not None and unparse(d.value).startswith("_process_ept_map_result(")
        chk.ob("O3", Site.of(f, conns[1]), okp, "port = _process_ept_map_result(reply of ept_map)" if okp else "the second connection does not use the port returned by the endpoint mapper")
        reqs = sorted([n for n in body_nodes(f.node) if isinstance(n, ast.Call) and unparse(n.func).endswith(".request")], key=lambda n: n.lineno)
        binds = sorted([n for n in body_nodes(f.node) if isinstance(n, ast.Call) and unparse(n.func).endswith(".bind")], key=lambda n: n.lineno)
        okb = len(binds) == 2 and [unparse(k.value) for b in binds for k in b.keywords if k.arg == "contexts"] == ["_EPM_CONTEXTS", "_ISD_KEY_CONTEXTS"]
        chk.ob("O3", Site.of(f, binds[0] if binds else None, None if binds else "bind calls"), okb, "binds EPM contexts first, ISD_KEY contexts second" if okb else "bind calls do not offer _EPM_CONTEXTS then _ISD_KEY_CONTEXTS")
        if len(reqs) != 2:
            chk.ob("O3", Site.of(f, construct="two requests"), False, f"{len(reqs)} requests")
            continue
        r0, r1 = reqs
        a = [unparse(x) for x in r0.args]
        em = rd.single_def("ept_map", r0)
        ok = len(a) == 3 and a[1] == "ept_map.opnum" and a[2] == "ept_map.pack()" and em is not None and unparse(em.value) == "_EPT_MAP_ISD_KEY" and not r0.keywords
        chk.ob("O3", Site.of(f, r0), ok, "ept_map request: opnum and stub of _EPT_MAP_ISD_KEY, no verification trailer" if ok else f"endpoint mapper request is {unparse(r0)[:120]}")
        a = [unparse(x) for x in r1.args]
        k = {kw.arg: unparse(kw.value) for kw in r1.keywords if kw.arg}
        ok = len(a) == 3 and a[1] == "get_key.opnum" and a[2] == "get_key.pack()" and k == {"verification_trailer": "_VERIFICATION_TRAILER"}
        chk.ob("O3", Site.of(f, r1), ok, "GetKey request: opnum and stub of the GetKey object, with the interface verification trailer" if ok else f"GetKey request is {unparse(r1)[:160]}: opnum/stub/verification trailer differ")
        rets = [n for n in body_nodes(f.node) if isinstance(n, ast.Return)]
        okr = len(rets) == 1 and unparse(rets[0].value) == "_process_get_key_result(resp)" and rd.single_def("resp", rets[0]) is not None and (call_of(rd.single_def("resp", rets[0]).value) or (None, None, None, None))[3] is r1  # type: ignore[union-attr]
        chk.ob("O3", Site.of(f, rets[0] if rets else None, None if rets else "return"), bool(okr), "returns the envelope decoded from the GetKey reply" if okr else "the function does not return _process_get_key_result(<GetKey reply>)")
