"""C17 - online vs a conforming DC: faithful requests, correct results, sync = async."""

from __future__ import annotations

import ast
import typing as t
import uuid

from sa import twins
from sa.flow import ReachingDefs
from sa.load import AnalysisError, EnumVal, Func, Obj, Repo, body_nodes, unparse
from sa.report import Check, Site

from .c15 import call_of

ISD_KEY = uuid.UUID("b9785960-524f-11df-8b6d-83dcded72085")  # MS-GKDI 1.9
EPM = uuid.UUID("e1af8308-5d1f-11c9-91a4-08002b14a0fa")  # C706 appendix O
NDR = uuid.UUID("8a885d04-1ceb-11c9-9fe8-08002b104860")  # C706
NDR64 = uuid.UUID("71710533-beba-4937-8319-b5dbef9ccc36")  # MS-RPCE 2.2.5
BTFN_PREFIX = "6cb71c2c-9812-4540-"  # MS-RPCE 2.2.2.14 bind time feature negotiation


def run(repo: Repo, chk: Check) -> None:
    chk.scope_decides = (
        "O1 the sync and async flavours are twins (GetKey conversation, bind, request, the four API functions) modulo await and the named "
        "counterparts; O2 unprotect requests exactly blob.key_identifier.{root_key_identifier, l0, l1, l2} with the SD built from the blob's "
        "descriptor, protect requests (-1, -1, -1) with the caller's root key id, and GetKey receives them in role-correct positions and "
        "serialises them per the NDR64 reference (C11); O3 conversation constants: unauthenticated endpoint-mapper leg (opnum 3, ISD_KEY tower), "
        "authenticated second leg on the mapped port with contexts {0: ISD_KEY/NDR64, 1: ISD_KEY/bind-time-features}, GetKey opnum 0 with the "
        "PCONTEXT|END verification trailer, UUID/version constants against the specifications; O4 PKT_PRIVACY sealing and framing (C16/C13/C15 obligations)."
    )
    chk.scope_not = "that results decrypt correctly for every key position (numerical; C02/C03 own the structural part)."
    chk.trusted = ["UUID/version constants transcribed from MS-GKDI 1.9, C706 and MS-RPCE"]
    twin_obligations(repo, chk)
    fidelity(repo, chk)
    constants(repo, chk)
    conversation(repo, chk)
    shared_constants(repo, chk)
    # shared obligations that the statement names explicitly
    from . import codecs
    from .c11 import _reference as c11_reference
    from .c11 import _reply, _trim
    from .c15 import relay
    from .c16 import provider

    codecs.plain(repo, chk, "O2", "_gkdi.GetKey")
    c11_reference(repo, chk)
    _reply(repo, chk)
    _trim(repo, chk)
    provider(repo, chk)
    for q in ("_rpc._client.SyncRpcClient.bind", "_rpc._client.AsyncRpcClient.bind"):
        relay(repo, chk, repo.func(q))
    # "decrypts / produces blobs the DC's key opens": the key for the requested position is derived from whatever covering
    # envelope the DC (or the cache filled from it) handed over (C02 chain-walk obligations)
    from .c02 import l2_obligations

    l2_obligations(repo, chk)


TWINS = [
    ("_client._sync_get_key", "_client._async_get_key", {"create_rpc_connection": "CONNECT"}, {"async_create_rpc_connection": "CONNECT"}),
    ("_rpc._client.SyncRpcClient.bind", "_rpc._client.AsyncRpcClient.bind", {}, {}),
    ("_rpc._client.SyncRpcClient.request", "_rpc._client.AsyncRpcClient.request", {}, {}),
    ("_client.ncrypt_unprotect_secret", "_client.async_ncrypt_unprotect_secret", {"lookup_dc": "LOOKUP", "_sync_get_key": "GETKEY"}, {"async_lookup_dc": "LOOKUP", "_async_get_key": "GETKEY"}),
    ("_client.ncrypt_protect_secret", "_client.async_ncrypt_protect_secret", {"lookup_dc": "LOOKUP", "_sync_get_key": "GETKEY"}, {"async_lookup_dc": "LOOKUP", "_async_get_key": "GETKEY"}),
]


def twin_obligations(repo: Repo, chk: Check) -> None:
    for a, b, na, nb in TWINS:
        fa, fb = repo.func(a), repo.func(b)
        chk.analysed(fa, fb)
        chk.count("twin pairs")
        d = twins.diff(repo, fa, fb, na, nb)
        chk.ob("O1", Site.of(fb, construct=f"{fa.name} == {fb.name} modulo await"), d is None, "twins agree statement by statement" if d is None else f"the two flavours differ at statement {d[2]}: sync '{d[0][:160]}' vs async '{d[1][:160]}'")
    # parameter lists (names, order, defaults) of the public pairs
    for a, b, _, _ in TWINS[3:]:
        fa, fb = repo.func(a), repo.func(b)
        sa = [(p, unparse(fa.param_default(p))) for p in fa.params]
        sb = [(p, unparse(fb.param_default(p))) for p in fb.params]
        chk.ob("O1", Site.of(fb, construct=f"signature of {fb.name}"), sa == sb, "same parameters and defaults" if sa == sb else f"signatures differ: {sa} vs {sb}")
    # the two connection factories pass the same things on
    fa, fb = repo.func("_rpc._client.create_rpc_connection"), repo.func("_rpc._client.async_create_rpc_connection")
    for f in (fa, fb):
        ap = [n for n in body_nodes(f.node) if isinstance(n, ast.Call) and unparse(n.func) == "AuthenticationProvider"]
        ok = len(ap) == 1 and [unparse(x) for x in ap[0].args] == ["username", "password", "server", "auth_protocol"]
        chk.ob("O1", Site.of(f, ap[0] if ap else None, None if ap else "AuthenticationProvider"), ok, "provider built from (username, password, server, auth_protocol)" if ok else "the authentication provider is not built from (username, password, server, auth_protocol)")
        # path-wise: the client object returned carries a provider exactly on the paths where auth_protocol is truthy
        from sa.pathsum import Summary, canon_test

        summ = Summary(f, prune=True)
        bad = []
        n_paths = 0
        for ps in summ.returning():
            n_paths += 1
            pol: t.Optional[bool] = None
            for e, p_ in ps.atoms():
                core, p2 = canon_test(ps.owner.renamed(e), p_)  # type: ignore[arg-type]
                if unparse(core) == "auth_protocol":
                    pol = p2
            ret = ps.value
            prov = None
            if isinstance(ret, ast.Call):
                prov = next((k.value for k in ret.keywords if k.arg == "auth"), ret.args[-1] if ret.args else None)
            ptxt = ps.text(prov) if prov is not None else "?"
            if pol is None:
                bad.append(f"a returning path does not depend on auth_protocol (provider: {ptxt})")
            elif pol and not ptxt.startswith("AuthenticationProvider("):
                bad.append(f"auth_protocol given but the client gets {ptxt}")
            elif not pol and ptxt != "None":
                bad.append(f"no auth_protocol but the client gets {ptxt}")
        okg = not bad and n_paths >= 2
        chk.ob("O1", Site.of(f, construct="auth guard"), okg, "authenticated iff an auth protocol is given (checked on every returning path)" if okg else "; ".join(sorted(set(bad))) or f"{n_paths} returning paths")
    chk.require_min("twin pairs", 5)


def fidelity(repo: Repo, chk: Check) -> None:
    from sa.pathsum import Summary

    from .util import ev_args

    # ---- unprotect: arguments of the GetKey conversation
    for q, rpc in (("_client.ncrypt_unprotect_secret", "_sync_get_key"), ("_client.async_ncrypt_unprotect_secret", "_async_get_key")):
        f = repo.func(q)
        summ = Summary(f)  # public API
        blob = f"DPAPINGBlob.unpack({f.params[0]})"
        want = {"target_sd": f"{blob}.protection_descriptor.get_target_sd()", "root_key_id": f"{blob}.key_identifier.root_key_identifier", "l0": f"{blob}.key_identifier.l0", "l1": f"{blob}.key_identifier.l1", "l2": f"{blob}.key_identifier.l2", "username": "username", "password": "password", "auth_protocol": "auth_protocol"}
        n = 0
        for ps in summ.returning():
            for c in ps.calls(rpc):
                n += 1
                a = {k: ps.text(v) for k, v in ev_args(repo, f, c).items()}
                bad = {k: a.get(k) for k, w in want.items() if a.get(k) != w}
                chk.ob("O2", Site.of(f, c.node), not bad, "requests (SD of the blob's descriptor, root key id, L0, L1, L2) named by the blob, credentials and protocol passed through" if not bad else f"GetKey arguments differ from what the blob names: {bad}")
                srv = a.get("server", "")
                oksrv = srv == "server" or srv.endswith(f"({blob}.key_identifier.domain_name).target")
                chk.ob("O2", Site.of(f, c.node, "GetKey server"), oksrv, "server = the caller's or the DC located for the blob's domain" if oksrv else f"server is {srv}")
        if n == 0:
            raise AnalysisError(f"{q}: {rpc} call changed")
    # ---- protect: (-1, -1, -1) and the caller's root key id
    for q, rpc in (("_client.ncrypt_protect_secret", "_sync_get_key"), ("_client.async_ncrypt_protect_secret", "_async_get_key")):
        f = repo.func(q)
        summ = Summary(f)
        n = 0
        for ps in summ.returning():
            for c in ps.calls(rpc):
                n += 1
                av = ev_args(repo, f, c)
                a = {k: ps.text(v) for k, v in av.items()}
                vals = [repo.try_fold(av[k], f.mod)[1] if k in av and repo.try_fold(av[k], f.mod)[0] else None for k in ("l0", "l1", "l2")]
                ok = a.get("root_key_id") == "root_key_identifier" and vals == [-1, -1, -1]
                chk.ob("O2", Site.of(f, c.node), ok, "protect asks for the current key: (root key id, -1, -1, -1)" if ok else f"protect requests root key {a.get('root_key_id')} with index values {vals}, expected (root_key_identifier, -1, -1, -1)")
                oks = a.get("target_sd") == f"ProtectionDescriptor.parse({f.params[1]}).get_target_sd()"
                chk.ob("O2", Site.of(f, c.node, "protect SD"), oks, "SD derived from the given protection descriptor" if oks else f"target_sd is {a.get('target_sd')}")
        if n == 0:
            raise AnalysisError(f"{q}: {rpc} call changed")
    # ---- GetKey construction inside the conversation: role-correct positions
    gk = repo.cls("_gkdi.GetKey")
    params = [p.name for p in gk.init_params()]
    want_roles = ["target_sd", "root_key_id", "l0_key_id", "l1_key_id", "l2_key_id"]
    chk.ob("O2", Site(gk.mod.rel, gk.qual, gk.node.lineno, "GetKey field order"), params == want_roles, f"GetKey({', '.join(params)})" if params == want_roles else f"GetKey init parameters are {params}")
    for q in ("_client._sync_get_key", "_client._async_get_key"):
        f = repo.func(q)
        pn = [p for p in f.params]
        okp = pn[:6] == ["server", "target_sd", "root_key_id", "l0", "l1", "l2"]
        chk.ob("O2", Site.of(f, construct=f"{f.name} parameter order"), okp, "parameters (server, target_sd, root_key_id, l0, l1, l2)" if okp else f"parameter order is {pn}")


def _syntax(o: t.Any) -> t.Tuple[t.Any, t.Any, t.Any]:
    return (o.attrs.get("uuid"), o.attrs.get("version"), o.attrs.get("version_minor")) if isinstance(o, Obj) else (None, None, None)


def constants(repo: Repo, chk: Check) -> None:
    m = repo.mod("_client")
    anchor = repo.func("_client._sync_get_key")

    def const(name: str, mod: t.Any = m) -> t.Any:
        okf, v = repo.try_fold(ast.Name(id=name, ctx=ast.Load()), mod)
        if not okf:
            raise AnalysisError(f"constant {name} is not foldable any more")
        return v

    def ob(what: str, ok: bool, detail: str) -> None:
        chk.count("constants")
        chk.ob("O3", Site(m.rel, "_client module constants", 0, what), ok, detail)

    isd = const("ISD_KEY")
    ob("ISD_KEY interface", _syntax(isd) == (ISD_KEY, 1, 0), f"{_syntax(isd)}")
    ob("EPM interface", _syntax(const("EPM")) == (EPM, 3, 0), f"{_syntax(const('EPM'))}")
    ob("NDR transfer syntax", _syntax(const("NDR")) == (NDR, 2, 0), f"{_syntax(const('NDR'))}")
    ob("NDR64 transfer syntax", _syntax(const("NDR64")) == (NDR64, 1, 0), f"{_syntax(const('NDR64'))}")
    epm_ctx = const("_EPM_CONTEXTS")
    ok = isinstance(epm_ctx, list) and len(epm_ctx) == 1 and epm_ctx[0].attrs.get("context_id") == 0 and _syntax(epm_ctx[0].attrs.get("abstract_syntax")) == (EPM, 3, 0) and [_syntax(x) for x in epm_ctx[0].attrs.get("transfer_syntaxes", [])] == [(NDR64, 1, 0)]
    ob("_EPM_CONTEXTS", ok, "one context: id 0, EPM v3.0 over NDR64" if ok else f"{epm_ctx!r}")
    ic = const("_ISD_KEY_CONTEXTS")
    ok = isinstance(ic, list) and len(ic) == 2 and [c.attrs.get("context_id") for c in ic] == [0, 1] and all(_syntax(c.attrs.get("abstract_syntax")) == (ISD_KEY, 1, 0) for c in ic)
    ok = ok and [_syntax(x) for x in ic[0].attrs.get("transfer_syntaxes", [])] == [(NDR64, 1, 0)]
    bt = ic[1].attrs.get("transfer_syntaxes", [None])[0] if ok else None
    okb = ok and isinstance(bt, Obj) and str(bt.attrs.get("uuid")).startswith(BTFN_PREFIX) and bt.attrs.get("version") == 1
    ob("_ISD_KEY_CONTEXTS", bool(okb), "contexts {0: ISD_KEY/NDR64, 1: ISD_KEY/bind time feature negotiation}" if okb else f"{ic!r}")
    em = const("_EPT_MAP_ISD_KEY")
    tower = em.attrs.get("tower") if isinstance(em, Obj) else None
    okt = isinstance(tower, list) and [t_.cls.name for t_ in tower] == ["UUIDFloor", "UUIDFloor", "RPCConnectionOrientedFloor", "TCPFloor", "IPFloor"]
    okt = okt and (tower[0].attrs.get("uuid"), tower[0].attrs.get("version"), tower[0].attrs.get("version_minor")) == (ISD_KEY, 1, 0)
    okt = okt and (tower[1].attrs.get("uuid"), tower[1].attrs.get("version"), tower[1].attrs.get("version_minor")) == (NDR, 2, 0)
    okt = okt and tower[3].attrs.get("port") == 135 and tower[4].attrs.get("addr") == 0 and em.attrs.get("obj") is None and em.attrs.get("entry_handle") is None
    ob("_EPT_MAP_ISD_KEY", bool(okt), "ept_map for the ISD_KEY/NDR tcp-ip tower, null object and entry handle" if okt else f"{em!r}")
    okm = isinstance(em, Obj) and isinstance(em.attrs.get("max_towers"), int) and 1 <= em.attrs["max_towers"] <= 500
    ob("_EPT_MAP_ISD_KEY.max_towers", okm, f"max_towers = {em.attrs.get('max_towers') if isinstance(em, Obj) else '?'} in [1, 500]")
    vt = const("_VERIFICATION_TRAILER")
    cmds = vt.attrs.get("commands") if isinstance(vt, Obj) else None
    okv = isinstance(cmds, list) and len(cmds) == 1 and cmds[0].cls.name == "CommandPContext"
    if okv:
        c0 = cmds[0]
        fl = c0.attrs.get("flags")
        okv = isinstance(fl, EnumVal) and fl.value == 0x4000 and _syntax(c0.attrs.get("interface_id")) == (ISD_KEY, 1, 0) and _syntax(c0.attrs.get("transfer_syntax")) == (NDR64, 1, 0)
    ob("_VERIFICATION_TRAILER", bool(okv), "one PCONTEXT command flagged END naming ISD_KEY over NDR64" if okv else f"{vt!r}")
    # opnums
    for q, want in (("_gkdi.GetKey", 0), ("_epm.EptMap", 3)):
        cls = repo.cls(q)
        fld = cls.field("opnum")
        okf, v = repo.try_fold(fld.default, cls.mod) if fld is not None and fld.default is not None else (False, None)
        ob(f"{cls.name}.opnum", okf and v == want and fld is not None and not fld.init, f"opnum {v}")
    chk.require_min("constants", 11)
    del anchor


def conversation(repo: Repo, chk: Check) -> None:
    from sa.pathsum import Summary

    from .recipe import S, run_recipe
    from .util import ev_args

    for q, conn in (("_client._sync_get_key", "create_rpc_connection"), ("_client._async_get_key", "async_create_rpc_connection")):
        f = repo.func(q)
        chk.analysed(f)
        summ = Summary(f)
        rets = summ.returning()
        if not rets:
            raise AnalysisError(f"{q}: no returning path")
        for ps in rets:
            names = run_recipe(repo, chk, "O3", f, ps, [
                S("C1", conn, {"server": "server"}, nth=0, why="endpoint mapper leg"),
                S("B1", "bind", {"contexts": "_EPM_CONTEXTS"}, recv="C1", why="binds the EPM contexts on the first connection"),
                S("R1", "request", {"opnum": "_EPT_MAP_ISD_KEY.opnum", "stub_data": "_EPT_MAP_ISD_KEY.pack()"}, recv="C1", why="ept_map request: opnum and stub of _EPT_MAP_ISD_KEY"),
                S("P", "_process_ept_map_result", {"response": "R1"}, why="port = _process_ept_map_result(reply of ept_map)"),
                S("C2", conn, {"server": "server", "port": "P", "username": "username", "password": "password", "auth_protocol": "auth_protocol"}, nth=1, why="second leg: mapped port, caller's credentials and protocol"),
                S("B2", "bind", {"contexts": "_ISD_KEY_CONTEXTS"}, recv="C2", why="binds the ISD_KEY contexts on the second connection"),
                S("G", "GetKey", {"target_sd": "target_sd", "root_key_id": "root_key_id", "l0_key_id": "l0", "l1_key_id": "l1", "l2_key_id": "l2"}, why="an index transposition requests another key"),
                S("R2", "request", {"opnum": "G.opnum", "stub_data": "G.pack()", "verification_trailer": "_VERIFICATION_TRAILER"}, recv="C2", why="GetKey request: opnum and stub of the GetKey object, with the interface verification trailer"),
            ], f.name, ret="_process_get_key_result(R2)")
            conns = ps.calls(conn)
            if conns:
                a0 = ev_args(repo, f, conns[0])
                chk.ob("O3", Site.of(f, conns[0].node), set(a0) == {"server"}, "endpoint mapper leg: default port, no authentication" if set(a0) == {"server"} else f"first connection is created with {sorted(a0)}")
            for nm, ctxs in (("R1", "_EPM_CONTEXTS"), ("R2", "_ISD_KEY_CONTEXTS")):
                ev = [c for c in ps.calls("request") if nm in names and ps.key(c.tree) == ps.key(names[nm])]
                if not ev:
                    continue
                a = ev_args(repo, f, ev[0])
                okf, v = repo.try_fold(a["context_id"], f.mod) if "context_id" in a else (False, None)
                okw, w = repo.try_fold(ast.parse(f"{ctxs}[0].context_id", mode="eval").body, f.mod)
                chk.ob("O3", Site.of(f, ev[0].node, f"{nm} presentation context"), okf and okw and v == w, f"request on presentation context {w}" if okf and okw and v == w else f"request uses context id {ps.text(a.get('context_id'))}, the interface context of {ctxs} is {w}")
                if nm == "R1":
                    chk.ob("O3", Site.of(f, ev[0].node, "R1 verification trailer"), "verification_trailer" not in a or ps.text(a["verification_trailer"]) == "None", "no verification trailer on the unauthenticated leg")


MUTATORS = {"append", "extend", "insert", "remove", "pop", "clear", "sort", "reverse", "update", "setdefault", "popitem", "add", "discard", "__setitem__", "__delitem__"}


def shared_constants(repo: Repo, chk: Check, rule: str = "O3") -> None:
    """The module-level lists/dicts that describe the conversation (_EPM_CONTEXTS, _ISD_KEY_CONTEXTS, registries ...) are
    shared by every call in the process: no function may modify one in place, directly or through a parameter / local
    alias that can be bound to it (who-may-write rule over the resolved call sites, to a fixpoint over parameter passing)."""
    from sa.normalize import Normalizer, _params, stored_names

    nz = Normalizer(repo, {})
    consts: t.Dict[t.Tuple[str, str], ast.expr] = {}
    for m in repo.modules.values():
        for name, e in m.consts.items():
            if isinstance(e, (ast.List, ast.Dict, ast.Set, ast.ListComp, ast.DictComp, ast.SetComp)):
                consts[(m.name, name)] = e
    tainted: t.Dict[t.Tuple[str, str], str] = {}  # (function, parameter) -> constant it can alias

    def const_of(f: Func, e: ast.expr, locals_: t.Set[str]) -> t.Optional[str]:
        if isinstance(e, ast.Name):
            if (f.qual, e.id) in tainted:
                return tainted[(f.qual, e.id)]
            if e.id in locals_:
                return None
            r = repo.resolve_name(e.id, f.mod)
            if isinstance(r, tuple) and r[0] == "const" and (r[1].name, e.id) in consts:
                return f"{r[1].name}.{e.id}"
            if isinstance(r, tuple) and r[0] == "const":
                for (mn, cn), ce in consts.items():
                    if ce is r[2]:
                        return f"{mn}.{cn}"
        return None

    changed = True
    rounds = 0
    while changed and rounds < 6:
        changed = False
        rounds += 1
        for f in repo.funcs.values():
            locals_ = (stored_names(f.node) | {a.arg for a in _params(f.node)})
            for n in body_nodes(f.node):
                if not isinstance(n, ast.Call):
                    continue
                sig = nz._signature(f, n, locals_)
                if sig is None or sig[0] not in repo.funcs:
                    continue
                callee = repo.funcs[sig[0]]
                amap: t.Dict[str, ast.expr] = {}
                for p_, a in zip(sig[1], n.args):
                    amap[p_] = a
                for kw in n.keywords:
                    if kw.arg:
                        amap[kw.arg] = kw.value
                for p_, a in amap.items():
                    c = const_of(f, a, locals_ - {x for x in locals_ if (f.qual, x) in tainted})
                    if c is not None and (callee.qual, p_) not in tainted:
                        tainted[(callee.qual, p_)] = c
                        changed = True
    chk.count("shared constant containers", len(consts))
    checked = 0
    for f in repo.funcs.values():
        rd: t.Optional[ReachingDefs] = None
        locals_ = stored_names(f.node) | {a.arg for a in _params(f.node)}

        def alias_of(e: ast.expr, at: ast.AST) -> t.Optional[str]:
            """The shared constant that `e` may be (a tainted parameter, the global itself, or a local bound to either)."""
            nonlocal rd
            if not isinstance(e, ast.Name):
                return None
            if e.id in locals_ and (f.qual, e.id) not in tainted:
                if rd is None:
                    rd = ReachingDefs(f)
                for d in rd.reaching(e.id, at):
                    if d.kind == "assign" and d.index is None and isinstance(d.value, ast.Name) and d.value.id != e.id:
                        c = alias_of(d.value, d.stmt if d.stmt is not None else at)
                        if c is not None:
                            return c
                return None
            return const_of(f, e, locals_ - {x for x in locals_ if (f.qual, x) in tainted})

        for n in body_nodes(f.node):
            tgt: t.Optional[ast.expr] = None
            how = ""
            if isinstance(n, ast.Call) and isinstance(n.func, ast.Attribute) and n.func.attr in MUTATORS:
                tgt, how = n.func.value, f".{n.func.attr}()"
            elif isinstance(n, (ast.Assign, ast.AugAssign, ast.Delete)):
                for x in (n.targets if isinstance(n, (ast.Assign, ast.Delete)) else [n.target]):
                    if isinstance(x, ast.Subscript):
                        tgt, how = x.value, " item assignment"
                    elif isinstance(n, ast.AugAssign) and isinstance(x, ast.Name):
                        tgt, how = x, " augmented assignment"
            if tgt is None:
                continue
            c = alias_of(tgt, n)
            if c is not None:
                checked += 1
                # registries are filled at import time by their decorator; nothing else may write
                deco = f.name.startswith("register_") or any(f.qual.endswith(x) for x in (".wrap",))
                ok = deco
                chk.ob(rule, Site.of(f, n), ok, f"{c} is filled by its registration decorator at import time" if ok else f"{unparse(tgt)}{how} modifies the shared module constant {c} in place: the next call in this process sees a different conversation (bind contexts / registries are process-wide)")
    chk.ob(rule, Site("src/dpapi_ng", "module constants", 0, "no run-time writer of shared constant containers"), True, f"{len(consts)} module-level containers, {len(tainted)} parameters that can alias one, {checked} write(s) inspected")
