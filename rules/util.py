"""Shared accessors that keep rules independent of how a call passes its arguments and of local names."""

from __future__ import annotations

import ast
import typing as t

from sa.flow import ReachingDefs, prov_ast, provenance, value_key
from sa.load import Cls, Func, Repo, body_nodes, unparse
from sa.normalize import Normalizer, _params, stored_names


# positional parameter names of callees outside the package (cryptography / stdlib), for keyword-style calls
EXT_SIGS: t.Dict[str, t.List[str]] = {
    "aes_key_wrap": ["wrapping_key", "key_to_wrap", "backend"],
    "aes_key_unwrap": ["wrapping_key", "wrapped_key", "backend"],
    "encrypt": ["nonce", "data", "associated_data"],
    "decrypt": ["nonce", "data", "associated_data"],
    "pow": ["base", "exp", "mod"],
    "urandom": ["size"],
    "derive_private_key": ["private_value", "curve", "backend"],
    "EllipticCurvePublicNumbers": ["x", "y", "curve"],
    "exchange": ["algorithm", "peer_public_key"],
    "ConcatKDFHash": ["algorithm", "length", "otherinfo", "backend"],
    "derive": ["key_material"],
    "AESGCM": ["key"],
    "generate_key": ["bit_length"],
}


def signature(repo: Repo, f: Func, call: ast.Call) -> t.Optional[t.Tuple[str, t.List[str]]]:
    """(callee qualified name, positional parameter names seen by the caller) for package functions / methods / ctors."""
    nz = getattr(repo, "_sig_nz", None)
    if nz is None:
        nz = Normalizer(repo, {})
        repo._sig_nz = nz  # type: ignore[attr-defined]
    locals_ = stored_names(f.node) | {a.arg for a in _params(f.node)}
    return nz._signature(f, call, locals_)


def args_of(repo: Repo, f: Func, call: ast.Call, params: t.Optional[t.List[str]] = None) -> t.Dict[str, ast.expr]:
    """Parameter name -> argument expression, whatever mix of positionals and keywords the call uses.
    `params` gives the positional order for callees outside the package."""
    if params is None:
        sig = signature(repo, f, call)
        params = sig[1] if sig is not None else EXT_SIGS.get(unparse(call.func).rsplit(".", 1)[-1].split("#")[0], [])
    out: t.Dict[str, ast.expr] = {}
    for p, a in zip(params, call.args):
        if isinstance(a, ast.Starred):
            break
        out[p] = a
    for i, a in enumerate(call.args):
        if i >= len(params) and not isinstance(a, ast.Starred):
            out[f"#{i}"] = a
    for kw in call.keywords:
        if kw.arg:
            out[kw.arg] = kw.value
    return out


def concat_parts(e: t.Optional[ast.AST]) -> t.List[ast.expr]:
    """The operands of a byte concatenation in order: b"".join([a, b, c]) / b"".join((a, b)) / a + b + c / bytes(x)."""
    if e is None:
        return []
    if isinstance(e, ast.Call) and isinstance(e.func, ast.Attribute) and e.func.attr == "join" and isinstance(e.func.value, ast.Constant) and e.func.value.value == b"" and len(e.args) == 1 and isinstance(e.args[0], (ast.List, ast.Tuple)) and not any(isinstance(x, ast.Starred) for x in e.args[0].elts):
        out: t.List[ast.expr] = []
        for x in e.args[0].elts:
            out += concat_parts(x)
        return out
    if isinstance(e, ast.BinOp) and isinstance(e.op, ast.Add):
        return concat_parts(e.left) + concat_parts(e.right)
    if isinstance(e, ast.Call) and isinstance(e.func, ast.Name) and e.func.id in ("bytes", "bytearray") and len(e.args) == 1 and not e.keywords and isinstance(e.args[0], (ast.BinOp, ast.Call)):
        inner = concat_parts(e.args[0])
        if len(inner) > 1:
            return inner
    return [t.cast(ast.expr, e)]


def call_name(call: ast.Call) -> str:
    return unparse(call.func)


def calls_named(f: Func, *suffixes: str) -> t.List[ast.Call]:
    """Calls whose callee text is one of `suffixes` or ends with '.<suffix>' (receiver-name independent)."""
    out = []
    for n in body_nodes(f.node):
        if isinstance(n, ast.Call):
            txt = unparse(n.func)
            if any(txt == s or txt.endswith("." + s) for s in suffixes):
                out.append(n)
    out.sort(key=lambda n: (n.lineno, n.col_offset))
    return out


class Vals:
    """Value identities inside one function (memoised ReachingDefs)."""

    def __init__(self, f: Func) -> None:
        self.f = f
        self.rd = ReachingDefs(f)

    def key(self, e: t.Optional[ast.expr], at: t.Optional[ast.AST] = None) -> t.Optional[str]:
        if e is None:
            return None
        return value_key(self.rd, e, at if at is not None else e)

    def text(self, e: t.Optional[ast.expr], at: t.Optional[ast.AST] = None) -> t.Optional[str]:
        if e is None:
            return None
        return provenance(self.rd, e, at if at is not None else e)

    def tree(self, e: ast.expr, at: t.Optional[ast.AST] = None) -> ast.expr:
        return prov_ast(self.rd, e, at if at is not None else e)

    def elem(self, call: ast.Call, index: int) -> str:
        """Key of element `index` of the tuple a call returns."""
        return f"{self.key(call)}[{index}]"


def ev_args(repo: Repo, f: Func, ev: t.Any, params: t.Optional[t.List[str]] = None) -> t.Dict[str, ast.expr]:
    """args_of for a path-summary call event: parameters resolved on the source node, values taken from the
    substituted tree (expressed over the function's inputs)."""
    if params is None:
        sig = signature(repo, f, t.cast(ast.Call, ev.node))
        params = sig[1] if sig is not None else EXT_SIGS.get(unparse(t.cast(ast.Call, ev.node).func).rsplit(".", 1)[-1], [])
    return args_of(repo, f, t.cast(ast.Call, ev.tree), params)


def eq_branches(summ: t.Any, subject: str, paths: t.Optional[t.List[t.Any]] = None) -> t.Dict[str, t.List[t.Any]]:
    """Returning paths keyed by the single value `subject` (canonical text) has been tested equal to on the path."""
    out: t.Dict[str, t.List[t.Any]] = {}
    for ps in paths if paths is not None else summ.returning():
        vals = []
        for fc in ps.facts():
            a, sep, b = fc.partition(" == ")
            if sep and a == subject:
                vals.append(b)
            elif sep and b == subject:
                vals.append(a)
        out.setdefault(vals[0] if len(vals) == 1 else "<no single test>", []).append(ps)
    return out


def recv_of(tree: ast.expr) -> t.Optional[ast.expr]:
    """Receiver expression of a method-call tree."""
    if isinstance(tree, ast.Call) and isinstance(tree.func, ast.Attribute):
        return tree.func.value
    return None


_FACT_CACHE: t.Dict[int, t.Tuple[t.Any, ReachingDefs]] = {}


def atoms_at(f: Func, node: ast.AST) -> t.List[t.Tuple[ast.expr, bool]]:
    """Atomic conditions that hold whenever `node` is evaluated: the dominating branch conditions (with polarity), with
    local names replaced by what defines them (so a guard on a flag variable counts as the guard on its definition),
    conjunctions known true / disjunctions known false split, and - for a node inside `a or b` / `a and b` - the
    operands that short-circuit evaluation has already decided."""
    from sa.cfg import build

    key = id(f.node)
    if key not in _FACT_CACHE:
        g = build(f.node)
        _FACT_CACHE[key] = (g, ReachingDefs(f, g))
    g, rd = _FACT_CACHE[key]
    nid = None
    for cn in g.nodes:
        if cn.ast is not None and cn.kind in ("stmt", "cond", "for", "with") and not isinstance(cn.ast, (ast.FunctionDef, ast.AsyncFunctionDef, ast.ClassDef)):
            payload: t.List[ast.AST] = [cn.ast]
            if cn.kind == "for":
                payload = [cn.ast.iter]  # type: ignore[attr-defined]
            elif cn.kind == "with":
                payload = [i.context_expr for i in cn.ast.items]  # type: ignore[attr-defined]
            if any(x is node for p in payload for x in ast.walk(p)):
                nid = cn.id
    out: t.List[t.Tuple[ast.expr, bool]] = []

    def split(e: ast.expr, pol: bool) -> None:
        if isinstance(e, ast.UnaryOp) and isinstance(e.op, ast.Not):
            split(e.operand, not pol)
        elif isinstance(e, ast.BoolOp) and ((isinstance(e.op, ast.And) and pol) or (isinstance(e.op, ast.Or) and not pol)):
            for v in e.values:
                split(v, pol)
        elif isinstance(e, ast.Call) and isinstance(e.func, ast.Name) and e.func.id == "bool" and len(e.args) == 1 and not e.keywords:
            split(e.args[0], pol)
        else:
            out.append((e, pol))

    if nid is not None:
        for c, pol in g.guards_of(nid):
            split(prov_ast(rd, c, c), pol)
    # short-circuit context inside one expression
    for b in body_nodes(f.node):
        if isinstance(b, ast.BoolOp):
            for i, v in enumerate(b.values):
                if any(x is node for x in ast.walk(v)):
                    for e in b.values[:i]:
                        split(prov_ast(rd, e, e), isinstance(b.op, ast.And))
    return out


def prov_text(f: Func, e: ast.expr, at: t.Optional[ast.AST] = None) -> str:
    key = id(f.node)
    if key not in _FACT_CACHE:
        atoms_at(f, e)
    return provenance(_FACT_CACHE[key][1], e, at if at is not None else e)


def source_order(f: Func) -> t.Dict[int, int]:
    """id(node) -> position in a depth-first, field-order walk of the function: the order the code is written in, also
    for nodes that carry the line numbers of an inlined helper."""
    out: t.Dict[int, int] = {}
    stack: t.List[ast.AST] = [f.node]
    while stack:
        n = stack.pop()
        out[id(n)] = len(out)
        stack.extend(reversed(list(ast.iter_child_nodes(n))))
    return out
