"""C08 - SID and target security descriptor bytes follow MS-DTYP for every SID."""

from __future__ import annotations

import ast
import copy
import re
import typing as t

from sa import layout
from sa.agree import Table
from sa.cfg import build
from sa.intervals import IV, World
from sa.load import AnalysisError, Func, Repo, body_nodes, unparse
from sa.report import Check, Site
from sa.sym import Lin

from .reftab import F, INT, LEN, LIT, RAW, cat, first_difference, sigs_of

try:  # Python >= 3.11
    import re._parser as sre_parse  # type: ignore[import-not-found]
    import re._constants as sre_c  # type: ignore[import-not-found]
except ImportError:  # pragma: no cover
    import sre_constants as sre_c  # type: ignore[no-redef]
    import sre_parse  # type: ignore[no-redef]


class Run:
    """A run of digits in the SID grammar."""

    def __init__(self, lo: int, hi: t.Optional[int], ascii_only: bool, rep: t.Tuple[int, t.Optional[int]]) -> None:
        self.lo = lo
        self.hi = hi  # max number of digits (None = unbounded)
        self.ascii_only = ascii_only
        self.rep = rep  # repetition of the enclosing group


def run(repo: Repo, chk: Check) -> None:
    chk.scope_decides = (
        "O1 the SID grammar (regex syntax tree): anchored at both absolute ends, ASCII digits only, 'S-' one digit revision '-' authority "
        "and 1..15 '-' sub authorities, no other alternatives; O2 value ranges on every path to the byte construction: revision and count "
        "fit a byte, authority < 2^48 (its two top bytes are overwritten), each sub authority < 2^32, every to_bytes within capacity, each "
        "established by a guard raising ValueError; O3 SID / ACE / ACL / self-relative SD layout tables = MS-DTYP reference, offsets = actual "
        "positions of the parts, order Sacl, Dacl, Owner, Group; O4 the target SD constants (SYSTEM owner/group, ACE(<sid>, 3), ACE(S-1-1-0, 2), "
        "self-relative | DACL present)."
    )
    chk.scope_not = "injectivity and agreement with an independent parser as numerical facts."
    chk.trusted = ["Python re semantics for the constructs found", "MS-DTYP 2.4.2.2, 2.4.4.2, 2.4.5, 2.4.6 transcribed in this rule"]
    f = repo.func("_security_descriptor.sid_to_bytes")
    chk.analysed(f)
    world = World(repo)
    runs = grammar(repo, chk, f)
    ranges(repo, chk, f, world, runs)
    sid_layout(repo, chk, f)
    ace_acl(repo, chk)
    sd_layout(repo, chk)
    target_sd(repo, chk)


# ------------------------------------------------------------------------- O1
def grammar(repo: Repo, chk: Check, f: Func) -> t.List[Run]:
    comp = [n for n in body_nodes(f.node) if isinstance(n, ast.Call) and repo.dotted(n.func, f.mod) in ("re.compile", "re.match", "re.fullmatch", "re.search")]
    if not comp:
        # pattern compiled at module level: follow the receiver of .match/.fullmatch to its module constant
        for n in body_nodes(f.node):
            if isinstance(n, ast.Call) and isinstance(n.func, ast.Attribute) and n.func.attr in ("match", "fullmatch", "search") and isinstance(n.func.value, ast.Name):
                r = repo.resolve_name(n.func.value.id, f.mod)
                if isinstance(r, tuple) and r[0] == "const" and isinstance(r[2], ast.Call) and repo.dotted(r[2].func, r[1]) == "re.compile":
                    comp.append(r[2])
    if len(comp) != 1:
        # the grammar anchor is gone: whatever replaces it (str.isdigit(), int() on split parts ...) is not the MS-DTYP
        # grammar - str.isdigit() and int() accept every Unicode decimal digit, int() also signs, blanks and underscores
        ints = [n for n in body_nodes(f.node) if isinstance(n, ast.Call) and unparse(n.func) == "int"]
        chk.ob("O1", Site.of(f, ints[0] if ints else None, None if ints else "SID grammar"), False, f"sid_to_bytes no longer matches the SID against a regular expression ({len(comp)} patterns found): components are converted with int() without the grammar 'S-<digit>-<digits>(-<digits>){{1,15}}' (ASCII digits only, anchored) having matched")
        return []
    c = comp[0]
    okp, pattern = repo.try_fold(c.args[0], f.mod)
    if not okp or not isinstance(pattern, str):
        raise AnalysisError("sid_to_bytes: pattern is not a constant string")
    flags = 0
    for a in list(c.args[1:2]) + [k.value for k in c.keywords if k.arg == "flags"]:
        txt = unparse(a)
        if "ASCII" in txt or txt.endswith("re.A"):
            flags |= re.ASCII
        if "IGNORECASE" in txt or "MULTILINE" in txt or "VERBOSE" in txt or "DOTALL" in txt:
            chk.ob("O1", Site.of(f, c), False, f"regex flag {txt} changes the grammar")
    site = Site.of(f, c, f"SID pattern {pattern!r}")
    tree = sre_parse.parse(pattern, flags)
    items = list(tree)
    # how the compiled pattern is applied
    uses = [n for n in body_nodes(f.node) if isinstance(n, ast.Call) and isinstance(n.func, ast.Attribute) and n.func.attr in ("match", "fullmatch", "search", "findall")]
    method = repo.dotted(c.func, f.mod).split(".")[-1] if repo.dotted(c.func, f.mod) != "re.compile" else (uses[0].func.attr if uses else "?")  # type: ignore[union-attr]
    start_ok = method in ("match", "fullmatch") or (items and items[0] == (sre_c.AT, sre_c.AT_BEGINNING_STRING)) or (items and items[0] == (sre_c.AT, sre_c.AT_BEGINNING))
    chk.ob("O1", site, bool(start_ok), "anchored at the start" if start_ok else "the pattern is searched, not matched from the start of the string")
    end_ok = method == "fullmatch" or (bool(items) and items[-1] == (sre_c.AT, sre_c.AT_END_STRING))
    chk.ob("O1", site, end_ok, "anchored at the absolute end (\\Z / fullmatch)" if end_ok else "the pattern ends with '$' (or nothing): '$' also matches before a trailing newline, so 'S-1-5-18\\n' is accepted and silently altered")
    body = [it for it in items if it[0] != sre_c.AT]
    runs: t.List[Run] = []
    shape: t.List[str] = []

    def digits(op: t.Any, av: t.Any) -> t.Optional[bool]:
        """None: not a digit class; True/False: ASCII only?"""
        if op == sre_c.IN:
            parts = list(av)
            if parts == [(sre_c.RANGE, (48, 57))]:
                return True
            if parts == [(sre_c.CATEGORY, sre_c.CATEGORY_DIGIT)]:
                return bool(flags & re.ASCII)
            return None
        if op == sre_c.CATEGORY and av == sre_c.CATEGORY_DIGIT:
            return bool(flags & re.ASCII)
        return None

    def walk(seq: t.Any, rep: t.Tuple[int, t.Optional[int]]) -> None:
        for op, av in seq:
            if op == sre_c.LITERAL:
                shape.append(chr(av))
            elif op in (sre_c.MAX_REPEAT, sre_c.MIN_REPEAT):
                lo, hi, sub = av
                hi_n = None if hi == sre_c.MAXREPEAT else hi
                sub = list(sub)
                d = digits(*sub[0]) if len(sub) == 1 else None
                if d is not None:
                    runs.append(Run(lo, hi_n, d, rep))
                    shape.append("D+" if hi_n is None or hi_n > 1 else "D")
                elif len(sub) == 1 and sub[0][0] == sre_c.SUBPATTERN:
                    shape.append("(")
                    walk(sub[0][1][3], (lo, hi_n))
                    shape.append("){%d,%s}" % (lo, hi_n))
                elif all(o in (sre_c.LITERAL, sre_c.MAX_REPEAT, sre_c.MIN_REPEAT, sre_c.IN, sre_c.CATEGORY) for o, _ in sub):
                    shape.append("(")
                    walk(sub, (lo, hi_n))
                    shape.append("){%d,%s}" % (lo, hi_n))
                else:
                    shape.append("?")
            elif op == sre_c.SUBPATTERN:
                walk(av[3], rep)
            elif digits(op, av) is not None:
                runs.append(Run(1, 1, bool(digits(op, av)), rep))
                shape.append("D")
            elif op == sre_c.BRANCH:
                shape.append("|")
            else:
                shape.append("?")

    walk(body, (1, 1))
    got = "".join(shape)
    want = "S-D-D+(-D+){1,15}"
    import re as _re

    ok = _re.fullmatch(r"S-D-D\+\(-D\+\)\{\d+,(\d+|None)\}", got) is not None
    chk.table("SID grammar shape", got)
    chk.ob("O1", site, ok, f"grammar shape {got}: S-<digit>-<digits>(-<digits>){{a,b}} (the count bound is checked as a value range)" if ok else f"grammar shape is '{got}', MS-DTYP 2.4.2.1 says '{want}' (one digit revision, authority, repeated sub authorities; no signs, blanks or empty parts)")
    asc = all(r.ascii_only for r in runs) and bool(runs)
    chk.ob("O1", site, asc, "digit classes are ASCII only" if asc else "a digit class is '\\d' without re.ASCII: it matches every Unicode decimal digit, which int() silently converts (the SID string is altered instead of rejected)")
    # the match result guards the conversion: a dominating condition is the truth of <pattern>.match/fullmatch(<sid>)
    from .util import atoms_at

    ints = [n for n in body_nodes(f.node) if isinstance(n, ast.Call) and unparse(n.func) == "int"]
    for n in ints:
        okg = any(_matched(repo, f, e, pol) for e, pol in atoms_at(f, n))
        chk.ob("O1", Site.of(f, n), okg, "conversion only after the grammar matched" if okg else "int() is applied to a component without the grammar having matched on this path")
    return runs


# ------------------------------------------------------------------------- SID component model
def _is_match_of(repo: Repo, f: Func, e: ast.expr) -> bool:
    """e (provenance form) is `<compiled pattern>.match(sid)` / `.fullmatch(sid)` / `re.match(P, sid)` on the SID parameter."""
    if isinstance(e, ast.Call) and isinstance(e.func, ast.Attribute) and e.func.attr in ("match", "fullmatch") and e.args:
        return unparse(e.args[-1]) == f.params[0]
    return False


def _matched(repo: Repo, f: Func, e: ast.expr, pol: bool) -> bool:
    """The condition (e is pol) says that the SID pattern matched: `m`, `not m` false, `m is None` false, `m is not None`."""
    if isinstance(e, ast.Compare) and len(e.ops) == 1 and isinstance(e.comparators[0], ast.Constant) and e.comparators[0].value is None:
        if isinstance(e.ops[0], (ast.Is, ast.Eq)):
            return (not pol) and _is_match_of(repo, f, e.left)
        if isinstance(e.ops[0], (ast.IsNot, ast.NotEq)):
            return pol and _is_match_of(repo, f, e.left)
    return pol and _is_match_of(repo, f, e)


class SidModel:
    """Which component of the matched SID string an expression denotes: `sid.split('-')[k]`, an element of a slice of
    that list, a loop variable over it, `match.group(g)`.  Components: 1 = revision, 2 = authority, >= 3 = sub authorities."""

    def __init__(self, repo: Repo, f: Func, runs: t.List[Run], world: World) -> None:
        from sa.flow import ReachingDefs

        self.repo, self.f, self.runs, self.world = repo, f, runs, world
        self.rd = ReachingDefs(f)
        self.sid = f.params[0]

    def seq_offset(self, e: t.Optional[ast.expr], at: t.Any, depth: int = 0) -> t.Optional[int]:
        """e is the list of '-' separated parts from index `offset` on."""
        if e is None or depth > 6:
            return None
        if isinstance(e, ast.Call) and isinstance(e.func, ast.Attribute) and e.func.attr == "split" and unparse(e.func.value) == self.sid and len(e.args) == 1 and self.repo.try_fold(e.args[0], self.f.mod) == (True, "-"):
            return 0
        if isinstance(e, ast.Subscript) and isinstance(e.slice, ast.Slice) and e.slice.upper is None and e.slice.step is None:
            okf, a = self.repo.try_fold(e.slice.lower, self.f.mod) if e.slice.lower is not None else (True, 0)
            o = self.seq_offset(e.value, at, depth + 1)
            if okf and isinstance(a, int) and a >= 0 and o is not None:
                return o + a
            return None
        if isinstance(e, ast.Name):
            d = self.rd.single_def(e.id, at)
            if d is not None and d.kind == "assign" and d.index is None and d.value is not None:
                return self.seq_offset(d.value, d.nid, depth + 1)
            if d is not None and d.kind == "assign" and d.star and not d.after_star and d.value is not None:
                # `_, rev, auth, *subs = parts`: subs is the list of parts from its position on
                o = self.seq_offset(d.value, d.nid, depth + 1)
                return None if o is None else o + t.cast(int, d.index)
        return None

    def component(self, e: t.Optional[ast.expr], at: t.Any, depth: int = 0) -> t.Optional[t.Tuple[int, t.Optional[int]]]:
        """(lowest, highest or None) index of the component(s) e can denote."""
        if e is None or depth > 6:
            return None
        if isinstance(e, ast.Subscript) and not isinstance(e.slice, ast.Slice):
            o = self.seq_offset(e.value, at, depth + 1)
            if o is None:
                return None
            okf, k = self.repo.try_fold(e.slice, self.f.mod)
            if okf and isinstance(k, int) and k >= 0:
                return o + k, o + k
            iv = self.world.analyse(self.f).iv_of(e.slice)
            if iv.lo is not None and iv.lo >= 0:
                return o + iv.lo, None if iv.hi is None else o + iv.hi
            return None
        if isinstance(e, ast.Call) and isinstance(e.func, ast.Attribute) and e.func.attr == "group" and len(e.args) == 1:
            okf, g = self.repo.try_fold(e.args[0], self.f.mod)
            m = e.func.value
            md = self.rd.single_def(m.id, at) if isinstance(m, ast.Name) else None
            mv = md.value if md is not None else m
            if okf and isinstance(g, int) and g in (1, 2) and isinstance(mv, ast.expr) and _is_match_of(self.repo, self.f, mv) and self.groups_are_runs:
                return g, g
            return None
        if isinstance(e, ast.Name):
            ds = self.rd.reaching(e.id, at)
            if len(ds) == 1 and ds[0].kind == "for" and ds[0].index is None and ds[0].value is not None:
                o = self.seq_offset(ds[0].value, ds[0].value, depth + 1)
                return (o, None) if o is not None else None
            if len(ds) == 1 and ds[0].kind == "assign" and ds[0].index is None and ds[0].value is not None:
                return self.component(ds[0].value, ds[0].nid, depth + 1)
            if len(ds) == 1 and ds[0].kind == "assign" and ds[0].index is not None and not ds[0].star and not ds[0].after_star and ds[0].value is not None:
                o = self.seq_offset(ds[0].value, ds[0].nid, depth + 1)
                return None if o is None else (o + ds[0].index, o + ds[0].index)
        return None

    groups_are_runs = False

    def int_iv(self, inner: ast.expr) -> t.Optional[IV]:
        """Value range of int(<component>) implied by the grammar (digits only, at most `hi` of them)."""
        if not self.runs:
            return None
        c = self.component(inner, inner)
        if c is None:
            return IV(0, None) if all(r.ascii_only for r in self.runs) else None
        lo, hi = c
        picked = []
        for idx, r in ((1, self.runs[0] if len(self.runs) > 0 else None), (2, self.runs[1] if len(self.runs) > 1 else None), (3, self.runs[2] if len(self.runs) > 2 else None)):
            if r is None:
                continue
            if idx < 3 and lo <= idx and (hi is None or hi >= idx):
                picked.append(r)
            if idx == 3 and (hi is None or hi >= 3):
                picked.append(r)
        if not picked:
            return IV(0, None)
        his = [None if r.hi is None else 10**r.hi - 1 for r in picked]
        return IV(0, None if any(h is None for h in his) else max(h for h in his if h is not None))


# ------------------------------------------------------------------------- O2
def _pack_sink(repo: Repo, f: Func, node: ast.AST) -> t.Optional[t.Tuple[ast.expr, int, bool, str]]:
    """(value, width, signed, byte order) of `v.to_bytes(w, byteorder=..)` or a one-field `struct.pack(fmt, v)`."""
    if isinstance(node, ast.Call) and isinstance(node.func, ast.Attribute) and node.func.attr == "to_bytes":
        okw, width = repo.try_fold(node.args[0], f.mod) if node.args else (False, None)
        signed = any(k.arg == "signed" and isinstance(k.value, ast.Constant) and k.value.value for k in node.keywords)
        order = next((repo.try_fold(k.value, f.mod)[1] for k in node.keywords if k.arg == "byteorder"), None)
        if okw and isinstance(width, int):
            return node.func.value, width, bool(signed), str(order)
        return node.func.value, -1, bool(signed), str(order)
    if isinstance(node, ast.Call) and repo.dotted(node.func, f.mod) == "struct.pack" and len(node.args) == 2:
        okf, fmt = repo.try_fold(node.args[0], f.mod)
        table = {"B": (1, False), "H": (2, False), "I": (4, False), "L": (4, False), "Q": (8, False), "b": (1, True), "h": (2, True), "i": (4, True), "l": (4, True), "q": (8, True)}
        if okf and isinstance(fmt, str) and len(fmt) == 2 and fmt[0] in "<>!" and fmt[1] in table:
            w, sg = table[fmt[1]]
            return node.args[1], w, sg, "little" if fmt[0] == "<" else "big"
    return None


def ranges(repo: Repo, chk: Check, f: Func, world: World, runs: t.List[Run]) -> None:
    model = SidModel(repo, f, runs, world)
    # capture groups 1 and 2 are the revision and authority runs when the pattern captures exactly those
    model.groups_are_runs = _groups_are_first_runs(repo, f)
    world.int_of_str[f.qual] = model.int_iv
    # the split list (and every local that is a tail of it) has 3 + (number of sub authorities) parts
    if len(runs) >= 3:
        lo, hi = runs[2].rep
        texts: t.Dict[str, int] = {}
        for n in body_nodes(f.node):
            if isinstance(n, (ast.Name, ast.Call, ast.Subscript)) and isinstance(getattr(n, "ctx", ast.Load()), ast.Load):
                o = model.seq_offset(t.cast(ast.expr, n), n)
                if o is not None:
                    texts[unparse(n)] = o
        for txt, o in texts.items():
            world.len_of[(f.qual, txt)] = IV(max(3 + lo - o, 0), None if hi is None else max(3 + hi - o, 0))
    world.results.pop(f.qual, None)
    res = world.analyse(f)
    n = 0
    stores = [node for node in body_nodes(f.node) if isinstance(node, ast.Assign) and isinstance(node.targets[0], ast.Subscript) and not isinstance(node.targets[0].slice, ast.Slice)]
    for node in body_nodes(f.node):
        sink = _pack_sink(repo, f, node)
        if sink is not None:
            n += 1
            val, width, signed, _order = sink
            iv = res.iv_of(val)
            if width < 0:
                chk.ob("O2", Site.of(f, node), False, "to_bytes width is not constant")
                continue
            lo_, hi_ = (-(1 << (8 * width - 1)), (1 << (8 * width - 1)) - 1) if signed else (0, (1 << (8 * width)) - 1)
            ok = iv.within(lo_, hi_)
            chk.ob("O2", Site.of(f, node), ok, f"{unparse(val)} in {iv} fits {width} bytes" if ok else f"{unparse(val)} can be {iv} at a {width} byte field: a well-formed or near-miss SID raises OverflowError / struct.error instead of being encoded / rejected with ValueError")
    for node in stores:
        n += 1
        iv = res.iv_of(node.value)
        ok = iv.within(0, 255)
        chk.ob("O2", Site.of(f, node), ok, f"byte store {unparse(node.value)} in {iv}" if ok else f"byte store {unparse(node.value)} can be {iv}")
    chk.count("range sinks", n)
    chk.require_min("range sinks", 2)
    try:
        pieces, _ret = sid_pieces(repo, f)
    except NotUnderstood:
        pieces = []  # reported by the layout rule
    # single bytes built with bytes([a, b]): each element must fit a byte (ValueError otherwise, but from the wrong place)
    for p_ in pieces:
        if p_.kind == "int" and p_.width == 1 and isinstance(p_.at, ast.Call):
            n += 1
            iv = res.iv_of(t.cast(ast.expr, p_.value))
            ok = iv.within(0, 255)
            chk.ob("O2", Site.of(f, p_.value), ok, f"byte {unparse(p_.value)} in {iv}" if ok else f"byte {unparse(p_.value)} can be {iv}")
    chk.count("range sinks", n)
    # SubAuthorityCount (the second byte): exactly 1..15 (not more: malformed SIDs accepted; not fewer: well-formed SIDs rejected)
    if len(pieces) >= 2 and pieces[1].kind == "int" and pieces[1].width == 1:
        cv = t.cast(ast.expr, pieces[1].value)
        iv = res.iv_of(cv)
        ok = iv.within(1, 15)
        chk.ob("O2", Site.of(f, cv, "sub authority count"), ok, f"count in {iv} is within 1..15" if ok else f"the number of sub authorities can be {iv}: MS-DTYP allows 1..15")
        okc = iv.lo is not None and iv.hi is not None and iv.lo <= 1 and iv.hi >= 15
        chk.ob("O2", Site.of(f, cv, "sub authority count completeness"), okc, "every count from 1 to 15 is accepted" if okc else f"only counts in {iv} get through the grammar and guards: well-formed SIDs with up to 15 sub authorities are rejected")
    # the bytes overwritten by revision / count must be zero: authority < 2^48 when it is packed into 8 bytes
    base = [node for node in body_nodes(f.node) if (_pack_sink(repo, f, node) or (None, 0, False, ""))[1] == 8]
    if base and stores:
        val, width, _sg, _o = t.cast(t.Tuple[ast.expr, int, bool, str], _pack_sink(repo, f, base[0]))
        over = sorted(repo.try_fold(s_.targets[0].slice, f.mod)[1] for s_ in stores if repo.try_fold(s_.targets[0].slice, f.mod)[0])  # type: ignore[attr-defined]
        iv = res.iv_of(val)
        if over:
            free = width - (max(over) + 1)
            ok = iv.within(0, (1 << (8 * free)) - 1) and over == list(range(len(over)))
            chk.ob("O2", Site.of(f, base[0], "authority bytes overwritten by revision/count"), ok, f"authority in {iv} leaves bytes {over} zero before they are overwritten" if ok else f"authority can be {iv}: its top bytes {over} are overwritten by revision and count, so a SID with a larger authority is silently altered")
    for r in [x for x in body_nodes(f.node) if isinstance(x, ast.Raise)]:
        ok = r.exc is not None and unparse(r.exc).startswith("ValueError(")
        chk.ob("O2", Site.of(f, r), ok, "rejects with ValueError" if ok else f"rejects with {unparse(r.exc)[:40]}")


def _groups_are_first_runs(repo: Repo, f: Func) -> bool:
    """Capture group 1 wraps exactly the revision digit and group 2 exactly the authority digits."""
    for n in ast.walk(f.mod.tree):
        if isinstance(n, ast.Call) and repo.dotted(n.func, f.mod) in ("re.compile", "re.match", "re.fullmatch") and n.args:
            okp, pattern = repo.try_fold(n.args[0], f.mod)
            if okp and isinstance(pattern, str):
                try:
                    tree = list(sre_parse.parse(pattern))
                except Exception:
                    return False
                body = [it for it in tree if it[0] != sre_c.AT]
                groups = [(i, it) for i, it in enumerate(body) if it[0] == sre_c.SUBPATTERN and it[1][0] is not None]
                # S - (D) - (D+) ...: literals at 0,1, group 1 at 2, literal at 3, group 2 at 4
                return [g[1][1][0] for g in groups[:2]] == [1, 2] and [g[0] for g in groups[:2]] == [2, 4]
    return False


# ------------------------------------------------------------------------- O3
class Piece:
    """One stretch of the assembled SID bytes: an integer field, literal bytes, or a loop appending fields."""

    def __init__(self, kind: str, at: ast.AST, width: int = 0, order: str = "", signed: bool = False, value: t.Optional[ast.expr] = None, body: t.Optional[t.List["Piece"]] = None, lit: bytes = b"") -> None:
        self.kind, self.at, self.width, self.order, self.signed, self.value, self.body, self.lit = kind, at, width, order, signed, value, body or [], lit
        self.stripped = 0  # top bytes of a wider big-endian field that were overwritten by other pieces

    def __repr__(self) -> str:
        if self.kind == "int":
            return f"{unparse(self.value)}:{self.width}{'' if self.width == 1 else self.order[:1]}"
        if self.kind == "loop":
            return f"loop[{', '.join(map(repr, self.body))}]"
        return repr(self.lit)


class NotUnderstood(Exception):
    pass


def _stmts_except(stmts: t.List[ast.stmt], skip: ast.AST) -> t.List[ast.stmt]:
    """All simple statements of the blocks, without `skip` (compound statements are opened up)."""
    out: t.List[ast.stmt] = []
    for s_ in stmts:
        if s_ is skip:
            continue
        subs = [getattr(s_, fld) for fld in ("body", "orelse", "finalbody") if isinstance(getattr(s_, fld, None), list)]
        if isinstance(s_, ast.Try):
            subs += [h.body for h in s_.handlers]
        if subs and not isinstance(s_, (ast.FunctionDef, ast.AsyncFunctionDef, ast.ClassDef)):
            hdr = copy.copy(s_)
            for fld in ("body", "orelse", "finalbody"):
                if isinstance(getattr(hdr, fld, None), list):
                    setattr(hdr, fld, [])
            if isinstance(hdr, ast.Try):
                hdr.handlers = []
            out.append(hdr)
            for b_ in subs:
                out += _stmts_except(b_, skip)
        else:
            out.append(s_)
    return out


def sid_pieces(repo: Repo, f: Func) -> t.Tuple[t.List[Piece], ast.AST]:
    """The byte string sid_to_bytes returns, as pieces in order.  Understands: x.to_bytes(w, order) / one-field struct.pack,
    bytes([a, b]), bytes(v) / bytearray(v), a + b, b''.join(list), list and byte accumulators grown by += / append / extend
    (also inside one for loop), and single byte stores v[k] = x over the top bytes of a big-endian field."""
    rets = [n for n in body_nodes(f.node) if isinstance(n, ast.Return)]
    if len(rets) != 1 or rets[0].value is None or rets[0] not in f.node.body:
        raise NotUnderstood("sid_to_bytes does not end in one return statement")

    locals_ = set(f.params) | {x.id for x in ast.walk(f.node) if isinstance(x, ast.Name) and isinstance(x.ctx, ast.Store)}

    def of_list(e: ast.expr, at: ast.AST) -> t.List[Piece]:
        if isinstance(e, (ast.List, ast.Tuple)):
            out: t.List[Piece] = []
            for x in e.elts:
                if isinstance(x, ast.Starred):
                    out += of_list(x.value, at)
                else:
                    out += of(x, at)
            return out
        if isinstance(e, ast.Name):
            return accumulate(e.id, at, True)
        raise NotUnderstood(f"list of parts {unparse(e)[:40]}")

    def of(e: ast.expr, at: ast.AST) -> t.List[Piece]:
        okc, v = repo.try_fold(e, f.mod) if not any(isinstance(x, ast.Name) and x.id in locals_ for x in ast.walk(e)) else (False, None)
        if okc and isinstance(v, (bytes, bytearray)):
            return [Piece("lit", e, lit=bytes(v))] if v else []
        sk = _pack_sink(repo, f, e)
        if sk is not None:
            if sk[1] < 0:
                raise NotUnderstood("field width is not constant")
            return [Piece("int", e, sk[1], sk[3] if sk[1] > 1 else "big", sk[2], sk[0])]
        if isinstance(e, ast.Call) and repo.dotted(e.func, f.mod) == "struct.pack" and len(e.args) >= 2 and not any(isinstance(x, ast.Starred) for x in e.args):
            okf, fmt = repo.try_fold(e.args[0], f.mod)
            table = {"B": (1, False), "H": (2, False), "I": (4, False), "L": (4, False), "Q": (8, False), "b": (1, True), "h": (2, True), "i": (4, True), "l": (4, True), "q": (8, True)}
            if okf and isinstance(fmt, str) and fmt[:1] in "<>!" and len(fmt) == len(e.args) and all(ch in table for ch in fmt[1:]):
                return [Piece("int", e, table[ch][0], "little" if fmt[0] == "<" else "big", table[ch][1], v_) for ch, v_ in zip(fmt[1:], e.args[1:])]
            raise NotUnderstood(f"struct.pack format {unparse(e.args[0])}")
        if isinstance(e, ast.Call) and isinstance(e.func, ast.Name) and e.func.id in ("bytes", "bytearray") and len(e.args) == 1 and not e.keywords:
            a0 = e.args[0]
            if isinstance(a0, (ast.List, ast.Tuple)):
                if any(isinstance(x, ast.Starred) for x in a0.elts):
                    raise NotUnderstood("bytes([...]) with a starred element")
                return [Piece("int", e, 1, "big", False, x) for x in a0.elts]
            return of(a0, at)
        if isinstance(e, ast.BinOp) and isinstance(e.op, ast.Add):
            return of(e.left, at) + of(e.right, at)
        if isinstance(e, ast.Call) and isinstance(e.func, ast.Attribute) and e.func.attr == "join" and len(e.args) == 1 and repo.try_fold(e.func.value, f.mod) == (True, b""):
            return of_list(e.args[0], at)
        if isinstance(e, ast.Name):
            d = rd_.single_def(e.id, at)
            if d is not None and d.kind == "assign" and d.index is None and d.value is not None and not mutations(list(f.node.body), e.id, skip=d.stmt):
                return of(d.value, t.cast(ast.AST, d.stmt))  # a plain local holding a byte expression
            return accumulate(e.id, at, False)
        raise NotUnderstood(f"byte expression {unparse(e)[:50]}")

    from sa.flow import ReachingDefs

    rd_ = ReachingDefs(f)

    def mutations(stmts: t.List[ast.stmt], name: str, skip: t.Optional[ast.AST] = None) -> bool:
        if skip is not None:
            return any(mutations([s_], name) for s_ in _stmts_except(stmts, skip))
        return any(isinstance(x, ast.Name) and x.id == name and isinstance(x.ctx, ast.Store) or isinstance(x, ast.Subscript) and isinstance(x.ctx, ast.Store) and unparse(x.value) == name or isinstance(x, ast.Call) and isinstance(x.func, ast.Attribute) and unparse(x.func.value) == name and x.func.attr in ("append", "extend", "insert", "pop", "reverse", "clear", "remove", "sort") for s_ in stmts for x in ast.walk(s_))

    def step(s_: ast.stmt, name: str, is_list: bool, cur: t.List[Piece]) -> t.Optional[t.List[Piece]]:
        """Effect of one statement on the accumulator: the pieces it appends (None: it does not touch it)."""
        if not mutations([s_], name):
            return None
        if isinstance(s_, ast.AugAssign) and isinstance(s_.op, ast.Add) and unparse(s_.target) == name:
            return of_list(s_.value, s_) if is_list else of(s_.value, s_)
        if isinstance(s_, ast.Expr) and isinstance(s_.value, ast.Call) and isinstance(s_.value.func, ast.Attribute) and unparse(s_.value.func.value) == name and len(s_.value.args) == 1:
            m = s_.value.func.attr
            if m == "append" and is_list:
                return of(s_.value.args[0], s_)
            if m == "extend":
                return of_list(s_.value.args[0], s_) if is_list else of(s_.value.args[0], s_)
        if isinstance(s_, ast.Assign) and len(s_.targets) == 1 and isinstance(s_.targets[0], ast.Subscript) and unparse(s_.targets[0].value) == name and not is_list:
            okk, k = repo.try_fold(s_.targets[0].slice, f.mod)
            if okk and isinstance(k, int) and k >= 0:
                overwrite(cur, k, Piece("int", s_, 1, "big", False, s_.value))
                return []
        raise NotUnderstood(f"statement {unparse(s_)[:50]}")

    def overwrite(cur: t.List[Piece], k: int, new: Piece) -> None:
        pos = 0
        for i, p_ in enumerate(cur):
            if p_.kind == "loop":
                break
            w = p_.width if p_.kind == "int" else len(p_.lit)
            if pos == k and p_.kind == "int" and (p_.order == "big" or w == 1):
                if w == 1:
                    cur[i] = new
                else:
                    rest = Piece("int", p_.at, w - 1, p_.order, p_.signed, p_.value)
                    rest.stripped = p_.stripped + 1
                    cur[i:i + 1] = [new, rest]
                return
            pos += w
        raise NotUnderstood(f"byte {k} is stored over something that is not the top byte of a big-endian field")

    def accumulate(name: str, at: ast.AST, is_list: bool) -> t.List[Piece]:
        cur: t.Optional[t.List[Piece]] = None
        top: t.List[ast.stmt] = []
        for s_ in f.node.body:
            # try: <statements> except ...: raise  - the protected statements run in line when nothing is raised
            if isinstance(s_, ast.Try) and not s_.finalbody and not s_.orelse and all(h.body and isinstance(h.body[-1], ast.Raise) for h in s_.handlers):
                top += s_.body
            else:
                top.append(s_)
        for s_ in top:
            if s_ is at or any(x is at for x in ast.walk(s_)):
                break
            if isinstance(s_, (ast.Assign, ast.AnnAssign)) and s_.value is not None and [unparse(x) for x in (s_.targets if isinstance(s_, ast.Assign) else [s_.target])] == [name]:
                if cur is not None:
                    raise NotUnderstood(f"{name} is assigned twice")
                cur = of_list(s_.value, s_) if is_list else of(s_.value, s_)
                continue
            if not mutations([s_], name):
                continue
            if cur is None:
                raise NotUnderstood(f"{name} is changed before it is assigned")
            if isinstance(s_, ast.For) and not s_.orelse:
                body: t.List[Piece] = []
                for b_ in s_.body:
                    if isinstance(b_, (ast.If, ast.For, ast.While, ast.Try, ast.With)) and mutations([b_], name):
                        raise NotUnderstood(f"{name} is grown conditionally inside the loop")
                    got = step(b_, name, is_list, body)
                    if got is not None:
                        body += got
                cur.append(Piece("loop", s_, body=body))
                continue
            got = step(s_, name, is_list, cur)
            if got is not None:
                cur += got
        if cur is None:
            raise NotUnderstood(f"{name} has no top-level definition")
        return cur

    return of(rets[0].value, rets[0]), rets[0]


def _is_count(model: SidModel, v: ast.expr, at: ast.AST) -> bool:
    """v is the number of sub authorities: len(parts from 3 on), len(parts from o on) - k with o + k = 3, or a local holding that."""
    repo, f = model.repo, model.f
    if isinstance(v, ast.Call) and unparse(v.func) == "len" and len(v.args) == 1:
        return model.seq_offset(v.args[0], at) == 3
    if isinstance(v, ast.BinOp) and isinstance(v.op, ast.Sub) and isinstance(v.left, ast.Call) and unparse(v.left.func) == "len" and len(v.left.args) == 1:
        o = model.seq_offset(v.left.args[0], at)
        okk, k = repo.try_fold(v.right, f.mod)
        return o is not None and okk and isinstance(k, int) and o + k == 3
    if isinstance(v, ast.Name):
        d = model.rd.single_def(v.id, at)
        if d is not None and d.kind == "assign" and d.index is None and d.value is not None:
            return _is_count(model, d.value, t.cast(ast.AST, d.stmt) if d.stmt is not None else at)
    return False


def sid_layout(repo: Repo, chk: Check, f: Func) -> None:
    """Revision(1) SubAuthorityCount(1) IdentifierAuthority(6, big-endian) SubAuthority[](4, little-endian each)."""
    world = World(repo)
    runs = [Run(1, 1, True, (1, 1)), Run(1, None, True, (1, 1)), Run(1, None, True, (1, 15))]
    model = SidModel(repo, f, runs, world)
    model.groups_are_runs = _groups_are_first_runs(repo, f)
    try:
        pieces, ret = sid_pieces(repo, f)
    except NotUnderstood as e:
        if any(not o.ok for o in chk.obligations if o.site.function == f.qual):
            chk.note = f"layout of sid_to_bytes not decided ({e}); the grammar / range rules above already report this function"  # type: ignore[attr-defined]
            return
        raise AnalysisError(f"sid_to_bytes left the idiom table of the layout rule: {e}")
    chk.table("sid pieces", [repr(p) for p in pieces])
    site_r = Site.of(f, ret)
    shape = [(p.kind, p.width) for p in pieces]
    oks = shape == [("int", 1), ("int", 1), ("int", 6), ("loop", 0)] and len(pieces[3].body) == 1 and pieces[3].body[0].kind == "int"
    chk.ob("O3", site_r, oks, "returns Revision(1) SubAuthorityCount(1) IdentifierAuthority(6) SubAuthority(4)*" if oks else f"the returned bytes are {pieces!r}; MS-DTYP 2.4.2.2 has revision:1 count:1 authority:6 then one 4 byte field per sub authority")
    if not oks:
        return
    rev, cnt, auth, loop = pieces
    s0 = _int_of_component(model, rev.value, rev.at) == (1, 1)
    s1 = _is_count(model, t.cast(ast.expr, cnt.value), cnt.at)
    chk.ob("O3", Site.of(f, rev.at, "revision and count bytes"), bool(s0 and s1), "byte 0 = revision, byte 1 = number of sub authorities" if s0 and s1 else "revision / sub authority count are not stored in bytes 0 and 1")
    okb = auth.order == "big" and not auth.signed and _int_of_component(model, auth.value, auth.at) == (2, 2)
    chk.ob("O3", Site.of(f, auth.at, "authority bytes"), bool(okb), "identifier authority (component 2) big-endian in bytes 2..7" if okb else "the identifier authority is not laid out as 6 big-endian bytes of component 2 in bytes 2..7")
    sub = loop.body[0]
    lp = t.cast(ast.For, loop.at)
    comp = _int_of_component(model, sub.value, sub.at)
    it = lp.iter
    # every sub authority, in order: the loop runs over the parts from index 3 on (elements or ascending indices)
    in_order = model.seq_offset(it, it) == 3 or (isinstance(it, ast.Call) and unparse(it.func) == "range" and len(it.args) == 2 and repo.try_fold(it.args[0], f.mod) == (True, 3) and isinstance(it.args[1], ast.Call) and unparse(it.args[1].func) == "len" and model.seq_offset(it.args[1].args[0], it) == 0)
    oka = sub.width == 4 and sub.order == "little" and not sub.signed and comp is not None and comp[0] == 3 and bool(in_order)
    chk.ob("O3", Site.of(f, sub.at), oka, "sub authorities appended in order, 4 bytes little-endian each" if oka else "sub authorities are not appended in order as 4 byte little-endian values")


def _int_of_component(model: SidModel, e: t.Optional[ast.expr], at: t.Any) -> t.Optional[t.Tuple[int, t.Optional[int]]]:
    """e is int(<component>) (possibly through single-definition locals): which component."""
    if e is None:
        return None
    if isinstance(e, ast.Name):
        ds = model.rd.reaching(e.id, at)
        if len(ds) == 1 and ds[0].kind == "assign" and ds[0].index is None and ds[0].value is not None:
            return _int_of_component(model, ds[0].value, ds[0].nid)
        return None
    if isinstance(e, ast.Call) and unparse(e.func) == "int" and len(e.args) == 1:
        return model.component(e.args[0], at)
    return None


def ace_acl(repo: Repo, chk: Check) -> None:
    f = repo.func("_security_descriptor.ace_to_bytes")
    chk.analysed(f)
    for p in layout.writer_paths(repo, f):
        sid = [s for s in p.segs if s.kind == "raw"]
        if len(sid) != 1 or sid[0].a.get("call") is None or not sid[0].call.rec.name.endswith("sid_to_bytes") or getattr(sid[0].call.rec.arg(0), "parts", [None])[0] != getattr(__import__("sa.sym", fromlist=["Ref"]).Ref(f.params[0]), "path", None) and repr(sid[0].call.rec.arg(0)) != f"SStr({f.params[0]})":
            pass
        ref = sid[0].ref.path if sid else "?"
        want = cat(LIT("0000"), INT(LEN(ref) + 8, 2), INT(F(f.params[1]), 4), RAW(ref))
        d = first_difference(sigs_of(p.segs), want)
        chk.ob("O3", Site.of(f, construct="ACCESS_ALLOWED_ACE layout"), d is None, "type 0, flags 0, size = 8 + len(sid), mask (4, LE), sid" if d is None else d)
        okc = bool(sid) and sid[0].a.get("call") is not None and sid[0].call.rec.name.endswith("sid_to_bytes") and f.params[0] in repr(sid[0].call.rec.arg(0))
        chk.ob("O3", Site.of(f, construct="ACE sid"), okc, "the ACE carries sid_to_bytes(<its sid argument>)")
    f = repo.func("_security_descriptor.acl_to_bytes")
    chk.analysed(f)
    for p in layout.writer_paths(repo, f):
        j = f"join({f.params[0]})"
        want = cat(LIT("0200"), INT(LEN(j) + 8, 2), INT(LEN(f.params[0]), 2), LIT("0000"), RAW(j))
        d = first_difference(sigs_of(p.segs), want)
        chk.ob("O3", Site.of(f, construct="ACL layout"), d is None, "revision 2, size = 8 + len(aces), count = number of ACEs, ACEs in order" if d is None else d)


def sd_layout(repo: Repo, chk: Check) -> None:
    f = repo.func("_security_descriptor.sd_to_bytes")
    chk.analysed(f)
    n = 0
    for p in layout.writer_paths(repo, f):
        n += 1
        has = {"sacl": False, "dacl": False}
        for c, pol in _implied(p.conds):
            if c.info.get("truthy") in has:
                has[c.info["truthy"]] = pol
        tag = f"sd_to_bytes [sacl={'yes' if has['sacl'] else 'no'}, dacl={'yes' if has['dacl'] else 'no'}]"
        site = Site.of(f, construct=tag)
        tb = Table(p.segs)
        segs = p.segs
        # locate the parts
        pos: t.Dict[str, Lin] = {}
        for seg, off in zip(segs, tb.offs):
            if seg.kind == "raw" and seg.a.get("call") is not None and seg.call.rec.name.endswith("sid_to_bytes"):
                arg = seg.call.rec.arg(0)
                who = "owner" if "owner" in repr(arg) else ("group" if "group" in repr(arg) else "?")
                pos.setdefault(who, off)
        # ACL starts: literal 0200 after the 20 byte header
        acl_offs = [off for seg, off in zip(segs, tb.offs) if (seg.kind == "lit" and seg.value == b"\x02\x00" and not (off == 0)) or (seg.kind == "raw" and seg.a.get("call") is not None and seg.call.rec.name.endswith("acl_to_bytes"))]
        names = [k for k in ("sacl", "dacl") if has[k]]
        for k, off in zip(names, acl_offs):
            pos[k] = off
        header = segs[:6]
        okh = len(header) == 6 and header[0].kind == "lit" and header[0].value == b"\x01\x00" and all(h.kind == "int" and h.order == "little" for h in header[1:]) and [repr(h.width) for h in header[1:]] == ["2", "4", "4", "4", "4"]
        chk.ob("O3", site, okh, "header: revision 1, sbz1 0, control(2), owner/group/sacl/dacl offsets (4 each), little-endian" if okh else "the 20 byte SECURITY_DESCRIPTOR header is not revision|sbz1|control|owner|group|sacl|dacl")
        if not okh:
            continue
        want_control = 0x8000 | (0x10 if has["sacl"] else 0) | (0x04 if has["dacl"] else 0)
        okc = header[1].value == want_control
        chk.ob("O3", site, okc, f"control = {want_control:#06x}" if okc else f"control is {header[1].value!r}, expected {want_control:#06x} (self-relative, SACL/DACL present bits)")
        for fieldname, h in zip(("owner", "group", "sacl", "dacl"), header[2:]):
            want = pos.get(fieldname, Lin(0)) if (fieldname in ("owner", "group") or has[fieldname]) else Lin(0)
            ok = h.value == want
            chk.ob("O3", site, ok, f"{fieldname} offset = {want!r} = where it is written" if ok else f"{fieldname} offset field is {h.value!r} but the {fieldname} is written at {want!r}")
        # order Sacl, Dacl, Owner, Group and start right after the header
        order = sorted(((v.const if v.is_const() else 10**9 + len(repr(v)), k) for k, v in pos.items()))
        seq = [k for k, _ in sorted(pos.items(), key=lambda kv: _rank(kv[1], tb))]
        wantseq = names + ["owner", "group"]
        chk.ob("O3", site, seq == wantseq, "dynamic part order: " + ", ".join(wantseq) if seq == wantseq else f"dynamic parts are written in the order {seq}, MS-GKDI needs {wantseq}")
        first = min((_rank(v, tb) for v in pos.values()), default=None)
        chk.ob("O3", site, first is not None and tb.offs[first] == 20, "dynamic data starts at offset 20")
        del order
    chk.count("sd layouts", n)
    chk.require_min("sd layouts", 4)


def _rank(off: Lin, tb: Table) -> int:
    for i, o in enumerate(tb.offs):
        if o == off:
            return i
    return 10**6


# ------------------------------------------------------------------------- O4
def target_sd(repo: Repo, chk: Check) -> None:
    from sa.pathsum import Summary

    from .util import args_of

    f = repo.method("_blob.SIDDescriptor", "get_target_sd")
    chk.analysed(f)
    summ = Summary(f, ["self"])
    for ps in summ.returning():
        c = ps.value
        site = Site.of(f, ps.exit_node)
        if not (isinstance(c, ast.Call) and ps.text(c.func) == "sd_to_bytes"):
            chk.ob("O4", site, False, "get_target_sd does not return sd_to_bytes(...)")
            continue
        kws = args_of(repo, f, c)
        for who in ("owner", "group"):
            okf, v = repo.try_fold(kws.get(who), f.mod) if who in kws else (False, None)
            chk.ob("O4", site, okf and v == "S-1-5-18", f"{who} = SYSTEM (S-1-5-18)" if okf and v == "S-1-5-18" else f"{who} is {v!r}")
        oks = "sacl" not in kws or (isinstance(kws["sacl"], ast.Constant) and kws["sacl"].value is None)
        chk.ob("O4", site, oks, "no SACL")
        d = kws.get("dacl")
        got = []
        for e in (d.elts if isinstance(d, (ast.List, ast.Tuple)) else []):
            if isinstance(e, ast.Call) and ps.text(e.func) == "ace_to_bytes":
                a = args_of(repo, f, e)
                oks_, sv = repo.try_fold(a.get("sid"), f.mod) if "sid" in a else (False, None)
                okm, mv = repo.try_fold(a.get("access_mask"), f.mod) if "access_mask" in a else (False, None)
                got.append((repr(sv) if oks_ else ps.text(a.get("sid")), mv if okm else ps.text(a.get("access_mask"))))
            else:
                got.append((ps.text(e), None))
        want = [("self.value", 3), ("'S-1-1-0'", 2)]
        chk.ob("O4", site, got == want, "DACL = [allow <sid> mask 3, allow Everyone mask 2] in that order" if got == want else f"DACL is {got}, expected {want} (two ACEs even when the SID is S-1-1-0)")


def _implied(conds: t.Any) -> t.Any:
    from .c11 import implied

    return implied(conds)
