"""C08 - SID and target security descriptor bytes follow MS-DTYP for every SID."""

from __future__ import annotations

import ast
import re
import typing as t

from sa import layout
from sa.agree import Table
from sa.cfg import build
from sa.intervals import IV, World
from sa.load import AnalysisError, Func, Repo, body_nodes, unparse
from sa.report import Check, Site
from sa.sym import Lin

from .reftab import F, INT, LEN, LIT, RAW, cat, first_difference, sigs_of

try:  # Python >= 3.11
    import re._parser as sre_parse  # type: ignore[import-not-found]
    import re._constants as sre_c  # type: ignore[import-not-found]
except ImportError:  # pragma: no cover
    import sre_constants as sre_c  # type: ignore[no-redef]
    import sre_parse  # type: ignore[no-redef]


class Run:
    """A run of digits in the SID grammar."""

    def __init__(self, lo: int, hi: t.Optional[int], ascii_only: bool, rep: t.Tuple[int, t.Optional[int]]) -> None:
        self.lo = lo
        self.hi = hi  # max number of digits (None = unbounded)
        self.ascii_only = ascii_only
        self.rep = rep  # repetition of the enclosing group


def run(repo: Repo, chk: Check) -> None:
    chk.scope_decides = (
        "O1 the SID grammar (regex syntax tree): anchored at both absolute ends, ASCII digits only, 'S-' one digit revision '-' authority "
        "and 1..15 '-' sub authorities, no other alternatives; O2 value ranges on every path to the byte construction: revision and count "
        "fit a byte, authority < 2^48 (its two top bytes are overwritten), each sub authority < 2^32, every to_bytes within capacity, each "
        "established by a guard raising ValueError; O3 SID / ACE / ACL / self-relative SD layout tables = MS-DTYP reference, offsets = actual "
        "positions of the parts, order Sacl, Dacl, Owner, Group; O4 the target SD constants (SYSTEM owner/group, ACE(<sid>, 3), ACE(S-1-1-0, 2), "
        "self-relative | DACL present)."
    )
    chk.scope_not = "injectivity and agreement with an independent parser as numerical facts."
    chk.trusted = ["Python re semantics for the constructs found", "MS-DTYP 2.4.2.2, 2.4.4.2, 2.4.5, 2.4.6 transcribed in this rule"]
    f = repo.func("_security_descriptor.sid_to_bytes")
    chk.analysed(f)
    world = World(repo)
    runs = grammar(repo, chk, f)
    ranges(repo, chk, f, world, runs)
    sid_layout(repo, chk, f)
    ace_acl(repo, chk)
    sd_layout(repo, chk)
    target_sd(repo, chk)


# ------------------------------------------------------------------------- O1
def grammar(repo: Repo, chk: Check, f: Func) -> t.List[Run]:
    comp = [n for n in body_nodes(f.node) if isinstance(n, ast.Call) and repo.dotted(n.func, f.mod) in ("re.compile", "re.match", "re.fullmatch", "re.search")]
    if not comp:
        # pattern compiled at module level: follow the receiver of .match/.fullmatch to its module constant
        for n in body_nodes(f.node):
            if isinstance(n, ast.Call) and isinstance(n.func, ast.Attribute) and n.func.attr in ("match", "fullmatch", "search") and isinstance(n.func.value, ast.Name):
                r = repo.resolve_name(n.func.value.id, f.mod)
                if isinstance(r, tuple) and r[0] == "const" and isinstance(r[2], ast.Call) and repo.dotted(r[2].func, r[1]) == "re.compile":
                    comp.append(r[2])
    if len(comp) != 1:
        raise AnalysisError("sid_to_bytes: the grammar is no longer a single regular expression")
    c = comp[0]
    okp, pattern = repo.try_fold(c.args[0], f.mod)
    if not okp or not isinstance(pattern, str):
        raise AnalysisError("sid_to_bytes: pattern is not a constant string")
    flags = 0
    for a in list(c.args[1:2]) + [k.value for k in c.keywords if k.arg == "flags"]:
        txt = unparse(a)
        if "ASCII" in txt or txt.endswith("re.A"):
            flags |= re.ASCII
        if "IGNORECASE" in txt or "MULTILINE" in txt or "VERBOSE" in txt or "DOTALL" in txt:
            chk.ob("O1", Site.of(f, c), False, f"regex flag {txt} changes the grammar")
    site = Site.of(f, c, f"SID pattern {pattern!r}")
    tree = sre_parse.parse(pattern, flags)
    items = list(tree)
    # how the compiled pattern is applied
    uses = [n for n in body_nodes(f.node) if isinstance(n, ast.Call) and isinstance(n.func, ast.Attribute) and n.func.attr in ("match", "fullmatch", "search", "findall")]
    method = repo.dotted(c.func, f.mod).split(".")[-1] if repo.dotted(c.func, f.mod) != "re.compile" else (uses[0].func.attr if uses else "?")  # type: ignore[union-attr]
    start_ok = method in ("match", "fullmatch") or (items and items[0] == (sre_c.AT, sre_c.AT_BEGINNING_STRING)) or (items and items[0] == (sre_c.AT, sre_c.AT_BEGINNING))
    chk.ob("O1", site, bool(start_ok), "anchored at the start" if start_ok else "the pattern is searched, not matched from the start of the string")
    end_ok = method == "fullmatch" or (bool(items) and items[-1] == (sre_c.AT, sre_c.AT_END_STRING))
    chk.ob("O1", site, end_ok, "anchored at the absolute end (\\Z / fullmatch)" if end_ok else "the pattern ends with '$' (or nothing): '$' also matches before a trailing newline, so 'S-1-5-18\\n' is accepted and silently altered")
    body = [it for it in items if it[0] != sre_c.AT]
    runs: t.List[Run] = []
    shape: t.List[str] = []

    def digits(op: t.Any, av: t.Any) -> t.Optional[bool]:
        """None: not a digit class; True/False: ASCII only?"""
        if op == sre_c.IN:
            parts = list(av)
            if parts == [(sre_c.RANGE, (48, 57))]:
                return True
            if parts == [(sre_c.CATEGORY, sre_c.CATEGORY_DIGIT)]:
                return bool(flags & re.ASCII)
            return None
        if op == sre_c.CATEGORY and av == sre_c.CATEGORY_DIGIT:
            return bool(flags & re.ASCII)
        return None

    def walk(seq: t.Any, rep: t.Tuple[int, t.Optional[int]]) -> None:
        for op, av in seq:
            if op == sre_c.LITERAL:
                shape.append(chr(av))
            elif op in (sre_c.MAX_REPEAT, sre_c.MIN_REPEAT):
                lo, hi, sub = av
                hi_n = None if hi == sre_c.MAXREPEAT else hi
                sub = list(sub)
                d = digits(*sub[0]) if len(sub) == 1 else None
                if d is not None:
                    runs.append(Run(lo, hi_n, d, rep))
                    shape.append("D+" if hi_n is None or hi_n > 1 else "D")
                elif len(sub) == 1 and sub[0][0] == sre_c.SUBPATTERN:
                    shape.append("(")
                    walk(sub[0][1][3], (lo, hi_n))
                    shape.append("){%d,%s}" % (lo, hi_n))
                elif all(o in (sre_c.LITERAL, sre_c.MAX_REPEAT, sre_c.MIN_REPEAT, sre_c.IN, sre_c.CATEGORY) for o, _ in sub):
                    shape.append("(")
                    walk(sub, (lo, hi_n))
                    shape.append("){%d,%s}" % (lo, hi_n))
                else:
                    shape.append("?")
            elif op == sre_c.SUBPATTERN:
                walk(av[3], rep)
            elif digits(op, av) is not None:
                runs.append(Run(1, 1, bool(digits(op, av)), rep))
                shape.append("D")
            elif op == sre_c.BRANCH:
                shape.append("|")
            else:
                shape.append("?")

    walk(body, (1, 1))
    got = "".join(shape)
    want = "S-D-D+(-D+){1,15}"
    import re as _re

    ok = _re.fullmatch(r"S-D-D\+\(-D\+\)\{\d+,(\d+|None)\}", got) is not None
    chk.table("SID grammar shape", got)
    chk.ob("O1", site, ok, f"grammar shape {got}: S-<digit>-<digits>(-<digits>){{a,b}} (the count bound is checked as a value range)" if ok else f"grammar shape is '{got}', MS-DTYP 2.4.2.1 says '{want}' (one digit revision, authority, repeated sub authorities; no signs, blanks or empty parts)")
    asc = all(r.ascii_only for r in runs) and bool(runs)
    chk.ob("O1", site, asc, "digit classes are ASCII only" if asc else "a digit class is '\\d' without re.ASCII: it matches every Unicode decimal digit, which int() silently converts (the SID string is altered instead of rejected)")
    # the match result guards the conversion
    g = build(f.node)
    ints = [n for n in body_nodes(f.node) if isinstance(n, ast.Call) and unparse(n.func) == "int"]
    for n in ints:
        nid = None
        for cn in g.nodes:
            if cn.ast is not None and cn.kind in ("stmt", "cond") and not isinstance(cn.ast, (ast.FunctionDef,)) and any(x is n for x in ast.walk(cn.ast)):
                nid = cn.id
        gs = g.guards_of(nid) if nid is not None else []
        okg = any(pol for e, pol in gs if isinstance(e, ast.Name) and "match" in e.id)
        chk.ob("O1", Site.of(f, n), okg, "conversion only after the grammar matched" if okg else "int() is applied to a component without the grammar having matched on this path")
    return runs


# ------------------------------------------------------------------------- O2
def ranges(repo: Repo, chk: Check, f: Func, world: World, runs: t.List[Run]) -> None:
    # split components: index 1 -> first run, 2 -> second, >= 3 -> the repeated run (when the shape is as expected)
    split = [n for n in body_nodes(f.node) if isinstance(n, ast.Assign) and isinstance(n.value, ast.Call) and unparse(n.value.func).endswith(".split") and unparse(n.value.args[0]) == "'-'"]
    splitname = unparse(split[0].targets[0]) if split else None

    def hook(inner: ast.expr) -> t.Optional[IV]:
        if splitname is None or not runs:
            return IV(0, None) if runs and all(r.ascii_only for r in runs) else None
        if isinstance(inner, ast.Subscript) and unparse(inner.value) == splitname:
            okf, idx = repo.try_fold(inner.slice, f.mod)
            r = None
            if okf and isinstance(idx, int) and 1 <= idx <= 2 and len(runs) >= idx:
                r = runs[idx - 1]
            elif len(runs) >= 3:
                r = runs[2]
            if r is not None:
                return IV(0, None if r.hi is None else 10**r.hi - 1)
        return IV(0, None)

    world.int_of_str[f.qual] = hook
    if splitname and len(runs) >= 3:
        lo, hi = runs[2].rep
        world.len_of[(f.qual, splitname)] = IV(3 + lo, None if hi is None else 3 + hi)
    world.results.pop(f.qual, None)
    res = world.analyse(f)
    n = 0
    for node in body_nodes(f.node):
        if isinstance(node, ast.Call) and isinstance(node.func, ast.Attribute) and node.func.attr == "to_bytes":
            n += 1
            iv = res.iv_of(node.func.value)
            okw, width = repo.try_fold(node.args[0], f.mod) if node.args else (False, None)
            signed = any(k.arg == "signed" and isinstance(k.value, ast.Constant) and k.value.value for k in node.keywords)
            if not okw:
                chk.ob("O2", Site.of(f, node), False, "to_bytes width is not constant")
                continue
            lo, hi = (-(1 << (8 * width - 1)), (1 << (8 * width - 1)) - 1) if signed else (0, (1 << (8 * width)) - 1)
            ok = iv.within(lo, hi)
            chk.ob("O2", Site.of(f, node), ok, f"{unparse(node.func.value)} in {iv} fits {width} bytes" if ok else f"{unparse(node.func.value)} can be {iv} at to_bytes({width}): a well-formed or near-miss SID raises OverflowError instead of being encoded / rejected with ValueError")
        if isinstance(node, ast.Assign) and isinstance(node.targets[0], ast.Subscript) and not isinstance(node.targets[0].slice, ast.Slice):
            n += 1
            iv = res.iv_of(node.value)
            ok = iv.within(0, 255)
            chk.ob("O2", Site.of(f, node), ok, f"byte store {unparse(node.value)} in {iv}" if ok else f"byte store {unparse(node.value)} can be {iv}")
    chk.count("range sinks", n)
    chk.require_min("range sinks", 2)
    # SubAuthorityCount: exactly 1..15 (not more: malformed SIDs accepted; not fewer: well-formed SIDs rejected)
    cnt = [node for node in body_nodes(f.node) if isinstance(node, ast.BinOp) and isinstance(node.op, ast.Sub) and splitname is not None and unparse(node.left) == f"len({splitname})" and unparse(node.right) == "3"]
    for node in cnt[:1]:
        iv = res.iv_of(node)
        ok = iv.within(1, 15)
        chk.ob("O2", Site.of(f, node, "sub authority count"), ok, f"count in {iv} is within 1..15" if ok else f"the number of sub authorities can be {iv}: MS-DTYP allows 1..15")
        okc = iv.lo is not None and iv.hi is not None and iv.lo <= 1 and iv.hi >= 15
        chk.ob("O2", Site.of(f, node, "sub authority count completeness"), okc, "every count from 1 to 15 is accepted" if okc else f"only counts in {iv} get through the grammar and guards: well-formed SIDs with up to 15 sub authorities are rejected")
    # the bytes overwritten by revision / count must be zero: authority < 2^48 when it is packed into 8 bytes
    stores = [node for node in body_nodes(f.node) if isinstance(node, ast.Assign) and isinstance(node.targets[0], ast.Subscript) and not isinstance(node.targets[0].slice, ast.Slice)]
    base = [node for node in body_nodes(f.node) if isinstance(node, ast.Call) and isinstance(node.func, ast.Attribute) and node.func.attr == "to_bytes" and unparse(node.func.value) == "authority"]
    if base and stores:
        okw, width = repo.try_fold(base[0].args[0], f.mod)
        over = sorted(repo.try_fold(s.targets[0].slice, f.mod)[1] for s in stores if repo.try_fold(s.targets[0].slice, f.mod)[0])  # type: ignore[union-attr]
        iv = res.iv_of(base[0].func.value)
        if okw and over:
            free = width - (max(over) + 1)
            ok = iv.within(0, (1 << (8 * free)) - 1) and over == list(range(len(over)))
            chk.ob("O2", Site.of(f, base[0], "authority bytes overwritten by revision/count"), ok, f"authority in {iv} leaves bytes {over} zero before they are overwritten" if ok else f"authority can be {iv}: its top bytes {over} are overwritten by revision and count, so a SID with a larger authority is silently altered")
    # count byte within 1..15 and errors are ValueError
    for r in [x for x in body_nodes(f.node) if isinstance(x, ast.Raise)]:
        ok = r.exc is not None and unparse(r.exc).startswith("ValueError(")
        chk.ob("O2", Site.of(f, r), ok, "rejects with ValueError" if ok else f"rejects with {unparse(r.exc)[:40]}")


# ------------------------------------------------------------------------- O3
def sid_layout(repo: Repo, chk: Check, f: Func) -> None:
    """Revision(1) SubAuthorityCount(1) IdentifierAuthority(6, big-endian) SubAuthority[](4, little-endian each)."""
    src = {unparse(n): n for n in body_nodes(f.node) if isinstance(n, (ast.Assign, ast.AugAssign))}
    base = [n for n in body_nodes(f.node) if isinstance(n, ast.Assign) and unparse(n.value).startswith("bytearray(authority.to_bytes(8")]
    ok = bool(base) and "byteorder='big'" in unparse(base[0].value)
    chk.ob("O3", Site.of(f, base[0] if base else None, None if base else "authority bytes"), ok, "identifier authority big-endian in bytes 2..7" if ok else "the identifier authority is not laid out as the low 6 bytes of an 8 byte big-endian value")
    if base:
        name = unparse(base[0].targets[0])
        s0 = f"{name}[0] = revision" in src
        s1 = any(k.startswith(f"{name}[1] = len(") and k.endswith("- 3") for k in src)
        chk.ob("O3", Site.of(f, construct="revision and count bytes"), s0 and s1, "byte 0 = revision, byte 1 = number of sub authorities" if s0 and s1 else "revision / sub authority count are not stored in bytes 0 and 1")
        loops = [n for n in body_nodes(f.node) if isinstance(n, ast.For)]
        okl = len(loops) == 1 and unparse(loops[0].iter).startswith("range(3, len(")
        app = [n for n in body_nodes(f.node) if isinstance(n, ast.AugAssign) and unparse(n.target) == name]
        oka = len(app) == 1 and "to_bytes(4, byteorder='little')" in unparse(app[0].value) and okl and any(x is app[0] for x in ast.walk(loops[0]))
        chk.ob("O3", Site.of(f, app[0] if app else None, None if app else "sub authorities"), oka, "sub authorities appended in order, 4 bytes little-endian each" if oka else "sub authorities are not appended in order as 4 byte little-endian values")
        rets = [n for n in body_nodes(f.node) if isinstance(n, ast.Return)]
        chk.ob("O3", Site.of(f, rets[0] if rets else None, None if rets else "return"), len(rets) == 1 and unparse(rets[0].value) == f"bytes({name})", "returns the assembled bytes")


def ace_acl(repo: Repo, chk: Check) -> None:
    f = repo.func("_security_descriptor.ace_to_bytes")
    chk.analysed(f)
    for p in layout.writer_paths(repo, f):
        sid = [s for s in p.segs if s.kind == "raw"]
        if len(sid) != 1 or sid[0].a.get("call") is None or not sid[0].call.rec.name.endswith("sid_to_bytes") or getattr(sid[0].call.rec.arg(0), "parts", [None])[0] != getattr(__import__("sa.sym", fromlist=["Ref"]).Ref(f.params[0]), "path", None) and repr(sid[0].call.rec.arg(0)) != f"SStr({f.params[0]})":
            pass
        ref = sid[0].ref.path if sid else "?"
        want = cat(LIT("0000"), INT(LEN(ref) + 8, 2), INT(F(f.params[1]), 4), RAW(ref))
        d = first_difference(sigs_of(p.segs), want)
        chk.ob("O3", Site.of(f, construct="ACCESS_ALLOWED_ACE layout"), d is None, "type 0, flags 0, size = 8 + len(sid), mask (4, LE), sid" if d is None else d)
        okc = bool(sid) and sid[0].a.get("call") is not None and sid[0].call.rec.name.endswith("sid_to_bytes") and f.params[0] in repr(sid[0].call.rec.arg(0))
        chk.ob("O3", Site.of(f, construct="ACE sid"), okc, "the ACE carries sid_to_bytes(<its sid argument>)")
    f = repo.func("_security_descriptor.acl_to_bytes")
    chk.analysed(f)
    for p in layout.writer_paths(repo, f):
        j = f"join({f.params[0]})"
        want = cat(LIT("0200"), INT(LEN(j) + 8, 2), INT(LEN(f.params[0]), 2), LIT("0000"), RAW(j))
        d = first_difference(sigs_of(p.segs), want)
        chk.ob("O3", Site.of(f, construct="ACL layout"), d is None, "revision 2, size = 8 + len(aces), count = number of ACEs, ACEs in order" if d is None else d)


def sd_layout(repo: Repo, chk: Check) -> None:
    f = repo.func("_security_descriptor.sd_to_bytes")
    chk.analysed(f)
    n = 0
    for p in layout.writer_paths(repo, f):
        n += 1
        has = {"sacl": False, "dacl": False}
        for c, pol in _implied(p.conds):
            if c.info.get("truthy") in has:
                has[c.info["truthy"]] = pol
        tag = f"sd_to_bytes [sacl={'yes' if has['sacl'] else 'no'}, dacl={'yes' if has['dacl'] else 'no'}]"
        site = Site.of(f, construct=tag)
        tb = Table(p.segs)
        segs = p.segs
        # locate the parts
        pos: t.Dict[str, Lin] = {}
        for seg, off in zip(segs, tb.offs):
            if seg.kind == "raw" and seg.a.get("call") is not None and seg.call.rec.name.endswith("sid_to_bytes"):
                arg = seg.call.rec.arg(0)
                who = "owner" if "owner" in repr(arg) else ("group" if "group" in repr(arg) else "?")
                pos.setdefault(who, off)
        # ACL starts: literal 0200 after the 20 byte header
        acl_offs = [off for seg, off in zip(segs, tb.offs) if seg.kind == "lit" and seg.value == b"\x02\x00" and not (off == 0)]
        names = [k for k in ("sacl", "dacl") if has[k]]
        for k, off in zip(names, acl_offs):
            pos[k] = off
        header = segs[:6]
        okh = len(header) == 6 and header[0].kind == "lit" and header[0].value == b"\x01\x00" and all(h.kind == "int" and h.order == "little" for h in header[1:]) and [repr(h.width) for h in header[1:]] == ["2", "4", "4", "4", "4"]
        chk.ob("O3", site, okh, "header: revision 1, sbz1 0, control(2), owner/group/sacl/dacl offsets (4 each), little-endian" if okh else "the 20 byte SECURITY_DESCRIPTOR header is not revision|sbz1|control|owner|group|sacl|dacl")
        if not okh:
            continue
        want_control = 0x8000 | (0x10 if has["sacl"] else 0) | (0x04 if has["dacl"] else 0)
        okc = header[1].value == want_control
        chk.ob("O3", site, okc, f"control = {want_control:#06x}" if okc else f"control is {header[1].value!r}, expected {want_control:#06x} (self-relative, SACL/DACL present bits)")
        for fieldname, h in zip(("owner", "group", "sacl", "dacl"), header[2:]):
            want = pos.get(fieldname, Lin(0)) if (fieldname in ("owner", "group") or has[fieldname]) else Lin(0)
            ok = h.value == want
            chk.ob("O3", site, ok, f"{fieldname} offset = {want!r} = where it is written" if ok else f"{fieldname} offset field is {h.value!r} but the {fieldname} is written at {want!r}")
        # order Sacl, Dacl, Owner, Group and start right after the header
        order = sorted(((v.const if v.is_const() else 10**9 + len(repr(v)), k) for k, v in pos.items()))
        seq = [k for k, _ in sorted(pos.items(), key=lambda kv: _rank(kv[1], tb))]
        wantseq = names + ["owner", "group"]
        chk.ob("O3", site, seq == wantseq, "dynamic part order: " + ", ".join(wantseq) if seq == wantseq else f"dynamic parts are written in the order {seq}, MS-GKDI needs {wantseq}")
        first = min((_rank(v, tb) for v in pos.values()), default=None)
        chk.ob("O3", site, first is not None and tb.offs[first] == 20, "dynamic data starts at offset 20")
        del order
    chk.count("sd layouts", n)
    chk.require_min("sd layouts", 4)


def _rank(off: Lin, tb: Table) -> int:
    for i, o in enumerate(tb.offs):
        if o == off:
            return i
    return 10**6


# ------------------------------------------------------------------------- O4
def target_sd(repo: Repo, chk: Check) -> None:
    f = repo.method("_blob.SIDDescriptor", "get_target_sd")
    chk.analysed(f)
    rets = [n for n in body_nodes(f.node) if isinstance(n, ast.Return)]
    if len(rets) != 1 or not isinstance(rets[0].value, ast.Call) or unparse(rets[0].value.func) != "sd_to_bytes":
        chk.ob("O4", Site.of(f, rets[0] if rets else None, None if rets else "return"), False, "get_target_sd does not return sd_to_bytes(...)")
        return
    c = rets[0].value
    site = Site.of(f, c)
    kws = {k.arg: k.value for k in c.keywords if k.arg}
    for i, a in enumerate(c.args):
        kws.setdefault(["owner", "group", "sacl", "dacl"][i], a)
    for who in ("owner", "group"):
        okf, v = repo.try_fold(kws.get(who), f.mod) if who in kws else (False, None)
        chk.ob("O4", site, okf and v == "S-1-5-18", f"{who} = SYSTEM (S-1-5-18)" if okf and v == "S-1-5-18" else f"{who} is {v!r}")
    oks = "sacl" not in kws or (isinstance(kws["sacl"], ast.Constant) and kws["sacl"].value is None)
    chk.ob("O4", site, oks, "no SACL")
    d = kws.get("dacl")
    want = ["ace_to_bytes(self.value, 3)", "ace_to_bytes('S-1-1-0', 2)"]
    got = [unparse(e) for e in d.elts] if isinstance(d, ast.List) else [unparse(d) if d is not None else "missing"]
    chk.ob("O4", site, got == want, "DACL = [allow <sid> mask 3, allow Everyone mask 2] in that order" if got == want else f"DACL is {got}, expected the list {want} (two ACEs even when the SID is S-1-1-0)")


def _implied(conds: t.Any) -> t.Any:
    from .c11 import implied

    return implied(conds)
