"""Chain semantics of compute_l2_key (shared by C01, C02, C10, C17).

The function is brought to a loop-free form by *summarising each walk loop* (a recognised template, see summarise),
its control flow is then composed path by path (sa/pathsum), and the term each path returns - seed key, KDF steps and
chain summaries over (L1, L2) contexts - is expanded for every valuation of a boundary grid of the four indices and
compared with the MS-GKDI 3.1.4.1.2 derivation sequence for that valuation.  The grid is a table over a finite domain;
nothing of the package is executed.
"""

from __future__ import annotations

import ast
import copy
import itertools
import typing as t

from sa.load import AnalysisError, Func, Repo, unparse
from sa.report import Check, Site

MARK = "__i__"


class NotAWalk(Exception):
    pass


def _is_kdf(e: ast.AST) -> bool:
    return isinstance(e, ast.Call) and unparse(e.func) == "kdf"


def _names(e: ast.AST) -> t.Set[str]:
    return {n.id for n in ast.walk(e) if isinstance(n, ast.Name)}


def _subst(e: ast.expr, env: t.Dict[str, ast.expr]) -> ast.expr:
    class S(ast.NodeTransformer):
        def visit_Name(self, n: ast.Name) -> ast.AST:
            if isinstance(n.ctx, ast.Load) and n.id in env:
                return copy.deepcopy(env[n.id])
            return n

    return t.cast(ast.expr, S().visit(copy.deepcopy(e)))


def _const(e: ast.expr) -> bool:
    return isinstance(e, ast.Constant) or (isinstance(e, ast.UnaryOp) and isinstance(e.operand, ast.Constant))


def summarise(loop: t.Union[ast.While, ast.For]) -> t.List[ast.stmt]:
    """Loop-free statements with the effect of a walk loop.

        while v > T:  [flag = C]  v -= 1  [x = pure]  k = kdf(A, P, L, ctx, N)          (decrement before or after the kdf)
        for i in range(A, B, -1):  [flag = C]  [x = pure]  k = kdf(..)                   (i may be v itself)

    ->  if <entered>:  flag = C ;  k = __chain__(P', hi, lo, A, L, ctx[index := __i__], N) ;  v = <value after the loop>
    When the parent P is the key variable k itself the steps chain (P' = k before the loop); otherwise every iteration
    derives from the same P and only the last one (index lo) survives."""
    if loop.orelse:
        raise NotAWalk("loop with else")
    body = list(loop.body)
    if any(isinstance(x, (ast.Break, ast.Continue, ast.Return, ast.For, ast.While, ast.If, ast.Try)) for s in body for x in ast.walk(s)):
        raise NotAWalk("control flow inside the walk loop")
    flags: t.List[ast.stmt] = []
    env: t.Dict[str, ast.expr] = {}
    kdf_stmt: t.Optional[ast.Assign] = None
    dec_pos: t.Optional[int] = None
    var: t.Optional[str] = None
    if isinstance(loop, ast.While):
        tst = loop.test
        if not (isinstance(tst, ast.Compare) and len(tst.ops) == 1):
            raise NotAWalk(f"loop test {unparse(tst)}")
        l, op, r = tst.left, tst.ops[0], tst.comparators[0]
        if isinstance(op, ast.Lt):
            l, r, op = r, l, ast.Gt()
        if isinstance(op, ast.NotEq) and not isinstance(l, ast.Name) and isinstance(r, ast.Name):
            l, r = r, l
        # `v != T` walks like `v > T` when v starts above T; when it starts below, the loop does not end (that is the
        # termination certificate's finding) - the summary takes the steps a terminating run makes: none
        if not (isinstance(op, (ast.Gt, ast.NotEq)) and isinstance(l, ast.Name)):
            raise NotAWalk(f"loop test {unparse(tst)}")
        var, bound = l.id, r
    for i, s in enumerate(body):
        if isinstance(s, ast.AugAssign) and isinstance(s.target, ast.Name) and var is not None and s.target.id == var and isinstance(s.op, ast.Sub) and isinstance(s.value, ast.Constant) and s.value.value == 1:
            if dec_pos is not None:
                raise NotAWalk("two decrements")
            dec_pos = i
            continue
        if isinstance(s, ast.Assign) and len(s.targets) == 1 and isinstance(s.targets[0], ast.Name):
            if _is_kdf(s.value):
                if kdf_stmt is not None:
                    raise NotAWalk("two kdf calls in one loop")
                kdf_stmt = ast.Assign(targets=s.targets, value=_subst(s.value, env))
                kdf_pos = i
                continue
            if _const(s.value):
                flags.append(s)
                continue
            if not any(isinstance(x, ast.Call) and _is_kdf(x) for x in ast.walk(s.value)):
                env[s.targets[0].id] = _subst(s.value, env)
                continue
        raise NotAWalk(f"statement {unparse(s)[:50]}")
    if kdf_stmt is None:
        raise NotAWalk("no kdf call")
    call = t.cast(ast.Call, kdf_stmt.value)
    kv = t.cast(ast.Name, kdf_stmt.targets[0]).id
    args = {k.arg: k.value for k in call.keywords if k.arg}
    pos = list(call.args) + [None] * 5
    alg, parent, label, ctx, length = (args.get(n) or pos[i_] for i_, n in enumerate(("algorithm", "secret", "label", "context", "length")))
    if None in (alg, parent, label, ctx, length):
        raise NotAWalk("kdf call with missing arguments")
    if isinstance(loop, ast.While):
        assert var is not None
        if dec_pos is None:
            raise NotAWalk(f"{var} is not decremented")
        if dec_pos < kdf_pos:
            hi: ast.expr = ast.BinOp(left=ast.Name(id=var, ctx=ast.Load()), op=ast.Sub(), right=ast.Constant(value=1))
            lo: ast.expr = copy.deepcopy(bound)
        else:
            hi = ast.Name(id=var, ctx=ast.Load())
            lo = ast.BinOp(left=copy.deepcopy(bound), op=ast.Add(), right=ast.Constant(value=1))
        entered: ast.expr = copy.deepcopy(loop.test)
        index = var
        after: t.List[ast.stmt] = [ast.Assign(targets=[ast.Name(id=var, ctx=ast.Store())], value=copy.deepcopy(bound))]
    else:
        it = loop.iter
        if not (isinstance(it, ast.Call) and unparse(it.func) == "range" and len(it.args) == 3 and unparse(it.args[2]) == "-1" and isinstance(loop.target, ast.Name)):
            raise NotAWalk(f"loop over {unparse(it)[:40]}")
        index = loop.target.id
        hi = copy.deepcopy(it.args[0])
        lo = ast.BinOp(left=copy.deepcopy(it.args[1]), op=ast.Add(), right=ast.Constant(value=1))
        entered = ast.Compare(left=copy.deepcopy(it.args[0]), ops=[ast.Gt()], comparators=[copy.deepcopy(it.args[1])])
        # the loop variable keeps the last index
        after = [ast.Assign(targets=[ast.Name(id=index, ctx=ast.Store())], value=copy.deepcopy(lo))]
    tmpl = _subst(t.cast(ast.expr, ctx), {index: ast.Name(id=MARK, ctx=ast.Load())})
    chaining = isinstance(parent, ast.Name) and parent.id == kv
    if index in _names(t.cast(ast.expr, parent)) or index in _names(t.cast(ast.expr, alg)):
        raise NotAWalk("the walked index is used outside the context")
    if chaining:
        new: ast.expr = ast.Call(func=ast.Name(id="__chain__", ctx=ast.Load()), args=[parent, hi, lo, alg, label, tmpl, length], keywords=[])
    else:
        new = ast.Call(func=ast.Name(id="kdf", ctx=ast.Load()), args=[alg, parent, label, _subst(tmpl, {MARK: lo}), length], keywords=[])
    out: t.List[ast.stmt] = list(flags) + [ast.Assign(targets=[ast.Name(id=kv, ctx=ast.Store())], value=new)] + after
    node = ast.If(test=entered, body=out, orelse=[])
    return [t.cast(ast.stmt, ast.fix_missing_locations(ast.copy_location(node, loop)))]


def loop_free(fn: t.Union[ast.FunctionDef, ast.AsyncFunctionDef]) -> t.Tuple[t.Union[ast.FunctionDef, ast.AsyncFunctionDef], int]:
    new = copy.deepcopy(fn)
    count = [0]

    def block(stmts: t.List[ast.stmt]) -> t.List[ast.stmt]:
        out: t.List[ast.stmt] = []
        for s in stmts:
            if isinstance(s, (ast.While, ast.For)) and any(_is_kdf(x) for x in ast.walk(s)):
                out += summarise(s)
                count[0] += 1
                continue
            for fld in ("body", "orelse", "finalbody"):
                blk = getattr(s, fld, None)
                if isinstance(blk, list) and blk and isinstance(blk[0], ast.stmt) and not isinstance(s, (ast.FunctionDef, ast.AsyncFunctionDef, ast.ClassDef)):
                    setattr(s, fld, block(blk))
            out.append(s)
        return out

    new.body = block(list(new.body))
    ast.fix_missing_locations(new)
    return new, count[0]


# ---------------------------------------------------------------------------- terms
class Term:
    pass


def _eval_int(e: ast.AST, env: t.Dict[str, int]) -> int:
    if isinstance(e, ast.Constant) and isinstance(e.value, int) and not isinstance(e.value, bool):
        return e.value
    if isinstance(e, ast.UnaryOp) and isinstance(e.op, ast.USub):
        return -_eval_int(e.operand, env)
    if isinstance(e, (ast.Name, ast.Attribute)):
        k = unparse(e)
        if k in env:
            return env[k]
        raise KeyError(k)
    if isinstance(e, ast.BinOp):
        a, b = _eval_int(e.left, env), _eval_int(e.right, env)
        if isinstance(e.op, ast.Add):
            return a + b
        if isinstance(e.op, ast.Sub):
            return a - b
        if isinstance(e.op, ast.Mult):
            return a * b
        if isinstance(e.op, ast.FloorDiv):
            return a // b
        if isinstance(e.op, ast.Mod):
            return a % b
    if isinstance(e, ast.Call) and unparse(e.func) in ("min", "max") and e.args and not e.keywords:
        vals = [_eval_int(a, env) for a in e.args]
        return min(vals) if unparse(e.func) == "min" else max(vals)
    if isinstance(e, ast.IfExp):
        return _eval_int(e.body, env) if _eval_bool(e.test, env) else _eval_int(e.orelse, env)
    raise KeyError(unparse(e)[:40])


def _eval_bool(e: ast.AST, env: t.Dict[str, int]) -> bool:
    if isinstance(e, ast.Constant):
        return bool(e.value)
    if isinstance(e, ast.UnaryOp) and isinstance(e.op, ast.Not):
        return not _eval_bool(e.operand, env)
    if isinstance(e, ast.BoolOp):
        vals = [_eval_bool(v, env) for v in e.values]
        return all(vals) if isinstance(e.op, ast.And) else any(vals)
    if isinstance(e, ast.Compare):
        left: t.Any = _eval_tuple(e.left, env)
        for op, r in zip(e.ops, e.comparators):
            right = _eval_tuple(r, env)
            ok = {ast.Lt: left < right, ast.LtE: left <= right, ast.Gt: left > right, ast.GtE: left >= right, ast.Eq: left == right, ast.NotEq: left != right}.get(type(op))
            if ok is None:
                raise KeyError(unparse(e)[:40])
            if not ok:
                return False
            left = right
        return True
    return _eval_int(e, env) != 0


def _eval_tuple(e: ast.AST, env: t.Dict[str, int]) -> t.Any:
    if isinstance(e, ast.Tuple):
        return tuple(_eval_int(x, env) for x in e.elts)
    return _eval_int(e, env)


class Bad(Exception):
    pass


def _compile_guards(atoms: t.List[t.Tuple[ast.expr, bool]]) -> t.List[t.Tuple[t.Callable[[t.Dict[str, int]], bool], bool]]:
    """The path conditions that are pure integer relations (comparisons, and/or/not, + - * // %, names, attribute paths,
    constants), each as a function of the valuation; other atoms do not restrict the valuations."""
    out: t.List[t.Tuple[t.Callable[[t.Dict[str, int]], bool], bool]] = []
    safe = (ast.Compare, ast.BoolOp, ast.BinOp, ast.UnaryOp, ast.Name, ast.Attribute, ast.Constant, ast.Tuple, ast.cmpop, ast.operator, ast.boolop, ast.unaryop, ast.expr_context)
    for e, pol in atoms:
        if not all(isinstance(n, safe) for n in ast.walk(e)):
            continue
        names: t.Dict[str, str] = {}

        class R(ast.NodeTransformer):
            def visit_Attribute(self, n: ast.Attribute) -> ast.AST:
                k = unparse(n)
                names.setdefault(k, f"v{len(names)}")
                return ast.copy_location(ast.Name(id=names[k], ctx=ast.Load()), n)

            def visit_Name(self, n: ast.Name) -> ast.AST:
                names.setdefault(n.id, f"v{len(names)}")
                return ast.copy_location(ast.Name(id=names[n.id], ctx=ast.Load()), n)

        tree = ast.Expression(body=R().visit(copy.deepcopy(e)))
        ast.fix_missing_locations(tree)
        code = compile(tree, "<guard>", "eval")
        inv = dict(names)

        def fn(env: t.Dict[str, int], code: t.Any = code, inv: t.Dict[str, str] = inv) -> bool:
            try:
                return bool(eval(code, {"__builtins__": {}}, {v: env[k] for k, v in inv.items()}))  # noqa: S307 - arithmetic over ints only
            except KeyError:
                return True if False else _UNKNOWN

        out.append((fn, pol))
    return out


class _U:
    def __eq__(self, other: object) -> bool:
        return True  # an atom over something the valuation does not fix agrees with either polarity

    def __hash__(self) -> int:
        return 0


_UNKNOWN: t.Any = _U()


def _evaluable(e: ast.AST, env: t.Dict[str, int]) -> bool:
    try:
        _eval_bool(e, env)
        return True
    except KeyError:
        return False


def expand(repo: Repo, f: Func, e: ast.AST, env: t.Dict[str, int], rk: str, alg: str) -> t.Tuple[str, t.List[t.Tuple[int, int]]]:
    """(seed kind, [(l1, l2) context of every KDF step in order]) of a key term for one valuation."""
    if isinstance(e, ast.Attribute) and unparse(e.value) == rk and e.attr in ("l1_key", "l2_key"):
        return e.attr, []
    if isinstance(e, ast.Call) and unparse(e.func) in ("kdf", "__chain__"):
        chain = unparse(e.func) == "__chain__"
        if chain:
            parent, hi, lo, a, label, ctx, length = e.args
        else:
            kw = {k.arg: k.value for k in e.keywords if k.arg}
            pos = list(e.args) + [None] * 5
            a, parent, label, ctx, length = (kw.get(n) or pos[i] for i, n in enumerate(("algorithm", "secret", "label", "context", "length")))
        if a is None or unparse(a) != alg:
            raise Bad(f"hash algorithm argument is {unparse(a) if a is not None else 'missing'}")
        if label is None or unparse(label) != "KDS_SERVICE_LABEL":
            raise Bad(f"kdf label is {unparse(label) if label is not None else 'missing'}")
        if length is None or repo.try_fold(t.cast(ast.expr, length), f.mod) != (True, 64):
            raise Bad(f"kdf length is {unparse(length) if length is not None else 'missing'}, MS-GKDI says 512 bits")
        if not (isinstance(ctx, ast.Call) and unparse(ctx.func) == "compute_kdf_context" and len(ctx.args) == 4 and not ctx.keywords):
            raise Bad(f"kdf context is {unparse(ctx)[:60] if ctx is not None else 'missing'}")
        c0, c1, c2, c3 = ctx.args
        if unparse(c0) != f"{rk}.root_key_identifier" or unparse(c1) != f"{rk}.l0":
            raise Bad(f"context root key / L0 are ({unparse(c0)}, {unparse(c1)}), not the envelope's")
        seed, steps = expand(repo, f, t.cast(ast.AST, parent), env, rk, alg)
        if chain:
            h, l_ = _eval_int(hi, env), _eval_int(lo, env)
            for i in range(h, l_ - 1, -1):
                env2 = dict(env)
                env2[MARK] = i
                steps = steps + [(_eval_int(c2, env2), _eval_int(c3, env2))]
            return seed, steps
        return seed, steps + [(_eval_int(c2, env), _eval_int(c3, env))]
    raise Bad(f"the returned key is {unparse(e)[:70]}: not a seed key of the envelope followed by KDF steps")


def reference(L1: int, L2: int, R1: int, R2: int) -> t.Tuple[str, t.List[t.Tuple[int, int]]]:
    """MS-GKDI 2.2.4 / 3.1.4.1.2: the envelope at (L1, L2) holds the L2 key for (L1, L2) unless L2 == 31, and the L1 key
    for L1 when L2 == 31, else for L1 - 1."""
    if L1 == R1 and L2 != 31:
        return "l2_key", [(R1, j) for j in range(L2 - 1, R2 - 1, -1)]
    k = L1 if L2 == 31 else L1 - 1
    steps = [(i, -1) for i in range(k - 1, R1 - 1, -1)]
    steps += [(R1, 31)] + [(R1, j) for j in range(30, R2 - 1, -1)]
    return "l1_key", steps


GRID = (0, 1, 2, 15, 29, 30, 31)


def chain_semantics(repo: Repo, chk: Check, f: Func, rule: str = "O3", full: bool = False) -> None:
    from sa.pathsum import Summary

    rk = f.params[3]
    r1, r2 = f.params[1], f.params[2]
    try:
        node, nloops = loop_free(f.node)
    except NotAWalk as e:
        raise AnalysisError(f"compute_l2_key: a chain walk loop left the idiom table ({e})")
    g = Func(f.qual, node, f.mod, f.cls)
    summ = Summary(g, None, prune=True)
    rets = summ.returning()
    if not rets:
        raise AnalysisError("compute_l2_key: no returning path")
    chk.count("chain walk summaries", nloops)
    dom = GRID
    site = Site.of(f, construct="compute_l2_key: derivation sequence per (envelope position, requested position)")
    problems: t.List[str] = []
    checked = 0
    undecided = 0
    raising = summ.raising()
    uncovered_bad: t.List[str] = []
    n_unc = 0
    if full:
        # thorough tier: every L2 pair on the L1 grid and every L1 pair on the L2 grid (all 32^4 would take an hour in Python)
        allv = range(32)
        space: t.Iterable[t.Tuple[int, int, int, int]] = itertools.chain(itertools.product(GRID, allv, GRID, allv), ((a, b, c, d) for a, c in itertools.product(allv, allv) for b, d in itertools.product(GRID, GRID)))
    else:
        space = itertools.product(dom, dom, dom, dom)
    guards_of = {id(ps): _compile_guards(ps.atoms()) for ps in list(rets) + list(summ.raising())}

    def consistent(ps: t.Any, env: t.Dict[str, int]) -> bool:
        return all(g_(env) == pol for g_, pol in guards_of[id(ps)])

    for L1, L2, R1, R2 in space:
        env = {f"{rk}.l1": L1, f"{rk}.l2": L2, r1: R1, r2: R2}
        if (L1, L2) < (R1, R2):
            # not covered: no key may be returned, the call ends in a raise
            n_unc += 1
            if len(uncovered_bad) < 2:
                for ps in rets:
                    if consistent(ps, env):
                        uncovered_bad.append(f"envelope ({L1},{L2}) asked for ({R1},{R2}): a key is returned although the envelope does not cover the request (seed position <lex requested position)")
                        break
                else:
                    if not any(consistent(ps, env) for ps in raising):
                        uncovered_bad.append(f"envelope ({L1},{L2}) asked for ({R1},{R2}): no path at all is consistent with this request")
            continue
        taken = [ps for ps in rets if consistent(ps, env)]
        if not taken:
            problems.append(f"envelope ({L1},{L2}) asked for ({R1},{R2}): no returning path (an exception escapes although the request is covered)")
            if len(problems) >= 3:
                break
            continue
        if len(taken) > 1:
            undecided += 1
        want = reference(L1, L2, R1, R2)
        for ps in taken:
            checked += 1
            try:
                got = expand(repo, f, t.cast(ast.AST, ps.value), env, rk, f.params[0])
            except Bad as b:
                problems.append(str(b))
                break
            except KeyError as k:
                raise AnalysisError(f"compute_l2_key: term {ps.text(ps.value)[:80]} cannot be evaluated ({k})")
            if got != want:
                def show(x: t.Tuple[str, t.List[t.Tuple[int, int]]]) -> str:
                    s_ = x[1]
                    return f"{x[0]} -> " + (" ".join(f"({a},{b})" for a, b in (s_ if len(s_) <= 6 else s_[:3] + [(-9, -9)] + s_[-2:])).replace("(-9,-9)", "..") or "(no step)")

                problems.append(f"envelope ({L1},{L2}) asked for ({R1},{R2}): derives {show(got)}; MS-GKDI derives {show(want)}")
                break
        if len(problems) >= 3:
            break
    chk.count("chain valuations", checked)
    okc = not uncovered_bad
    chk.ob("O2", Site.of(f, construct="compute_l2_key: uncovered requests"), okc, f"on all {n_unc} uncovered valuations of the grid (seed position <lex requested position) every consistent path raises: no key for a position the envelope does not cover" if okc else "; ".join(uncovered_bad))
    ok = not problems
    chk.ob(rule, site, ok, f"for all {checked} covered valuations of the {'boundary grid ' + str(list(GRID)) if not full else 'grid x 0..31 product'} the returned key is the envelope's seed key followed by exactly the MS-GKDI chain steps (label KDS service, 512 bit, context RKID||L0||L1||L2)" if ok else "; ".join(problems[:2]))
