"""C07 - ASN.1 DER primitives: minimal encoding, exact decoding, exact consumption."""

from __future__ import annotations

import ast
import typing as t

from sa import layout
from sa.cfg import build
from sa.flow import ReachingDefs
from sa.intervals import World
from sa.load import AnalysisError, Func, Repo, body_nodes, unparse
from sa.loops import LoopChecker
from sa.report import Check, Site
from sa.sym import Lin, same_on_byte

READERS = {
    "read_boolean": ("_read_asn1_boolean", "BOOLEAN", False),
    "read_enumerated": ("_read_asn1_enumerated", "ENUMERATED", False),
    "read_generalized_time": ("_read_asn1_generalized_time", "GENERALIZED_TIME", False),
    "read_integer": ("_read_asn1_integer", "INTEGER", False),
    "read_object_identifier": ("_read_asn1_object_identifier", "OBJECT_IDENTIFIER", False),
    "read_octet_string": ("_read_asn1_octet_string", "OCTET_STRING", False),
    "read_set": ("_read_asn1_set", "SET", True),
    "read_sequence": ("_read_asn1_sequence", "SEQUENCE", True),
    "read_utf8_string": ("_read_asn1_utf8_string", "UTF8_STRING", False),
}
WRITERS = {
    "_pack_asn1_boolean": ("BOOLEAN", False),
    "_pack_asn1_enumerated": ("ENUMERATED", False),
    "_pack_asn1_generalized_time": ("GENERALIZED_TIME", False),
    "_pack_asn1_integer": ("INTEGER", False),
    "_pack_asn1_octet_string": ("OCTET_STRING", False),
    "_pack_asn1_object_identifier": ("OBJECT_IDENTIFIER", False),
    "_pack_asn1_utf8_string": ("UTF8_STRING", False),
}
UNIVERSAL = {"BOOLEAN": 1, "INTEGER": 2, "OCTET_STRING": 4, "OBJECT_IDENTIFIER": 6, "ENUMERATED": 10, "UTF8_STRING": 12, "SEQUENCE": 16, "SET": 17, "GENERALIZED_TIME": 24}


def run(repo: Repo, chk: Check) -> None:
    chk.scope_decides = (
        "O1 exact consumption: each read_* advances the view by exactly the 'consumed' value of its helper, every helper returns "
        "_validate_tag's count unchanged, _validate_tag returns (content, header length + content length) and raises when fewer bytes are "
        "present, nested readers get exactly the content; O2 header tables agree between writer and reader (class<<6 | constructed<<5 | number "
        "vs masks 0xC0>>6, 0x20, 0x1F; high tag threshold 31; short form < 128; long form 0x80|n vs &0x7F; k-th length octet read right after "
        "the identifier octets; minimal big-endian length octets; indefinite form rejected); O3 default universal tags pair up; O4 digit loops: "
        "certificates, byte stores within [0,255], no read of possibly empty content, and any value.to_bytes(W) short cut of the INTEGER "
        "writer leaves room for the sign bit (W evaluated as a function of bit_length for every length up to 4096); O5 nested writer discipline."
    )
    chk.scope_not = "minimality and value round trip of INTEGER / OBJECT IDENTIFIER encodings for all values (arithmetic over digits)."
    chk.trusted = ["Python int.from_bytes/to_bytes, slicing and struct.unpack('B') semantics", "X.690 8.1 identifier/length octet rules transcribed here"]
    consumption(repo, chk)
    header_reader(repo, chk)
    header_writer(repo, chk)
    default_tags(repo, chk)
    digit_loops(repo, chk)
    integer_shortcuts(repo, chk)
    nested_writers(repo, chk)


# ------------------------------------------------------------------------- O1
def position_state(repo: Repo, chk: Check) -> None:
    """Anything an ASN1Reader remembers about its position besides the view itself (a cached header, an offset ...)
    must be reset by every method that moves the view; peek_header answers for the *current* position."""
    from sa.pathsum import Summary

    cls = repo.cls("_asn1.ASN1Reader")
    sums = {name: Summary(m) for name, m in cls.methods.items() if not name.startswith("__") or name == "__init__"}
    derived: t.Set[str] = set()
    for name, sm in sums.items():
        for ps in sm.paths:
            for e in ps.stores():
                tg = ps.text(e.target)
                if tg.startswith("self.") and tg != "self._view" and tg.count(".") == 1 and "self._view" in ps.text(e.tree):
                    derived.add(tg)
    pk = cls.methods.get("peek_header")
    if pk is None:
        raise AnalysisError("ASN1Reader.peek_header vanished")
    for ps in sums["peek_header"].returning():
        v = ps.value
        fresh = isinstance(v, ast.Call) and ps.text(v.func) == "_read_asn1_header" and [ps.text(a) for a in v.args] == ["self._view"] and any(ps.key(c.tree) == ps.key(v) for c in ps.calls("_read_asn1_header"))
        cached = ps.text(v) in derived
        chk.ob("O1", Site.of(pk, ps.exit_node), fresh or cached, "peek_header decodes the header at the current position" if fresh else ("peek_header answers from position state (reset discipline checked below)" if cached else f"peek_header returns {ps.text(v)[:60]}, which is not the header decoded at the current position"))
    for name, sm in sums.items():
        if name == "__init__":
            continue
        m = cls.methods[name]
        for ps in sm.paths:
            if ps.exit != "return":
                continue
            st = {ps.text(e.target) for e in ps.stores()}
            if "self._view" in st:
                stale = sorted(d for d in derived if d not in st)
                chk.ob("O1", Site.of(m, ps.exit_node, f"{name}: position state"), not stale, "moves the view and nothing else describes the position" if not derived else ("moves the view and resets " + ", ".join(sorted(derived))) if not stale else f"{name} moves self._view but leaves {', '.join(stale)} (computed from an earlier view) in place: the next peek_header / read answers for a position the reader has left")


def consumption(repo: Repo, chk: Check) -> None:
    position_state(repo, chk)
    cls = repo.cls("_asn1.ASN1Reader")
    n = 0
    for mname, (helper, _tag, _c) in READERS.items():
        m = cls.methods.get(mname)
        if m is None:
            raise AnalysisError(f"ASN1Reader.{mname} vanished")
        chk.analysed(m)
        n += 1
        rd = ReachingDefs(m)
        calls = [x for x in body_nodes(m.node) if isinstance(x, ast.Call) and unparse(x.func) == helper]
        site = Site.of(m, calls[0] if calls else None, None if calls else f"{mname}: helper call")
        from .util import args_of

        ca = {k: unparse(v) for k, v in args_of(repo, m, calls[0]).items()} if len(calls) == 1 else {}
        ok = len(calls) == 1 and ca.get("data") == "self._view"
        chk.ob("O1", site, bool(ok), f"decodes at the current position with {helper}" if ok else f"{mname} does not decode self._view with {helper}")
        if not ok:
            continue
        kws = ca
        okk = kws.get("tag") == "tag" and kws.get("header") == "header"
        chk.ob("O1", site, okk, "caller's tag and header passed on" if okk else f"tag/header arguments are {kws}")
        adv = [x for x in body_nodes(m.node) if isinstance(x, ast.Assign) and unparse(x.targets[0]) == "self._view"]
        oka = False
        why = f"{mname} does not advance self._view"
        if len(adv) == 1:
            v = adv[0].value
            if isinstance(v, ast.Subscript) and unparse(v.value) == "self._view" and isinstance(v.slice, ast.Slice) and v.slice.upper is None and v.slice.step is None and isinstance(v.slice.lower, ast.Name):
                d = rd.single_def(v.slice.lower.id, adv[0])
                oka = d is not None and d.value is calls[0] and d.index == 1
                why = "advances by the helper's consumed count" if oka else f"advances by {v.slice.lower.id}, which is not the consumed count returned by {helper}"
            else:
                why = f"advance is '{unparse(adv[0])}', expected self._view = self._view[consumed:]"
        chk.ob("O1", Site.of(m, adv[0] if adv else None, None if adv else f"{mname}: advance"), oka, why)
        # every return happens after the advance
        g = rd.cfg
        anid = g.first_of_stmt.get(adv[0]) if adv else None
        rets = [x for x in body_nodes(m.node) if isinstance(x, ast.Return)]
        okr = anid is not None and all(g.dominates(anid, g.first_of_stmt[r]) for r in rets if r in g.first_of_stmt)
        chk.ob("O1", Site.of(m, construct=f"{mname}: advance dominates return"), bool(okr), "no return without advancing")
        if mname in ("read_set", "read_sequence") and rets:
            d0 = rd.reaching(unparse(rets[0].value.args[0]), rets[0]) if isinstance(rets[0].value, ast.Call) and rets[0].value.args and isinstance(rets[0].value.args[0], ast.Name) else []
            okn = isinstance(rets[0].value, ast.Call) and unparse(rets[0].value.func) == "ASN1Reader" and len(d0) == 1 and d0[0].value is calls[0] and d0[0].index == 0
            chk.ob("O1", Site.of(m, rets[0]), okn, "nested reader gets exactly the content octets" if okn else "the nested reader is not built from the content view returned by the helper")
    chk.count("read methods", n)
    chk.require_min("read methods", 9)
    for alias, target in (("read_set_of", "read_set"), ("read_sequence_of", "read_sequence")):
        v = cls.class_consts.get(alias)
        chk.ob("O1", Site(cls.mod.rel, cls.qual, cls.node.lineno, f"{alias} = {target}"), v is not None and unparse(v) == target, "alias of the checked method")
    # helpers return _validate_tag's consumed count unchanged
    for mname, (helper, tagname, constructed) in READERS.items():
        h = repo.func(f"_asn1.{helper}")
        chk.analysed(h)
        rd = ReachingDefs(h)
        vts = [x for x in body_nodes(h.node) if isinstance(x, ast.Call) and unparse(x.func) in ("_validate_tag", "_read_asn1_integer")]
        site = Site.of(h, vts[0] if vts else None, None if vts else f"{helper}: _validate_tag")
        if len(vts) != 1:
            chk.ob("O1", site, False, f"{helper} does not validate the TLV exactly once")
            continue
        for r in [x for x in body_nodes(h.node) if isinstance(x, ast.Return)]:
            v = r.value
            if v is vts[0]:
                chk.ob("O1", Site.of(h, r), True, "returns the validated (content, consumed) pair")
                continue
            okc = isinstance(v, ast.Tuple) and len(v.elts) == 2 and isinstance(v.elts[1], ast.Name)
            if okc:
                d = rd.single_def(v.elts[1].id, r)  # type: ignore[union-attr]
                okc = d is not None and d.value is vts[0] and d.index == 1
            chk.ob("O1", Site.of(h, r), bool(okc), "consumed count returned unchanged" if okc else f"{helper} returns '{unparse(v)[:60]}': the consumed count is not the one computed by _validate_tag")
        from .util import args_of as _args_of

        va = _args_of(repo, h, vts[0])
        first = va.get("data") if "data" in va else (vts[0].args[0] if vts[0].args else None)
        okd = first is not None and unparse(first) == h.params[0]
        chk.ob("O1", site, okd, "validates the data it was given")
    validate_tag(repo, chk)


def validate_tag(repo: Repo, chk: Check) -> None:
    """Symbolic result of _validate_tag on every returning path: (data[TL : TL + DL], TL + DL) with (TL, DL) the header
    and content lengths of the caller's peeked header or of _read_asn1_header(data), returned only when at least DL
    octets follow the header."""
    from sa.symeval import SView, STuple  # noqa: F401

    f = repo.func("_asn1._validate_tag")
    chk.analysed(f)
    src = f.params[0]
    hdr = f.params[3]
    n = 0
    hdr_cls = repo.cls("_asn1.ASN1Header")
    fields = [x.name for x in hdr_cls.fields()]
    if fields != ["tag", "tag_length", "length"]:
        raise AnalysisError(f"ASN1Header fields changed: {fields}")
    for st, out in layout.Interp(repo, f).run(layout.self_state(repo, f)):
        if out.kind != "return":
            continue
        n += 1
        given = any(c.info.get("truthy") == hdr and pol for c, pol in st.conds)
        site = Site.of(f, out.node, f"_validate_tag returns [{'peeked header given' if given else 'header read here'}]")
        if given:
            tl, dl = Lin.atom(("field", f"{hdr}.tag_length")), Lin.atom(("field", f"{hdr}.length"))
        else:
            calls = [c for c in st.calls if c.name.endswith("_read_asn1_header")]
            okc = len(calls) == 1 and isinstance(calls[0].arg(0), SView) and calls[0].arg(0).src == src and calls[0].arg(0).lo == 0
            chk.ob("O1", site, okc, "header decoded from the start of the data" if okc else "the header is not decoded from the start of the data given")
            if not calls:
                continue
            tl, dl = Lin.atom(("opaque", f"{calls[0].result!r}[1]")), Lin.atom(("opaque", f"{calls[0].result!r}[2]"))
        res = out.value
        ok = isinstance(res, STuple) and len(res.items) == 2 and isinstance(res.items[0], SView) and res.items[0].src == src and res.items[0].lo == tl and res.items[0].hi == tl + dl and res.items[1] == tl + dl
        chk.ob("O1", site, ok, "(content, consumed) = (data[TL : TL + DL], TL + DL)" if ok else f"_validate_tag returns {res!r}; expected (data[{tl!r} : {tl + dl!r}], {tl + dl!r})")
        end = Lin.atom(("end", src))
        guard = _implies_ge0(st.conds, end - tl - dl)
        chk.ob("O1", site, guard, "returned only when all content octets are present (else NotEnougData)" if guard else "no test that DL octets follow the header precedes the return: a truncated value is handed on as if complete")
        tagcmp = any(("!=" in c.desc and pol is False) or ("==" in c.desc and pol) for c, pol in st.conds)
        chk.ob("O1", site, tagcmp, "only for the expected tag")
    chk.count("validate_tag paths", n)
    chk.require_min("validate_tag paths", 2)


# ------------------------------------------------------------------------- O2 reader
def header_reader(repo: Repo, chk: Check) -> None:
    f = repo.func("_asn1._read_asn1_header")
    chk.analysed(f)
    paths = layout.reader_paths(repo, f)
    src = f.params[0]
    n = 0
    single_read = [False]
    for p in paths:
        ints = [r for r in p.reads if r.kind == "int"]
        if not ints or not (ints[0].lo == 0 and ints[0].hi == 1):
            chk.ob("O2", Site.of(f, construct="identifier octet"), False, "the identifier octet is not read from offset 0")
            continue
        r1 = Lin.atom(("read", ints[0].rid))
        high = any("== 31" in c.desc and pol and "bitand" in c.desc for c, pol in _implied(p.conds))
        long_form = any(c.desc.startswith("(bitand") and "128) != 0" in c.desc and pol for c, pol in _implied(p.conds))
        n += 1
        res = p.result
        tag = res.fields.get("tag") if hasattr(res, "fields") else None
        tfields = tag.fields if hasattr(tag, "fields") else {}
        site = Site.of(f, construct=f"_read_asn1_header [{'high' if high else 'low'} tag number, {'long' if long_form else 'short'} length]")
        want_class = Lin.atom(("rshift", Lin.atom(("bitand", r1, Lin(0xC0))), Lin(6)))
        okc = same_on_byte(tfields.get("tag_class"), want_class, ("read", ints[0].rid))
        chk.ob("O2", site, okc, "class = (octet & 0xC0) >> 6" if okc else f"tag class is decoded as {tfields.get('tag_class')!r}, expected (octet & 0xC0) >> 6")
        if not high:
            okn = same_on_byte(tfields.get("tag_number"), Lin.atom(("bitand", r1, Lin(0x1F))), ("read", ints[0].rid)) or "TypeTagNumber" in repr(tfields.get("tag_number"))
            chk.ob("O2", site, okn, "number = octet & 0x1F" if okn else f"tag number is decoded as {tfields.get('tag_number')!r}")
        # position of the length octet = number of identifier octets
        lens = [r for r in ints[1:]]
        if not lens:
            chk.ob("O2", site, False, "no length octet read")
            continue
        T = lens[0].lo
        if high:
            okT = (T - 1).is_const() is False and "_unpack_asn1_octet_number" in repr(T) and not any(a[0] not in ("opaque",) for a in (T - 1).atoms())
            calls = [c for c in _calls_on_path(repo, f, p) if c.name.endswith("_unpack_asn1_octet_number")]
            arg = calls[0].arg(0) if calls else None
            okT = okT and arg is not None and getattr(arg, "lo", None) == 1
            chk.ob("O2", site, bool(okT), "length octet follows the 1 + k identifier octets, k from the base-128 number decoded at offset 1" if okT else f"length octet is read at {T!r}; expected 1 + <octets of the tag number decoded from offset 1>")
        else:
            chk.ob("O2", site, T == 1, "length octet at offset 1" if T == 1 else f"length octet is read at {T!r}")
        lenval = Lin.atom(("read", lens[0].rid))
        n7 = Lin.atom(("bitand", lenval, Lin(0x7F)))
        tl = res.fields.get("tag_length") if hasattr(res, "fields") else None
        want_tl = T + 1 + (n7 if long_form else 0)
        oktl = tl == want_tl or (isinstance(tl, Lin) and same_on_byte(tl - want_tl, Lin(0), ("read", lens[0].rid)))
        chk.ob("O2", site, oktl, "header length = identifier octets + 1" + (" + (length octet & 0x7F)" if long_form else "") if oktl else f"tag_length is {tl!r}, expected {want_tl!r}")
        if long_form:
            reps = [r for r in p.reads if r.kind == "repeat"]
            okr = False
            why = "long form length octets are not read in a loop"
            whole = [r for r in ints[2:] if r.lo == T + 1 and r.a.get("order") == "big" and not r.a.get("signed")]
            if not reps and whole:
                # the octets are decoded by one big-endian unsigned read: int.from_bytes(view[1 : 1 + n], "big")
                ln = res.fields.get("length") if hasattr(res, "fields") else None
                okr = whole[-1].hi == T + 1 + n7 and ln == Lin.atom(("read", whole[-1].rid))
                why = "length = the (octet & 0x7F) octets after the length octet as one big-endian unsigned integer" if okr else f"long form length is read from [{whole[-1].lo!r}:{whole[-1].hi!r}] (expected [{T + 1!r}:{T + 1 + n7!r}]) and the header carries {ln!r}"
                single_read[0] = True
            elif not reps and len(ints) > 2:
                why = f"long form length is decoded from [{ints[-1].lo!r}:{ints[-1].hi!r}] as {ints[-1].a.get('order')!r}-endian{' signed' if ints[-1].a.get('signed') else ''}; expected the big-endian unsigned integer at [{T + 1!r}:{T + 1 + n7!r}]"
                single_read[0] = True
            if reps:
                body = reps[-1].a["body"]
                it = Lin.atom(("iter", reps[-1].a["lid"]))
                okr = len(body) == 1 and body[0].lo == T + it and body[0].hi == T + it + 1 and reps[-1].a["count"] == n7
                why = "k-th length octet read at (identifier octets) + k, k = 1..(octet & 0x7F)" if okr else f"length octet k is read at {body[0].lo!r} for {reps[-1].a['count']!r} iterations; expected {T + it!r} for {n7!r} (wrong once the tag number needs extra identifier octets)"
            chk.ob("O2", site, okr, why)
        else:
            ln = res.fields.get("length") if hasattr(res, "fields") else None
            chk.ob("O2", site, ln == lenval, "short form: length = the octet itself" if ln == lenval else f"short form length is {ln!r}")
    chk.count("header paths", n)
    chk.require_min("header paths", 4)
    # indefinite form (0x80) never reaches a return; constructed bit; big-endian accumulation of the long form
    for p in paths:
        ints = [r for r in p.reads if r.kind == "int"]
        if len(ints) < 2:
            continue
        lenval = Lin.atom(("read", ints[1].rid))
        rej = not _feasible_with(p.conds, ("read", ints[1].rid), 128)
        chk.ob("O2", Site.of(f, construct="indefinite length rejected"), rej, "a returning path always has length octet != 0x80" if rej else "the indefinite length form (0x80) is not rejected on a returning path")
        res = p.result
        tag = res.fields.get("tag") if hasattr(res, "fields") else None
        cons = tag.fields.get("is_constructed") if hasattr(tag, "fields") else None
        r1 = Lin.atom(("read", ints[0].rid))
        rec = getattr(cons, "rec", None)
        okcon = rec is not None and rec.name == "bool" and _same_truth_on_byte(rec.arg(0), Lin.atom(("bitand", r1, Lin(0x20))), ("read", ints[0].rid))
        chk.ob("O2", Site.of(f, construct="constructed bit"), bool(okcon), "constructed = bool(octet & 0x20)" if okcon else f"the constructed bit is decoded as {cons!r}, expected bool(octet & 0x20)")
    if single_read[0]:
        return  # no accumulation loop: byte order and signedness were decided on the single read above
    okacc, why = big_endian_accumulation(repo, f)
    chk.ob("O2", Site.of(f, construct="big-endian length accumulation"), okacc, why)


def _feasible_with(conds: t.Any, atom: t.Any, value: int) -> bool:
    """Can the path be taken when `atom` has `value`?  Every condition of the path that only speaks about that atom is
    evaluated (comparisons, non-zero tests of bit expressions); one that comes out against its polarity excludes it."""
    from sa.sym import eval_lin

    env = {atom: value}
    for c, pol in _implied(conds):
        info = getattr(c, "info", {})
        val: t.Optional[bool] = None
        if "cmp" in info:
            op, x, y = info["cmp"]
            a_, b_ = eval_lin(x, env), eval_lin(y, env)
            if a_ is not None and b_ is not None:
                val = {"lt": a_ < b_, "le": a_ <= b_, "gt": a_ > b_, "ge": a_ >= b_, "eq": a_ == b_, "ne": a_ != b_}[op]
        elif isinstance(info.get("nonzero"), Lin):
            a_ = eval_lin(info["nonzero"], env)
            val = None if a_ is None else a_ != 0
        if val is not None and val != pol:
            return False
    return True


def _implies_ge0(conds: t.Any, goal: Lin) -> bool:
    """Some comparison decided on the path states `goal >= 0` (whatever side its terms were written on, whichever of
    <, <=, >, >= was used and whichever branch was taken), or something stronger by a constant."""
    for c, pol in _implied(conds):
        cmp_ = getattr(c, "info", {}).get("cmp")
        if not cmp_ or cmp_[0] not in ("lt", "le", "gt", "ge"):
            continue
        op, x, y = cmp_
        if op in ("gt", "ge"):
            op, x, y = ("lt" if op == "gt" else "le"), y, x
        # now  x < y  /  x <= y  with polarity pol
        if op == "lt":
            fact = (y - x - Lin(1)) if pol else (x - y)
        else:
            fact = (y - x) if pol else (x - y - Lin(1))
        d = goal - fact
        if d.is_const() and d.const >= 0:
            return True
    return False


def _same_truth_on_byte(a: t.Any, b: t.Any, atom: t.Any) -> bool:
    from sa.sym import eval_lin

    if not isinstance(a, Lin) or not isinstance(b, Lin):
        return False
    for v in range(256):
        x, y = eval_lin(a, {atom: v}), eval_lin(b, {atom: v})
        if x is None or y is None or bool(x) != bool(y):
            return False
    return True


def big_endian_accumulation(repo: Repo, f: Func) -> t.Tuple[bool, str]:
    """for k in range(1, n): acc += octet << 8 * (n - 1 - k)   or   acc = (acc << 8) | octet  (most significant first)."""
    for loop in [n for n in body_nodes(f.node) if isinstance(n, ast.For) and isinstance(n.target, ast.Name) and isinstance(n.iter, ast.Call) and unparse(n.iter.func) == "range" and len(n.iter.args) == 2]:
        k = loop.target.id
        stop = unparse(loop.iter.args[1])
        for s in ast.walk(loop):
            if isinstance(s, ast.AugAssign) and isinstance(s.op, ast.Add) and isinstance(s.value, ast.BinOp) and isinstance(s.value.op, ast.LShift):
                sh = s.value.right
                txt = unparse(sh).replace(" ", "")
                if txt in (f"8*({stop}-1-{k})", f"({stop}-1-{k})*8", f"8*({stop}-{k}-1)"):
                    return True, "octet k contributes octet << 8 * (count - 1 - k): most significant octet first"
                return False, f"length octets are accumulated with shift '{unparse(sh)}', expected 8 * ({stop} - 1 - {k}) (big-endian)"
            if isinstance(s, ast.Assign) and isinstance(s.value, ast.BinOp) and isinstance(s.value.op, (ast.BitOr, ast.Add)) and isinstance(s.value.left, ast.BinOp) and isinstance(s.value.left.op, ast.LShift):
                if unparse(s.value.left.left) == unparse(s.targets[0]) and repo.try_fold(s.value.left.right, f.mod) == (True, 8):
                    return True, "acc = (acc << 8) | octet: most significant octet first"
    return False, "no big-endian accumulation of the long form length octets found"


def _calls_on_path(repo: Repo, f: Func, path: layout.ReaderPath) -> t.List[t.Any]:
    for st, o in layout.Interp(repo, f).run(layout.self_state(repo, f)):
        if o.kind == "return" and [(c.desc, p) for c, p in st.conds] == [(c.desc, p) for c, p in path.conds]:
            return st.calls
    return []


# ------------------------------------------------------------------------- O2 writer
def _or_set(v: t.Any) -> t.Optional[t.Set[str]]:
    """Flatten nested (bitor a b) atoms into the set of their operand texts (constants 0 dropped)."""
    if not isinstance(v, Lin):
        return None
    if v.is_const():
        return set() if v.const == 0 else {str(v.const)}
    if len(v.terms) == 1 and v.const == 0:
        (atom, coef), = v.terms.items()
        if coef == 1 and atom[0] == "bitor":
            out: t.Set[str] = set()
            for x in atom[1:]:
                sub = _or_set(x)
                if sub is None:
                    return None
                out |= sub
            return out
    return {repr(v)}


def header_writer(repo: Repo, chk: Check) -> None:
    """Symbolic writer table of _pack_asn1(tag_class, constructed, tag_number, data), one row per combination of
    (constructed, low/high tag number, short/long length)."""
    f = repo.func("_asn1._pack_asn1")
    chk.analysed(f)
    p0, p1, p2, p3 = f.params[:4]
    # minimal big-endian long form (loop shape certificate, names bound by matching)
    okm, whym, nodem = minimal_long_form(repo, f)
    chk.ob("O2", Site.of(f, nodem, "long form length octets"), okm, whym)
    try:
        paths = layout.writer_paths(repo, f)
    except layout.Unsupported as e:
        if not okm:
            return  # the construction left the idiom *and* the minimality certificate failed: reported above
        raise AnalysisError(f"_pack_asn1 left the idiom table: {e}")
    cls_term = repr(Lin.atom(("lshift", Lin.atom(("field", p0)), Lin(6))))
    num = Lin.atom(("field", p2))
    dlen = Lin.atom(("len", p3))
    rows = 0
    seen = set()
    for p in paths:
        facts: t.Dict[str, t.Any] = {}
        tag_thr = None
        lo_len, hi_len = 0, None  # interval of len(content) on this path, from every comparison with a constant
        for c, pol in _implied(p.conds):
            cmp_ = c.info.get("cmp")
            if cmp_ and cmp_[1] == num and cmp_[2].is_const():
                facts["low"] = pol if cmp_[0] == "lt" else (not pol if cmp_[0] == "ge" else None)
                tag_thr = (cmp_[0], cmp_[2].const)
            elif cmp_ and cmp_[2].is_const() and cmp_[1] == dlen:
                k = cmp_[2].const
                op = cmp_[0] if pol else {"lt": "ge", "ge": "lt", "le": "gt", "gt": "le", "eq": "ne", "ne": "eq"}[cmp_[0]]
                if op == "lt":
                    hi_len = k - 1 if hi_len is None else min(hi_len, k - 1)
                elif op == "le":
                    hi_len = k if hi_len is None else min(hi_len, k)
                elif op == "ge":
                    lo_len = max(lo_len, k)
                elif op == "gt":
                    lo_len = max(lo_len, k + 1)
                elif op == "eq":
                    lo_len, hi_len = max(lo_len, k), (k if hi_len is None else min(hi_len, k))
                facts["len"] = True
            elif c.info.get("nonzero") == Lin.atom(("field", p1)) or c.info.get("truthy") == p1 or c.desc.startswith(p1):
                facts["constructed"] = pol
        if "low" not in facts or "len" not in facts or "constructed" not in facts:
            continue  # paths of the argument validation (they raise or are duplicates)
        segs = list(p.segs)
        i = 1 if facts["low"] else 2
        lenc = segs[i:-1]  # the length octets: everything between the identifier octets and the content
        shape: t.Any = "?"
        if len(lenc) == 1 and lenc[0].kind == "int" and lenc[0].width == 1 and lenc[0].value == dlen:
            shape = "short"
        elif len(lenc) == 2:
            pre, body = lenc
            pv = pre.value if pre.kind == "int" else (Lin(int.from_bytes(pre.value, "big")) if pre.kind == "lit" and isinstance(pre.value, bytes) and len(pre.value) == 1 else None)
            if isinstance(pv, Lin) and pv.is_const() and body.kind == "int" and body.width.is_const() and body.value == dlen and getattr(body, "order", "big") == "big" and pv.const == (0x80 | body.width.const):
                shape = ("fixed", body.width.const)
            elif pre.kind == "int" and pre.width == 1 and _or_set(pre.value) == {repr(body.width), "128"} and body.kind in ("reversed", "repeat", "raw", "int"):
                shape = "minimal"
        key = (facts["constructed"], facts["low"], shape, lo_len, hi_len)
        if key in seen:
            continue
        seen.add(key)
        rows += 1
        rng = f"{lo_len}..{hi_len if hi_len is not None else 'inf'}"
        tag = f"_pack_asn1 [{'constructed' if key[0] else 'primitive'}, {'low' if key[1] else 'high'} tag number, content length {rng}: {shape if isinstance(shape, str) else f'{shape[1]} length octets'}]"
        site = Site.of(f, construct=tag)
        okt = tag_thr in (("lt", 31), ("ge", 31))
        chk.ob("O2", site, okt, "identifier form switches at tag number 31" if okt else f"identifier form threshold is {tag_thr}; X.690 8.1.2.4 says 31 (the reader switches on exactly that)")
        # identifier octet
        want = {cls_term} | ({"32"} if key[0] else set()) | ({repr(num)} if key[1] else {"31"})
        got = _or_set(segs[0].value) if segs and segs[0].kind == "int" and segs[0].width == 1 else None
        chk.ob("O2", site, got == want, "identifier octet = class << 6 | constructed << 5 | " + ("number" if key[1] else "0x1F") if got == want else f"identifier octet is composed of {sorted(got) if got is not None else '?'}, expected {sorted(want)}")
        if not key[1]:
            okh = len(segs) > 1 and segs[1].kind == "raw" and segs[1].a.get("call") is not None and segs[1].call.rec.name.endswith("_pack_asn1_octet_number") and (segs[1].call.rec.arg(0) == num or getattr(segs[1].call.rec.arg(0), "path", None) == p2)
            chk.ob("O2", site, bool(okh), "followed by the base-128 octets of the tag number" if okh else "the high tag number is not followed by _pack_asn1_octet_number(tag_number)")
        # length octets: DER wants the definite form with the minimum number of octets for *every* length on the path
        if shape == "short":
            okl = hi_len is not None and hi_len <= 127
            chk.ob("O2", site, okl, "short form (one octet = len(content)) exactly for lengths up to 127" if okl else f"the short form is used for lengths {rng}: X.690 8.1.3.4 allows it up to 127 only (the reader reads bit 8 as the long-form flag)")
        elif shape == "minimal":
            okl = lo_len >= 128 and okm
            chk.ob("O2", site, okl, "long form: 0x80 | number of length octets, then the minimal big-endian octets, for lengths from 128" if okl else f"the long form is used for lengths {rng} (DER: lengths below 128 take the short form)" if lo_len < 128 else whym)
        elif isinstance(shape, tuple):
            kw = shape[1]
            okl = lo_len >= max(128, 256 ** (kw - 1)) and hi_len is not None and hi_len < 256**kw
            chk.ob("O2", site, okl, f"long form with {kw} length octet(s) for lengths {rng}: minimal" if okl else f"long form with a fixed {kw} length octet(s) is used for lengths {rng}: for {'lengths below ' + str(max(128, 256 ** (kw - 1))) if lo_len < max(128, 256 ** (kw - 1)) else 'lengths from ' + str(256**kw)} that is not the minimum number of octets (BER, not DER) or does not fit")
        else:
            chk.ob("O2", site, False, f"length octets {[sg.describe() for sg in lenc]} are neither the short form nor 0x80|n followed by n length octets")
        okd = bool(segs) and segs[-1].kind == "raw" and segs[-1].ref.path == p3
        chk.ob("O2", site, okd, "then the content octets" if okd else f"the TLV does not end with exactly the content octets ({[sg.kind for sg in segs[i:]]})")
    # together the rows must cover every length: 0..127 short, 128.. long
    chk.count("pack rows", rows)
    chk.require_min("pack rows", 8)
    guard = [n for n in body_nodes(f.node) if isinstance(n, ast.If) and any(isinstance(x, ast.Raise) for x in n.body) and p0 in unparse(n.test)]
    chk.ob("O2", Site.of(f, construct="tag class range"), bool(guard), "classes outside 0..3 are rejected")


def minimal_long_form(repo: Repo, f: Func) -> t.Tuple[bool, str, t.Optional[ast.AST]]:
    """DER: the length is encoded in the minimum number of octets, most significant first.  Accepted constructions:
    (a) while V: L.append(V & 0xFF); V >>= 8  followed by L.reverse()   (b) V.to_bytes((V.bit_length() + 7) // 8, 'big')"""
    for lp in [n for n in body_nodes(f.node) if isinstance(n, ast.While) and isinstance(n.test, ast.Name)]:
        v = lp.test.id
        app = [s for s in lp.body if isinstance(s, ast.Expr) and isinstance(s.value, ast.Call) and isinstance(s.value.func, ast.Attribute) and s.value.func.attr == "append" and isinstance(s.value.func.value, ast.Name)]
        shr = [s for s in lp.body if isinstance(s, ast.AugAssign) and isinstance(s.op, ast.RShift) and unparse(s.target) == v and repo.try_fold(s.value, f.mod) == (True, 8)]
        if len(app) == 1 and len(shr) == 1 and len(lp.body) == 2 and app[0].lineno < shr[0].lineno:
            arg = app[0].value.args[0]  # type: ignore[attr-defined]
            okarg = isinstance(arg, ast.BinOp) and isinstance(arg.op, ast.BitAnd) and unparse(arg.left) == v and repo.try_fold(arg.right, f.mod) == (True, 255)
            lst = app[0].value.func.value.id  # type: ignore[attr-defined]
            rev = [n for n in body_nodes(f.node) if isinstance(n, ast.Call) and isinstance(n.func, ast.Attribute) and n.func.attr == "reverse" and unparse(n.func.value) == lst and n.lineno > lp.lineno]
            if okarg and rev:
                return True, "octets taken least significant first while the value is non-zero, then reversed: minimal and big-endian", lp
            return False, f"length loop appends {unparse(arg)} {'and is not reversed' if not rev else ''}: not the big-endian minimal octets", lp
    for n in body_nodes(f.node):
        if isinstance(n, ast.Call) and isinstance(n.func, ast.Attribute) and n.func.attr == "to_bytes" and n.args:
            from .util import prov_text

            w = prov_text(f, n.args[0], n)
            v = prov_text(f, n.func.value, n)
            big = any(unparse(x) == "'big'" for x in list(n.args[1:2]) + [k.value for k in n.keywords if k.arg == "byteorder"])
            if big and w in (f"({v}.bit_length() + 7) // 8", f"(7 + {v}.bit_length()) // 8", f"math.ceil({v}.bit_length() / 8)", f"-(-{v}.bit_length() // 8)"):
                return True, "to_bytes((bit_length + 7) // 8, 'big'): minimal and big-endian", n
    return False, "the long form length octets are not derived from the value's magnitude (while v: append(v & 0xFF); v >>= 8; reverse): fixed-width encodings emit leading zero octets, which is BER, not DER", None


# ------------------------------------------------------------------------- O3
def _universal_default(repo: Repo, f: Func) -> t.List[t.Tuple[str, bool]]:
    out = []
    for n in body_nodes(f.node):
        if isinstance(n, ast.Call) and unparse(n.func) == "ASN1Tag.universal_tag" and n.args:
            name = unparse(n.args[0]).split(".")[-1]
            cons = False
            for a in list(n.args[1:2]) + [k.value for k in n.keywords if k.arg == "is_constructed"]:
                cons = bool(isinstance(a, ast.Constant) and a.value)
            out.append((name, cons))
    return out


def default_tags(repo: Repo, chk: Check) -> None:
    tt = repo.cls("_asn1.TypeTagNumber")
    members = repo.enum_members(tt)
    for name, num in UNIVERSAL.items():
        chk.ob("O3", Site(tt.mod.rel, tt.qual, tt.node.lineno, f"TypeTagNumber.{name}"), members.get(name) == num, f"{name} = {members.get(name)}" if members.get(name) == num else f"TypeTagNumber.{name} is {members.get(name)}, X.680 says {num}")
    for helper_name, (helper, tagname, constructed) in READERS.items():
        h = repo.func(f"_asn1.{helper}")
        got = _universal_default(repo, h)
        ok = (tagname, constructed) in got and len(set(got)) == 1
        chk.count("tag pairs")
        chk.ob("O3", Site.of(h, construct=f"{helper} default tag"), ok, f"reader validates universal {tagname}{' constructed' if constructed else ''}" if ok else f"{helper} validates {got}, expected universal {tagname} (constructed={constructed})")
    for wname, (tagname, constructed) in WRITERS.items():
        w = repo.func(f"_asn1.{wname}")
        chk.analysed(w)
        got = _universal_default(repo, w)
        ok = got == [(tagname, constructed)]
        chk.ob("O3", Site.of(w, construct=f"{wname} default tag"), ok, f"writer defaults to universal {tagname}" if ok else f"{wname} defaults to {got}, expected universal {tagname} (constructed={constructed})")
    wcls = repo.cls("_asn1.ASN1Writer")
    for mname, tagname in (("push_sequence", "SEQUENCE"), ("push_set", "SET")):
        m = wcls.methods[mname]
        got = _universal_default(repo, m)
        ok = got == [(tagname, True)]
        chk.ob("O3", Site.of(m, construct=f"{mname} default tag"), ok, f"{mname} defaults to universal constructed {tagname}" if ok else f"{mname} defaults to {got}")
    chk.require_min("tag pairs", 9)
    # write_X -> _pack_asn1_X pairing
    for m in wcls.methods.values():
        if m.name.startswith("write_") and m.name != "write_raw":
            want = "_pack_asn1_" + m.name[len("write_") :]
            calls = [n for n in body_nodes(m.node) if isinstance(n, ast.Call) and unparse(n.func).startswith("_pack_asn1_")]
            ok = len(calls) == 1 and unparse(calls[0].func) == want and unparse(calls[0].args[0]) == m.params[1] and any(k.arg == "tag" and unparse(k.value) == "tag" for k in calls[0].keywords)
            chk.ob("O3", Site.of(m, calls[0] if calls else None, None if calls else m.name), ok, f"{m.name} emits {want}(value, tag=tag)" if ok else f"{m.name} does not emit {want}(value, tag=tag)")
            ext = [n for n in body_nodes(m.node) if isinstance(n, ast.Call) and unparse(n.func) == "self._data.extend"]
            chk.ob("O3", Site.of(m, construct=f"{m.name} appends"), len(ext) == 1 and bool(calls) and ext[0].args[0] is calls[0], "appended to the writer's buffer once")


# ------------------------------------------------------------------------- O4
def digit_loops(repo: Repo, chk: Check) -> None:
    world = World(repo)
    mod = repo.mod("_asn1")
    n = 0
    for f in [x for x in repo.funcs.values() if x.mod is mod]:
        certs = LoopChecker(world, f).all()
        if certs:
            chk.analysed(f)
        for c in certs:
            n += 1
            chk.ob("O4", Site.of(f, c.node, c.text), c.kind is not None, f"{c.kind}: {c.why}" if c.kind else f"no termination certificate: {c.why}")
        res = world.analyse(f)
        for node in body_nodes(f.node):
            # byte stores b[i] = e / b[i] += e
            if isinstance(node, (ast.Assign, ast.AugAssign)):
                tg = node.targets[0] if isinstance(node, ast.Assign) else node.target
                if isinstance(tg, ast.Subscript) and not isinstance(tg.slice, ast.Slice) and isinstance(tg.value, ast.Name) and tg.value.id in res.bytes_like:
                    if isinstance(node, ast.Assign):
                        iv = res.iv_of(node.value)
                    else:
                        iv = res._binop(node.op, res.iv_of(tg), res.iv_of(node.value)) if res.reachable(node.value) else res.iv_of(node.value)
                    ok = iv.within(0, 255)
                    chk.ob("O4", Site.of(f, node), ok, f"byte store within {iv}" if ok else f"byte store {unparse(node)} can be {iv}: ValueError 'byte must be in range(0, 256)' for some encodings")
                    idx = res.iv_of(tg.slice)
                    oki = idx.lo is not None and idx.lo >= 0
                    chk.ob("O4", Site.of(f, tg), oki, f"index {idx} is not negative" if oki else f"index {unparse(tg.slice)} can be {idx}: a negative index silently addresses the other end of the buffer")
            # reads of possibly empty content
            if isinstance(node, ast.Call) and unparse(node.func) == "struct.unpack" and len(node.args) == 2:
                n += 1
                ok, why = nonempty_guard(f, node)
                chk.ob("O4", Site.of(f, node), ok, why)
            if isinstance(node, ast.Subscript) and not isinstance(node.slice, ast.Slice) and isinstance(node.ctx, ast.Load) and isinstance(node.value, ast.Name) and node.value.id in res.bytes_like and f.name.startswith("_read_asn1"):
                ok, why = nonempty_guard(f, node)
                chk.ob("O4", Site.of(f, node), ok, why)
    chk.count("asn1 loops and reads", n)
    chk.require_min("asn1 loops and reads", 9)


def nonempty_guard(f: Func, node: ast.AST) -> t.Tuple[bool, str]:
    """struct.unpack('B', v[a:a+1]) / v[i]: the conditions that dominate the read prove  a < len(v)  (any spelling:
    `len(v) < a + 1 -> raise`, `len(v) <= a -> raise`, `if a < len(v)`, or `not v -> raise` for a == 0)."""
    from sa.linfacts import ge0_facts, goal_ge, proves_ge0
    from .util import atoms_at, prov_text

    if isinstance(node, ast.Call):
        arg = node.args[1]
        base = arg.value if isinstance(arg, ast.Subscript) else arg
        lo = arg.slice.lower if isinstance(arg, ast.Subscript) and isinstance(arg.slice, ast.Slice) else None
    else:
        base = node.value  # type: ignore[attr-defined]
        lo = node.slice  # type: ignore[attr-defined]
    b = unparse(base)
    atoms = atoms_at(f, node)
    lo_e: ast.expr = lo if lo is not None else ast.Constant(value=0)
    try:
        lo_txt = prov_text(f, lo_e, node) if not isinstance(lo_e, ast.Constant) else unparse(lo_e)
        lo_p = ast.parse(lo_txt, mode="eval").body
    except SyntaxError:
        lo_p = lo_e
    bp = prov_text(f, base, node)
    for c, pol in atoms:
        if unparse(c) in (b, bp) and pol and unparse(lo_e) in ("0", ""):
            return True, f"dominated by 'if not {b}: raise'"
    # the index is the variable of `for i in range(len(v))` / `range(k, len(v))` / `for i, x in enumerate(v)`
    if isinstance(lo_e, ast.Name):
        for loop in [x for x in body_nodes(f.node) if isinstance(x, ast.For) and any(y is node for y in ast.walk(x))]:
            it = loop.iter
            tg = loop.target
            rebound = any(isinstance(x, ast.Name) and x.id in (lo_e.id, b) and isinstance(x.ctx, ast.Store) for s_ in loop.body for x in ast.walk(s_))
            if rebound:
                continue
            if isinstance(tg, ast.Name) and tg.id == lo_e.id and isinstance(it, ast.Call) and unparse(it.func) == "range" and 1 <= len(it.args) <= 2 and unparse(it.args[-1]) == f"len({b})":
                okl, lo0 = (True, 0) if len(it.args) == 1 else (isinstance(it.args[0], ast.Constant) and isinstance(it.args[0].value, int) and it.args[0].value >= 0, 0)
                if okl:
                    return True, f"{lo_e.id} runs over range(len({b}))"
            if isinstance(tg, ast.Tuple) and len(tg.elts) == 2 and unparse(tg.elts[0]) == lo_e.id and isinstance(it, ast.Call) and unparse(it.func) == "enumerate" and len(it.args) == 1 and not it.keywords and unparse(it.args[0]) == b:
                return True, f"{lo_e.id} is the enumerate index of {b}"
    facts = ge0_facts(atoms)
    for bx in (b, bp):
        ln = ast.parse(f"len({bx})", mode="eval").body
        for lo_x in (lo_e, lo_p):
            if proves_ge0(facts, goal_ge(ln, lo_x, 1)):
                return True, f"the dominating conditions give {unparse(lo_x)} < len({b})"
    return False, f"{unparse(node)[:60]} reads an octet of '{b}' without a dominating non-empty / bounds test: empty content (e.g. '06 00') escapes with struct.error / IndexError instead of a deliberate error"


# ------------------------------------------------------------------------- O5
def integer_shortcuts(repo: Repo, chk: Check) -> None:
    """A `value.to_bytes(W, ...)` inside the INTEGER writer encodes content octets without the octet loop.  The reader
    takes the content as big-endian two's complement, so on every path through such a call W must leave room for the
    sign bit and (DER) be minimal.  Decided per path summary: W is an arithmetic expression over the parameter (its
    bit_length, the bit_length of -value - 1, ...); it is evaluated on a table of boundary values - 0, -1 and
    +-2^k, +-(2^k - 1), +-(2^k + 1) for k up to 4096, i.e. the smallest and largest number of every bit length - restricted
    to those the path's own guards on the parameter admit.  (A table over a finite domain, not a run of the package.)"""
    from sa.pathsum import Summary
    from .util import recv_of

    f = repo.func("_asn1._pack_asn1_integer")
    chk.analysed(f)
    vparam = f.params[0]
    samples = [0, -1]
    for k in range(0, 4097):
        for v_ in (1 << k, (1 << k) - 1, (1 << k) + 1):
            samples += [v_, -v_]
    samples = sorted(set(samples))

    class Undecided(Exception):
        pass

    def ev(x: ast.AST, v: int) -> t.Any:
        if isinstance(x, ast.Constant) and isinstance(x.value, (int, bool)):
            return x.value
        if isinstance(x, ast.Name) and x.id == vparam:
            return v
        if isinstance(x, ast.UnaryOp) and isinstance(x.op, ast.USub):
            return -ev(x.operand, v)
        if isinstance(x, ast.UnaryOp) and isinstance(x.op, ast.Invert):
            return ~ev(x.operand, v)
        if isinstance(x, ast.UnaryOp) and isinstance(x.op, ast.Not):
            return not ev(x.operand, v)
        if isinstance(x, ast.Call) and isinstance(x.func, ast.Attribute) and x.func.attr == "bit_length" and not x.args:
            return int(ev(x.func.value, v)).bit_length()
        if isinstance(x, ast.Call) and isinstance(x.func, ast.Name) and x.func.id in ("max", "min", "abs") and x.args and not x.keywords:
            vals = [ev(a_, v) for a_ in x.args]
            return abs(vals[0]) if x.func.id == "abs" else (max(vals) if x.func.id == "max" else min(vals))
        if isinstance(x, ast.Call) and repo.dotted(x.func, f.mod) == "math.ceil" and len(x.args) == 1 and isinstance(x.args[0], ast.BinOp) and isinstance(x.args[0].op, ast.Div):
            p_, q_ = ev(x.args[0].left, v), ev(x.args[0].right, v)
            return -((-p_) // q_)
        if isinstance(x, ast.BinOp):
            p_, q_ = ev(x.left, v), ev(x.right, v)
            ops: t.Dict[t.Any, t.Callable[[int, int], int]] = {ast.Add: lambda m, n: m + n, ast.Sub: lambda m, n: m - n, ast.Mult: lambda m, n: m * n, ast.FloorDiv: lambda m, n: m // n, ast.Mod: lambda m, n: m % n, ast.RShift: lambda m, n: m >> n, ast.LShift: lambda m, n: m << n, ast.BitAnd: lambda m, n: m & n, ast.BitOr: lambda m, n: m | n}
            if type(x.op) in ops:
                return ops[type(x.op)](p_, q_)
        if isinstance(x, ast.Compare) and len(x.ops) == 1:
            p_, q_ = ev(x.left, v), ev(x.comparators[0], v)
            cm: t.Dict[t.Any, t.Callable[[int, int], bool]] = {ast.Lt: lambda m, n: m < n, ast.LtE: lambda m, n: m <= n, ast.Gt: lambda m, n: m > n, ast.GtE: lambda m, n: m >= n, ast.Eq: lambda m, n: m == n, ast.NotEq: lambda m, n: m != n}
            if type(x.ops[0]) in cm:
                return cm[type(x.ops[0])](p_, q_)
        if isinstance(x, ast.IfExp):
            return ev(x.body, v) if ev(x.test, v) else ev(x.orelse, v)
        if isinstance(x, ast.expr):
            ok_, c_ = repo.try_fold(x, f.mod)
            if ok_ and isinstance(c_, int):
                return int(c_)
        raise Undecided(unparse(x)[:60])

    seen: t.Set[t.Tuple[int, str]] = set()
    for ps in Summary(f, prune=True).paths:
        for c in ps.calls("to_bytes"):
            call = t.cast(ast.Call, c.tree)
            if ps.text(recv_of(call)) != vparam:
                continue  # the width of another quantity (a digit, a length)
            kw = {k.arg: k.value for k in call.keywords if k.arg}
            warg = kw.get("length") or (call.args[0] if call.args else None)
            order = repo.try_fold(kw.get("byteorder") or (call.args[1] if len(call.args) > 1 else ast.Constant(value="big")), f.mod)
            signed = repo.try_fold(kw.get("signed") or ast.Constant(value=False), f.mod)
            if warg is None or not order[0] or not signed[0]:
                raise AnalysisError(f"{f.qual}:{getattr(c.node, 'lineno', 0)}: to_bytes call outside the idiom table: {ps.text(call)[:60]}")
            guards = [(e, pol) for e, pol in ps.atoms() if any(isinstance(x, ast.Name) and x.id == vparam for x in ast.walk(e))]
            key = (id(c.node), ps.text(warg) + "|" + "&".join(sorted(("" if p_ else "not ") + ps.text(e) for e, p_ in guards)))
            if key in seen:
                continue
            seen.add(key)
            site = Site.of(f, c.node)
            chk.count("integer shortcuts")
            if order[1] != "big":
                chk.ob("O4", site, False, f"INTEGER content written {order[1]}-endian: the reader decodes big-endian two's complement")
                continue
            bad: t.Optional[str] = None
            slack: t.Optional[str] = None
            n_adm = 0
            try:
                for v in samples:
                    adm = True
                    for e, pol in guards:
                        try:
                            if bool(ev(e, v)) != pol:
                                adm = False
                                break
                        except Undecided:
                            continue  # a guard this table cannot read does not restrict the samples
                    if not adm:
                        continue
                    n_adm += 1
                    w = ev(warg, v)
                    need = ((v.bit_length() if v >= 0 else (-v - 1).bit_length()) // 8) + 1
                    if not signed[1] and v < 0:
                        bad = f"unsigned to_bytes reached with the negative value {v if abs(v) < 1 << 40 else '-2^' + str((-v).bit_length() - 1) + '..'} (OverflowError)"
                        break
                    if w < need:
                        shown = str(v) if abs(v) < 1 << 40 else ("2^" if v > 0 else "-2^") + str(abs(v).bit_length() - 1) + ".."
                        bad = f"content width {ps.text(warg)} is {w} octet(s) for value {shown} ({abs(v).bit_length()} bits): {'the top content bit is set, the reader (big-endian two-s complement) returns a negative number' if v >= 0 and w * 8 >= v.bit_length() else 'the value does not fit'}"
                        break
                    if w > need and slack is None:
                        shown = str(v) if abs(v) < 1 << 40 else ("2^" if v > 0 else "-2^") + str(abs(v).bit_length() - 1) + ".."
                        slack = f"{w} content octets for value {shown} where {need} suffice: not the minimal (DER) form"
            except Undecided as u:
                raise AnalysisError(f"{f.qual}:{getattr(c.node, 'lineno', 0)}: width expression {ps.text(warg)[:60]} is not arithmetic over {vparam} ({u})")
            if bad is not None:
                chk.ob("O4", site, False, bad)
                continue
            chk.ob("O4", site, n_adm > 0, f"width {ps.text(warg)[:60]} leaves room for the sign bit on all {n_adm} boundary values this path admits" if n_adm else "no boundary value reaches this call: guards not understood")
            chk.ob("O4", site, slack is None, "and it is the minimal number of content octets (DER)" if slack is None else slack)


def nested_writers(repo: Repo, chk: Check) -> None:
    cls = repo.cls("_asn1.ASN1Writer")
    for mname in ("push_sequence", "push_set"):
        m = cls.methods[mname]
        chk.analysed(m)
        rets = [n for n in body_nodes(m.node) if isinstance(n, ast.Return)]
        ok = len(rets) == 1 and unparse(rets[0].value) == "ASN1Writer(tag=tag, parent=self)"
        chk.ob("O5", Site.of(m, rets[0] if rets else None, None if rets else mname), ok, "child writer bound to this writer and its tag" if ok else f"{mname} returns {unparse(rets[0].value) if rets else '?'}")
    ex = cls.methods["__exit__"]
    chk.analysed(ex)
    from sa.pathsum import Summary
    from .util import args_of

    n_flush = 0
    for ps in Summary(ex, prune=True).returning():
        facts = ps.facts()
        packs = ps.calls("_pack_asn1")
        exts = [c for c in ps.calls("extend") if ps.text(t.cast(ast.Attribute, t.cast(ast.Call, c.tree).func).value) == "self._parent._data"]
        child = "self._parent" in facts and "self._tag" in facts
        site = Site.of(ex, packs[0].node if packs else ps.exit_node, None if (packs or ps.exit_node is not None) else "__exit__")
        if not child:
            ok0 = not exts
            chk.ob("O5", Site.of(ex, ps.exit_node, None if ps.exit_node is not None else "__exit__ of a root writer"), ok0, "a writer without parent / tag flushes nothing" if ok0 else "a writer without parent or tag appends to a parent buffer")
            continue
        n_flush += 1
        a = args_of(repo, ex, t.cast(ast.Call, packs[0].tree)) if len(packs) == 1 else {}
        got = [ps.text(a.get(k)) for k in ("tag_class", "constructed", "tag_number", "data")]
        ok = got == ["self._tag.tag_class", "self._tag.is_constructed", "self._tag.tag_number", "self._data"]
        chk.ob("O5", site, ok, "closing a child wraps its content in its own tag" if ok else f"__exit__ does not wrap self._data with (tag_class, is_constructed, tag_number) of the child's tag: _pack_asn1 receives {got}")
        oke = len(exts) == 1 and len(packs) == 1 and len(t.cast(ast.Call, exts[0].tree).args) == 1 and ps.key(t.cast(ast.Call, exts[0].tree).args[0]) == ps.key(packs[0].tree)
        chk.ob("O5", Site.of(ex, exts[0].node if exts else None, None if exts else "__exit__ append"), bool(oke), "appended to the parent exactly once" if oke else "the wrapped TLV is not appended to the parent's buffer exactly once")
    chk.ob("O5", Site.of(ex, construct="__exit__ of a child writer"), n_flush >= 1, "a path for child writers exists" if n_flush else "__exit__ has no path on which a child writer (parent and tag set) flushes")
    gd = cls.methods["get_data"]
    okg = any(isinstance(n, ast.If) and unparse(n.test) == "self._parent or self._tag" and any(isinstance(x, ast.Raise) for x in n.body) for n in body_nodes(gd.node))
    chk.ob("O5", Site.of(gd, construct="get_data refuses child writers"), okg, "only the root writer hands out data")
    en = cls.methods["__enter__"]
    oken = any(isinstance(n, ast.Return) and unparse(n.value) == "self" for n in body_nodes(en.node))
    chk.ob("O5", Site.of(en, construct="__enter__ returns self"), oken, "with-statement binds the child writer")


def _implied(conds: t.Any) -> t.Any:
    from .c11 import implied

    return implied(conds)
