"""Reference layout tables (transcribed from the specifications) and their comparison with
extracted writer tables.  The reference is written with the constructors below and is the
independent oracle of the *-O2 obligations ("writer table = reference table")."""

from __future__ import annotations

import typing as t

from sa.sym import Lin, Seg, mod


def F(path: str) -> Lin:
    return Lin.atom(("field", path))


def LEN(path: str) -> Lin:
    return Lin.atom(("len", path))


def ENCLEN(path: str, enc: str = "utf-16-le") -> Lin:
    return Lin.atom(("enclen", path, enc))


Sig = t.Tuple[t.Any, ...]


def INT(value: t.Union[Lin, int], width: t.Union[int, Lin], order: str = "little", signed: bool = False) -> t.List[Sig]:
    w = Lin.of(width)
    return [("int", repr(Lin.of(value)), repr(w), "-" if w == 1 else order, bool(signed))]


def LIT(hexstr: str) -> t.List[Sig]:
    return [("lit", hexstr.replace(" ", "").lower())]


def RAW(path: str) -> t.List[Sig]:
    return [("raw", path, repr(LEN(path)))]


def UUID(path: str, form: str = "bytes_le") -> t.List[Sig]:
    return [("uuid", path, form)]


def STR(path: str, enc: str = "utf-16-le") -> t.List[Sig]:
    return [("str", path, enc)]


def STRZ(path: str, enc: str = "utf-16-le") -> t.List[Sig]:
    term = "\0".encode(enc).hex()
    return [("str", path, enc), ("lit", term)]


def LENZ(path: str, enc: str = "utf-16-le") -> Lin:
    return ENCLEN(path, enc) + len("\0".encode(enc))


def PAD(modulus: int, length: Lin) -> t.List[Sig]:
    """Zero padding that aligns `length` up to a multiple of `modulus`."""
    w = mod(-length, modulus)
    if w.is_const():
        return [("lit", "00" * w.const)]
    return [("pad", repr(w))]


def NESTED(path: str, cls: str) -> t.List[Sig]:
    return [("nested", path, cls)]


def REPEAT(over: str, count: Lin, body: t.List[Sig]) -> t.List[Sig]:
    return [("repeat", over, repr(count), tuple(_merge(body)))]


def ENUM(path: str, mapping: t.Dict[str, str]) -> t.List[Sig]:
    return [("enum", path, tuple(sorted((k, v.replace(" ", "").lower()) for k, v in mapping.items())))]


def cat(*parts: t.List[Sig]) -> t.List[Sig]:
    out: t.List[Sig] = []
    for p in parts:
        out += p
    return _merge(out)


def _merge(sigs: t.List[Sig]) -> t.List[Sig]:
    out: t.List[Sig] = []
    for s in sigs:
        if s[0] == "lit" and s[1] == "":
            continue
        if s[0] == "lit" and out and out[-1][0] == "lit":
            out[-1] = ("lit", out[-1][1] + s[1])
        else:
            out.append(s)
    return out


def sig_of(seg: Seg) -> t.List[Sig]:
    k = seg.kind
    if k == "int":
        return INT(seg.value, seg.width, seg.order, seg.signed)
    if k == "lit":
        return [("lit", seg.value.hex())]
    if k == "raw":
        return [("raw", seg.ref.path, repr(seg.width))]
    if k == "uuid":
        return [("uuid", seg.ref.path, seg.form)]
    if k == "str":
        return [("str", seg.ref.path, seg.enc)]
    if k == "pad":
        if seg.byte != b"\x00":
            return [("pad", repr(seg.width), seg.byte.hex())]
        return [("pad", repr(seg.width))]
    if k == "nested":
        return [("nested", seg.ref.path, seg.cls.name)]
    if k == "repeat":
        return [("repeat", seg.over, repr(seg.count), tuple(sigs_of(seg.body)))]
    if k == "enum":
        return [("enum", seg.ref.path, tuple(sorted((kk, vv.hex()) for kk, vv in seg.mapping.items())))]
    return [(k, repr(seg.describe()))]


def sigs_of(segs: t.List[Seg]) -> t.List[Sig]:
    out: t.List[Sig] = []
    for s in segs:
        out += sig_of(s)
    return _merge(out)


def first_difference(got: t.List[Sig], want: t.List[Sig]) -> t.Optional[str]:
    for i, (g, w) in enumerate(zip(got, want)):
        if g != w:
            return f"segment {i}: code writes {g}, the specification says {w}"
    if len(got) != len(want):
        extra = got[len(want) :] or want[len(got) :]
        side = "code writes extra" if len(got) > len(want) else "code lacks"
        return f"segment {min(len(got), len(want))}: {side} {extra[0]}"
    return None
