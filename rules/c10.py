"""C10 - KeyCache is transparent under any history/interleaving and avoids repeat RPCs."""

from __future__ import annotations

import ast
import typing as t

from sa import ordertab, twins
from sa.cfg import build
from sa.flow import ReachingDefs
from sa.load import AnalysisError, Func, Repo, body_nodes, unparse
from sa.report import Check, Site

ROLES = ["l1", "l2"]


def lex_table(pred: ast.expr, fa: t.Dict[str, str], fb: t.Dict[str, str], free_atoms: t.Sequence[str] = ()) -> t.List[t.Tuple[int, int, t.Tuple[bool, ...], bool]]:
    """Truth table of `pred` over the 9 sign vectors (A.l1 ? B.l1, A.l2 ? B.l2) and all values of free atoms."""
    import itertools

    rows = []
    atoms_found: t.List[str] = []

    def collect(e: ast.expr) -> None:
        if isinstance(e, ast.BoolOp):
            for v in e.values:
                collect(v)
        elif isinstance(e, ast.UnaryOp) and isinstance(e.op, ast.Not):
            collect(e.operand)
        elif isinstance(e, ast.Compare):
            names = {unparse(e.left)} | {unparse(c) for c in e.comparators}
            if not (names & (set(fa) | set(fb))) or not all(unparse(x) in set(fa) | set(fb) for x in [e.left] + list(e.comparators)):
                if unparse(e) not in atoms_found:
                    atoms_found.append(unparse(e))
        else:
            if unparse(e) not in atoms_found:
                atoms_found.append(unparse(e))

    collect(pred)
    for vec in ordertab.vectors(ROLES):
        for combo in itertools.product((False, True), repeat=len(atoms_found)):
            val_of = dict(zip(atoms_found, combo))
            sign = ordertab.pair_sign(fa, fb, vec)

            def atoms(e: ast.expr) -> t.Optional[bool]:
                return val_of.get(unparse(e))

            def sign2(a: ast.expr, b: ast.expr) -> t.Optional[int]:
                s = sign(a, b)
                return s

            # comparisons that are free atoms must be looked up before sign evaluation
            class Pre(ast.NodeTransformer):
                def visit_Compare(self, node: ast.Compare) -> ast.AST:
                    if unparse(node) in val_of:
                        return ast.Constant(value=val_of[unparse(node)])
                    return node

            import copy

            p2 = Pre().visit(copy.deepcopy(pred))

            def atoms2(e: ast.expr) -> t.Optional[bool]:
                if isinstance(e, ast.Constant) and isinstance(e.value, bool):
                    return e.value
                return val_of.get(unparse(e))

            rows.append((vec["l1"], vec["l2"], combo, ordertab.eval_pred(p2, sign2, atoms2)))
    return rows


def run(repo: Repo, chk: Check) -> None:
    chk.scope_decides = (
        "the invariant each cache operation must preserve: O1 _get_key returns the stored envelope iff its position is >=lex the requested one "
        "(truth table over the 9 sign vectors, for every value of any other atom in the test); O2 every non-None return of _get_key is that "
        "covering envelope or the freshly built root-key envelope at (31, 31), which is also what gets stored; O3 _store_key overwrites iff there "
        "is no entry or the new position is >lex the stored one; O4 in the four API functions the RPC is guarded by a cache miss for the same "
        "(sd, root key, L0, L1, L2), the store is guarded by 'not a public key' on every path, and the sync/async pairs are twins; O5 KeyCache "
        "methods contain no await/yield, so each runs atomically under asyncio."
    )
    chk.scope_not = "value-level transparency over whole histories; OS-thread races."
    chk.trusted = ["C02 (key derivation from covering material)", "asyncio runs a coroutine without preemption between awaits"]
    get_key(repo, chk)
    store_key(repo, chk)
    api_discipline(repo, chk)
    atomic(repo, chk)
    # "each call terminates ... same plaintext": the derivation from whatever covering envelope the cache hands out (C02)
    from .c02 import l2_obligations

    l2_obligations(repo, chk)


def get_key(repo: Repo, chk: Check) -> None:
    f = repo.method("_client.KeyCache", "_get_key")
    chk.analysed(f)
    g = build(f.node)
    rd = ReachingDefs(f, g)
    rets = sorted([n for n in body_nodes(f.node) if isinstance(n, ast.Return)], key=lambda n: n.lineno)
    cached_returns = 0
    root_returns = 0
    for r in rets:
        v = r.value
        site = Site.of(f, r)
        if v is None or (isinstance(v, ast.Constant) and v.value is None):
            continue
        nid = g.first_of_stmt.get(r)
        guards = g.guards_of(nid) if nid is not None else []
        if isinstance(v, ast.Name):
            ds = rd.reaching(v.id, r)
            if len(ds) == 1 and ds[0].value is not None and isinstance(ds[0].value, ast.Call) and unparse(ds[0].value.func) == "GroupKeyEnvelope":
                root_returns += 1
                ctor = ds[0].value
                kws = {k.arg: k.value for k in ctor.keywords if k.arg}
                ok31 = all(k in kws and repo.try_fold(kws[k], f.mod) == (True, 31) for k in ("l1", "l2"))
                chk.ob("O2", site, ok31, "root-key envelope built at (31, 31): it covers every position of the L0 interval" if ok31 else f"the envelope built from the root key is at ({unparse(kws.get('l1'))}, {unparse(kws.get('l2'))}), not (31, 31)")
                okl0 = "l0" in kws and unparse(kws["l0"]) == "l0"
                chk.ob("O2", site, okl0, "for the requested L0" if okl0 else "root-key envelope is not built for the requested L0")
                lk = kws.get("l1_key")
                d1 = rd.single_def(unparse(lk), ctor) if isinstance(lk, ast.Name) else None
                okk = d1 is not None and isinstance(d1.value, ast.Call) and unparse(d1.value.func) == "compute_l1_key"
                chk.ob("O2", site, okk, "its L1 seed is compute_l1_key(target_sd, root_key_id, l0, ...)" if okk else "root-key envelope l1_key is not the compute_l1_key result")
                okroot = any(unparse(c) == "root_key" and pol for c, pol in guards)
                chk.ob("O2", site, okroot, "only when the root key is loaded")
                continue
            # a value read back from the cache: must be returned under the cover predicate
            cover = [(c, pol) for c, pol in guards if isinstance(c, (ast.BoolOp, ast.Compare)) or unparse(c) == v.id]
            del cover
            truthy = any(unparse(c) == v.id and pol for c, pol in guards)
            enclosing = [n for n in body_nodes(f.node) if isinstance(n, ast.If) and any(x is r for x in n.body)]
            preds = []
            if enclosing:
                test = enclosing[0].test
                conj = list(test.values) if isinstance(test, ast.BoolOp) and isinstance(test.op, ast.And) else [test]
                preds = [c for c in conj if unparse(c) != v.id]
            if not preds:
                chk.ob("O1", site, False, f"{v.id} is returned from the cache without a position test")
                continue
            cached_returns += 1
            pred = preds[0] if len(preds) == 1 else ast.BoolOp(op=ast.And(), values=preds)
            fa = {f"{v.id}.l1": "l1", f"{v.id}.l2": "l2"}
            fb = {"l1": "l1", "l2": "l2"}
            try:
                rows = lex_table(pred, fa, fb)
            except ordertab.NotOrderPredicate as e:
                chk.ob("O1", site, False, f"cover test contains '{e}' which is not a comparison of stored and requested position")
                continue
            bad = []
            for a, b, combo, val in rows:
                covers = ordertab.lex_cmp({"l1": a, "l2": b}, ROLES) >= 0
                if val != covers:
                    bad.append(f"stored {_w(a)} L1 / {_w(b)} L2" + (f" with other conditions {combo}" if combo else "") + (": returned although it does not cover" if val else ": not returned although it covers (needless RPC)"))
            chk.table("_get_key cover truth table (sign l1, sign l2, atoms, returned)", rows)
            chk.ob("O1", site, not bad and truthy, "stored envelope returned iff its position is >=lex the requested one" if not bad and truthy else "; ".join(bad[:3]) or "missing presence test")
            continue
        chk.ob("O2", site, False, f"_get_key returns {unparse(v)[:80]}: neither the covering stored envelope nor the root-key envelope (a dict.setdefault/get result can be a stored non-covering envelope)")
    chk.ob("O1", Site.of(f, construct="cached return sites"), cached_returns >= 1, f"{cached_returns} cover-tested cache return(s)")
    chk.ob("O2", Site.of(f, construct="root key return sites"), root_returns >= 1, f"{root_returns} root-key envelope return(s)")
    # the root envelope is what gets stored: a subscript store of that name under [l0]
    stores = [n for n in body_nodes(f.node) if isinstance(n, ast.Assign) and isinstance(n.targets[0], ast.Subscript)]
    oks = any(unparse(s.targets[0].slice) == "l0" and isinstance(s.value, ast.Name) for s in stores)
    sd = [n for n in body_nodes(f.node) if isinstance(n, ast.Call) and isinstance(n.func, ast.Attribute) and n.func.attr == "setdefault" and len(n.args) == 2 and unparse(n.args[0]) == "l0"]
    chk.ob("O2", Site.of(f, stores[0] if stores else (sd[0] if sd else None), None if (stores or sd) else "store of the root envelope"), oks and not sd, "the covering root-key envelope replaces whatever was stored for this L0" if oks and not sd else "the root-key envelope is not stored with a plain assignment under [l0] (setdefault keeps a stored non-covering envelope)")
    # the lookup itself keys by (root_key_id, target_sd, l0)
    look = [n for n in body_nodes(f.node) if isinstance(n, ast.Assign) and isinstance(n.value, ast.Call) and isinstance(n.value.func, ast.Attribute) and n.value.func.attr == "get" and "_seed_keys" in unparse(n.value)]
    okk = bool(look) and all(k in unparse(look[0].value) for k in ("root_key_id", "target_sd")) and unparse(look[0].value.args[0]) == "l0"
    chk.ob("O1", Site.of(f, look[0] if look else None, None if look else "cache lookup"), okk, "lookup keyed by (root key id, target SD, L0)" if okk else "the cache lookup is not keyed by root key id, target SD and L0")


def _w(s: int) -> str:
    return {-1: "lower", 0: "equal", 1: "higher"}[s]


def store_key(repo: Repo, chk: Check) -> None:
    f = repo.method("_client.KeyCache", "_store_key")
    chk.analysed(f)
    g = build(f.node)
    stores = [n for n in body_nodes(f.node) if isinstance(n, ast.Assign) and isinstance(n.targets[0], ast.Subscript)]
    if len(stores) != 1:
        raise AnalysisError("_store_key: store statement changed")
    s = stores[0]
    site = Site.of(f, s)
    okt = unparse(s.targets[0].slice) == "key.l0" and unparse(s.value) == "key"
    chk.ob("O3", site, okt, "stores the envelope under its own L0" if okt else f"{unparse(s)}")
    nid = g.first_of_stmt.get(s)
    guards = g.guards_of(nid) if nid is not None else []
    ifs = [n for n in body_nodes(f.node) if isinstance(n, ast.If) and any(x is s for x in n.body)]
    if not ifs:
        chk.ob("O3", site, False, "the store is unconditional: an earlier position can replace a later one")
        return
    pred = ifs[0].test
    ex = [n for n in body_nodes(f.node) if isinstance(n, ast.Assign) and unparse(n.targets[0]) == "existing"]
    exname = "existing"
    fa = {"key.l1": "l1", "key.l2": "l2"}
    fb = {f"{exname}.l1": "l1", f"{exname}.l2": "l2"}
    try:
        rows = lex_table(pred, fa, fb)
    except ordertab.NotOrderPredicate as e:
        chk.ob("O3", Site.of(f, pred), False, f"store condition contains '{e}'")
        return
    bad = []
    for a, b, combo, val in rows:
        # free atom: "not existing" -> if no entry exists: must store; if exists: store iff strictly later
        names = [x for x in _free_atoms(pred, fa, fb)]
        env = dict(zip(names, combo))
        no_entry = env.get(f"not {exname}", False) or (env.get(exname) is False)
        later = ordertab.lex_cmp({"l1": a, "l2": b}, ROLES) > 0
        want = True if no_entry else later
        if val != want:
            bad.append(f"new envelope with {_w(a)} L1 / {_w(b)} L2 than the stored one is " + ("stored" if val else "dropped") + (" (no entry)" if no_entry else ""))
    chk.table("_store_key truth table", rows)
    chk.ob("O3", Site.of(f, pred), not bad, "overwrite iff no entry or new position >lex stored position" if not bad else "; ".join(sorted(set(bad))[:3]))
    okx = bool(ex) and "key.l0" in unparse(ex[0].value) and ".get(" in unparse(ex[0].value)
    chk.ob("O3", Site.of(f, ex[0] if ex else None, None if ex else "existing lookup"), okx, "compared with the entry stored for the same L0" if okx else "the existing entry is not looked up by key.l0")
    del guards


def _free_atoms(pred: ast.expr, fa: t.Dict[str, str], fb: t.Dict[str, str]) -> t.List[str]:
    out: t.List[str] = []

    def collect(e: ast.expr) -> None:
        if isinstance(e, ast.BoolOp):
            for v in e.values:
                collect(v)
        elif isinstance(e, ast.UnaryOp) and isinstance(e.op, ast.Not):
            collect(e.operand)
        elif isinstance(e, ast.Compare):
            if not all(unparse(x) in set(fa) | set(fb) for x in [e.left] + list(e.comparators)):
                if unparse(e) not in out:
                    out.append(unparse(e))
        else:
            if unparse(e) not in out:
                out.append(unparse(e))

    collect(pred)
    return out


API = {
    "_client.ncrypt_unprotect_secret": ("_sync_get_key", "unprotect"),
    "_client.async_ncrypt_unprotect_secret": ("_async_get_key", "unprotect"),
    "_client.ncrypt_protect_secret": ("_sync_get_key", "protect"),
    "_client.async_ncrypt_protect_secret": ("_async_get_key", "protect"),
}


def api_discipline(repo: Repo, chk: Check) -> None:
    for q, (rpc, kind) in API.items():
        f = repo.func(q)
        chk.analysed(f)
        g = build(f.node)
        rd = ReachingDefs(f, g)
        rpcs = [n for n in body_nodes(f.node) if isinstance(n, ast.Call) and unparse(n.func) == rpc]
        chk.count("rpc sites", len(rpcs))
        site = Site.of(f, rpcs[0] if rpcs else None, None if rpcs else f"{rpc} call")
        if len(rpcs) != 1:
            chk.ob("O4", site, False, f"{f.name} calls {rpc} {len(rpcs)} times")
            continue
        c = rpcs[0]
        nid = rd.node_of(c)
        guards = g.guards_of(nid) if nid is not None else []
        # rk = <cache lookup>; if not rk: rk = RPC
        tgt = [n for n in body_nodes(f.node) if isinstance(n, ast.Assign) and (n.value is c or (isinstance(n.value, ast.Await) and n.value.value is c))]
        rkname = unparse(tgt[0].targets[0]) if tgt else "rk"
        okg = any(unparse(e) == rkname and pol is False for e, pol in guards)
        chk.ob("O4", site, okg, "the RPC happens only on a cache miss" if okg else f"{rpc} is not guarded by 'not {rkname}': covered positions would contact the DC again")
        # the value tested is the cache lookup with the same key
        lookups = [d for d in rd.reaching(rkname, c) if d.value is not None]
        lk = lookups[0].value if len(lookups) == 1 else None
        if kind == "unprotect":
            oklk = isinstance(lk, ast.Call) and unparse(lk.func) == "cache._get_key" and [unparse(a) for a in lk.args] == [unparse(a) for a in c.args[1:6]]
            chk.ob("O4", site, bool(oklk), "cache asked for the same (sd, root key, L0, L1, L2) that the RPC would request" if oklk else f"the cache lookup {unparse(lk) if lk is not None else '?'} and the RPC {unparse(c)[:80]} do not name the same key")
        else:
            oklk = isinstance(lk, ast.Call) and unparse(lk.func) == "_get_protection_gke_from_cache" and len(lk.args) == 3 and unparse(lk.args[0]) == unparse(c.args[2]) and unparse(lk.args[1]) == unparse(c.args[1]) and unparse(lk.args[2]) == "cache"
            chk.ob("O4", site, bool(oklk), "cache asked first for the named root key and this SD" if oklk else f"protect does not consult the cache for the same root key / SD before the RPC ({unparse(lk) if lk is not None else '?'})")
        # store discipline: every _store_key is guarded by not is_public_key, exactly one, after the RPC branch, with (sd, rk)
        stores = [n for n in body_nodes(f.node) if isinstance(n, ast.Call) and unparse(n.func) == "cache._store_key"]
        ss = Site.of(f, stores[0] if stores else None, None if stores else "cache._store_key call")
        if len(stores) != 1:
            chk.ob("O4", ss, False, f"{len(stores)} _store_key calls")
            continue
        s = stores[0]
        sid = rd.node_of(s)
        sg = g.guards_of(sid) if sid is not None else []
        okp = any(unparse(e) == f"{rkname}.is_public_key" and pol is False for e, pol in sg)
        chk.ob("O4", ss, okp, "only seed-key envelopes are cached" if okp else "_store_key is not guarded by 'not rk.is_public_key': a public-key envelope would be served from the cache to callers who need seed keys")
        inside_miss = any(unparse(e) == rkname and pol is False for e, pol in sg)
        chk.ob("O4", ss, not inside_miss, "stored whichever way the key was obtained" if not inside_miss else "the store only happens on the RPC path")
        oka = len(s.args) == 2 and unparse(s.args[1]) == rkname and unparse(s.args[0]) == unparse(c.args[1])
        chk.ob("O4", ss, oka, "stored under the SD it was requested for" if oka else f"_store_key({', '.join(map(unparse, s.args))})")
        # the key is used after the store
        use = [n for n in body_nodes(f.node) if isinstance(n, ast.Call) and unparse(n.func) in ("_decrypt_blob", "_encrypt_blob")]
        oku = len(use) == 1 and sid is not None and rd.node_of(use[0]) is not None and not g.dominates(rd.node_of(use[0]), sid) and rkname in [unparse(a) for a in use[0].args]
        chk.ob("O4", Site.of(f, use[0] if use else None, None if use else "use of the key"), oku, "the obtained envelope is what en/decrypts" if oku else "the envelope used for en/decryption is not the one obtained/stored")
    chk.require_min("rpc sites", 4)
    names_s = {"lookup_dc": "LOOKUP", "_sync_get_key": "GETKEY"}
    names_a = {"async_lookup_dc": "LOOKUP", "_async_get_key": "GETKEY"}
    for a, b in (("_client.ncrypt_unprotect_secret", "_client.async_ncrypt_unprotect_secret"), ("_client.ncrypt_protect_secret", "_client.async_ncrypt_protect_secret")):
        d = twins.diff(repo, repo.func(a), repo.func(b), names_s, names_a)
        chk.ob("O4", Site.of(repo.func(b), construct=f"{a.split('.')[-1]} == {b.split('.')[-1]} modulo await"), d is None, "twins agree" if d is None else f"sync and async differ: '{d[0][:120]}' vs '{d[1][:120]}'")


def atomic(repo: Repo, chk: Check) -> None:
    cls = repo.cls("_client.KeyCache")
    # the API functions write `cache = cache or KeyCache()`: a caller's cache must never be falsy
    uses_or = []
    for q in API:
        f = repo.func(q)
        for n in body_nodes(f.node):
            if isinstance(n, ast.Assign) and unparse(n.targets[0]) == "cache":
                uses_or.append((f, n))
                v = n.value
                ok = isinstance(v, ast.BoolOp) and isinstance(v.op, ast.Or) and unparse(v.values[0]) == "cache" and unparse(v.values[1]) == "KeyCache()"
                ok = ok or (isinstance(v, ast.IfExp) and "cache is None" in unparse(v.test) or "cache is not None" in unparse(v))
                chk.ob("O4", Site.of(f, n), ok, "a caller supplied cache is kept, a fresh one is made only when none is given" if ok else f"cache is rebound as '{unparse(v)}'")
    falsy = [m for m in ("__len__", "__bool__") if any(m in c.methods for c in cls.mro())]
    by_or = any(isinstance(n.value, ast.BoolOp) for _, n in uses_or)
    chk.ob("O4", Site(cls.mod.rel, cls.qual, cls.node.lineno, "KeyCache truthiness"), not (falsy and by_or), "KeyCache objects are always truthy, so 'cache or KeyCache()' keeps the caller's cache" if not (falsy and by_or) else f"KeyCache defines {falsy}: an empty but shared cache is falsy, 'cache or KeyCache()' replaces it by a throw-away cache and nothing is ever retained (repeat RPCs)")
    for m in cls.methods.values():
        chk.analysed(m)
        bad = [n for n in body_nodes(m.node) if isinstance(n, (ast.Await, ast.Yield, ast.YieldFrom, ast.AsyncFor, ast.AsyncWith))]
        ok = not bad and not m.is_async
        chk.ob("O5", Site.of(m, bad[0] if bad else None, None if bad else f"KeyCache.{m.name}"), ok, "no suspension point: atomic under asyncio" if ok else f"KeyCache.{m.name} can suspend: another coroutine may observe or change the cache half way")
