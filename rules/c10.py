"""C10 - KeyCache is transparent under any history/interleaving and avoids repeat RPCs."""

from __future__ import annotations

import ast
import typing as t

from sa import ordertab, twins
from sa.cfg import build
from sa.flow import ReachingDefs
from sa.load import AnalysisError, Func, Repo, body_nodes, unparse
from sa.report import Check, Site

ROLES = ["l1", "l2"]


def lex_table(pred: ast.expr, fa: t.Dict[str, str], fb: t.Dict[str, str], free_atoms: t.Sequence[str] = ()) -> t.List[t.Tuple[int, int, t.Tuple[bool, ...], bool]]:
    """Truth table of `pred` over the 9 sign vectors (A.l1 ? B.l1, A.l2 ? B.l2) and all values of free atoms."""
    import itertools

    rows = []
    atoms_found: t.List[str] = []

    def collect(e: ast.expr) -> None:
        if isinstance(e, ast.BoolOp):
            for v in e.values:
                collect(v)
        elif isinstance(e, ast.UnaryOp) and isinstance(e.op, ast.Not):
            collect(e.operand)
        elif isinstance(e, ast.Compare):
            names = {unparse(e.left)} | {unparse(c) for c in e.comparators}
            if not (names & (set(fa) | set(fb))) or not all(unparse(x) in set(fa) | set(fb) for x in [e.left] + list(e.comparators)):
                if unparse(e) not in atoms_found:
                    atoms_found.append(unparse(e))
        else:
            if unparse(e) not in atoms_found:
                atoms_found.append(unparse(e))

    collect(pred)
    for vec in ordertab.vectors(ROLES):
        for combo in itertools.product((False, True), repeat=len(atoms_found)):
            val_of = dict(zip(atoms_found, combo))
            sign = ordertab.pair_sign(fa, fb, vec)

            def atoms(e: ast.expr) -> t.Optional[bool]:
                return val_of.get(unparse(e))

            def sign2(a: ast.expr, b: ast.expr) -> t.Optional[int]:
                s = sign(a, b)
                return s

            # comparisons that are free atoms must be looked up before sign evaluation
            class Pre(ast.NodeTransformer):
                def visit_Compare(self, node: ast.Compare) -> ast.AST:
                    if unparse(node) in val_of:
                        return ast.Constant(value=val_of[unparse(node)])
                    return node

            import copy

            p2 = Pre().visit(copy.deepcopy(pred))

            def atoms2(e: ast.expr) -> t.Optional[bool]:
                if isinstance(e, ast.Constant) and isinstance(e.value, bool):
                    return e.value
                return val_of.get(unparse(e))

            rows.append((vec["l1"], vec["l2"], combo, ordertab.eval_pred(p2, sign2, atoms2)))
    return rows


def run(repo: Repo, chk: Check) -> None:
    chk.scope_decides = (
        "the invariant each cache operation must preserve: O1 _get_key returns the stored envelope iff its position is >=lex the requested one "
        "(truth table over the 9 sign vectors, for every value of any other atom in the test); O2 every non-None return of _get_key is that "
        "covering envelope or the freshly built root-key envelope at (31, 31), which is also what gets stored; O3 _store_key overwrites iff there "
        "is no entry or the new position is >lex the stored one; O4 in the four API functions the RPC is guarded by a cache miss for the same "
        "(sd, root key, L0, L1, L2), the store is guarded by 'not a public key' on every path, the protect look-up reports a miss only when no root "
        "key is named or cache._get_key has nothing covering the current position, and the sync/async pairs are twins; O5 KeyCache "
        "methods contain no await/yield, so each runs atomically under asyncio."
    )
    chk.scope_not = "value-level transparency over whole histories; OS-thread races."
    chk.trusted = ["C02 (key derivation from covering material)", "asyncio runs a coroutine without preemption between awaits"]
    get_key(repo, chk)
    store_key(repo, chk)
    api_discipline(repo, chk)
    protect_lookup(repo, chk)
    atomic(repo, chk)
    # "each call terminates ... same plaintext": the derivation from whatever covering envelope the cache hands out (C02)
    from .c02 import l2_obligations

    l2_obligations(repo, chk)


def protect_lookup(repo: Repo, chk: Check) -> None:
    """_get_protection_gke_from_cache reports a miss (None -> the caller contacts the DC) only when no root key was
    named or cache._get_key has nothing covering the current position: on every path that returns None, the decisions
    taken are about those two values and nothing else."""
    from sa.pathsum import Summary

    f = repo.func("_client._get_protection_gke_from_cache")
    chk.analysed(f)
    summ = Summary(f, ["root_key_identifier", "target_sd", "cache"], prune=True)
    n = 0
    for ps in summ.returning():
        v = ps.value
        if not (v is None or isinstance(v, ast.Constant) and v.value is None):
            continue
        n += 1
        reasons: t.List[str] = []
        extra: t.List[str] = []
        for e, pol in ps.atoms():
            txt = ps.text(e)
            core = e
            isnone = False
            if isinstance(e, ast.Compare) and len(e.ops) == 1 and isinstance(e.comparators[0], ast.Constant) and e.comparators[0].value is None and isinstance(e.ops[0], (ast.Is, ast.IsNot)):
                core, isnone = e.left, True
                pol = pol if isinstance(e.ops[0], ast.IsNot) else not pol  # "is present"
            ctxt = ps.text(core)
            if ctxt == "root_key_identifier" or (isinstance(core, ast.Call) and ps.text(core.func) == "cache._get_key"):
                if not pol:
                    reasons.append(ctxt[:40])
                continue
            del isnone
            extra.append(("" if pol else "not ") + txt[:70])
        ok = bool(reasons) and not extra
        chk.ob("O4", Site.of(f, ps.exit_node, None if ps.exit_node is not None else "return None"), ok, f"a miss is reported because {' / '.join(reasons)} is empty" if ok else f"reports a cache miss (-> one more GetKey RPC) depending on {extra or 'nothing the cache said'}: seed keys already obtained for this root key are not consulted")
    chk.count("protect lookup miss paths", n)


def lookup_chain(e: ast.AST) -> t.Optional[t.Tuple[str, t.List[str]]]:
    """`base.setdefault(k1, {}).get(k2, None)[k3]`  ->  (base text, [k1, k2, k3]); None if e is not such a chain."""
    keys: t.List[str] = []
    cur = e
    while True:
        if isinstance(cur, ast.Subscript):
            keys.append(unparse(cur.slice))
            cur = cur.value
        elif isinstance(cur, ast.Call) and isinstance(cur.func, ast.Attribute) and cur.func.attr in ("get", "setdefault") and 1 <= len(cur.args) <= 2 and not cur.keywords:
            if len(cur.args) == 2 and not (isinstance(cur.args[1], ast.Dict) and not cur.args[1].keys or (isinstance(cur.args[1], ast.Constant) and cur.args[1].value is None)):
                return None
            keys.append(unparse(cur.args[0]))
            cur = cur.func.value
        else:
            break
    if not keys or not isinstance(cur, ast.Attribute):
        return None
    return unparse(cur), list(reversed(keys))


class _Abbrev(ast.NodeTransformer):
    """Replace dictionary look-ups by short names: {(base, (k1, k2, k3)): name}."""

    def __init__(self, table: t.Dict[t.Tuple[str, t.Tuple[str, ...]], str]) -> None:
        self.table = table

    def visit(self, node: ast.AST) -> t.Any:
        if isinstance(node, (ast.Call, ast.Subscript)) and isinstance(getattr(node, "ctx", ast.Load()), ast.Load):
            ch = lookup_chain(node)
            if ch is not None and (ch[0], tuple(ch[1])) in self.table:
                return ast.Name(id=self.table[(ch[0], tuple(ch[1]))], ctx=ast.Load())
        return self.generic_visit(node)


def _abbr(tree: t.Optional[ast.AST], table: t.Dict[t.Tuple[str, t.Tuple[str, ...]], str]) -> t.Optional[ast.AST]:
    import copy

    if tree is None:
        return None
    return _Abbrev(table).visit(copy.deepcopy(tree))


def _presence(e: ast.expr, name: str) -> t.Optional[bool]:
    """Is e a presence test of `name`?  -> the truth value of e when the entry exists (None: not a presence test)."""
    if isinstance(e, ast.Name) and e.id == name:
        return True
    if isinstance(e, ast.Compare) and len(e.ops) == 1 and isinstance(e.left, ast.Name) and e.left.id == name and isinstance(e.comparators[0], ast.Constant) and e.comparators[0].value is None:
        if isinstance(e.ops[0], (ast.IsNot, ast.NotEq)):
            return True
        if isinstance(e.ops[0], (ast.Is, ast.Eq)):
            return False
    return None


def _scenarios(paths: t.List[t.Any], table: t.Dict[t.Tuple[str, t.Tuple[str, ...]], str], entry: str, fa: t.Dict[str, str], fb: t.Dict[str, str]) -> t.Iterator[t.Tuple[t.Dict[str, int], bool, t.Dict[str, bool], t.List[t.Any]]]:
    """For every sign vector (entry position ? other position), entry present/absent and every valuation of the
    remaining (free) atoms: the paths whose decided conditions are all consistent with the scenario."""
    import itertools

    per_path: t.List[t.List[t.Tuple[ast.expr, bool]]] = []
    free: t.List[str] = []
    for ps in paths:
        atoms = [(t.cast(ast.expr, _abbr(ps.owner.renamed(e), table)), pol) for e, pol in ps.atoms()]
        per_path.append(atoms)
        for e, _ in atoms:
            if _presence(e, entry) is None and not _is_order(e, fa, fb):
                txt = unparse(e)
                if txt not in free:
                    free.append(txt)
    if len(free) > 6:
        raise AnalysisError(f"too many independent conditions to enumerate: {free}")
    for vec in ordertab.vectors(ROLES):
        sign = ordertab.pair_sign(fa, fb, vec)
        for exists in (True, False):
            for combo in itertools.product((False, True), repeat=len(free)):
                val = dict(zip(free, combo))
                feas = []
                for ps, atoms in zip(paths, per_path):
                    ok = True
                    for e, pol in atoms:
                        pr = _presence(e, entry)
                        if pr is not None:
                            v = pr if exists else not pr
                        elif _is_order(e, fa, fb):
                            if not exists:
                                v = None  # the entry's position is read although there is no entry
                            else:
                                v = ordertab.eval_pred(e, sign, None)
                        else:
                            v = val[unparse(e)]
                        if v is None:
                            ok = False
                            break
                        if v != pol:
                            ok = False
                            break
                    if ok:
                        feas.append(ps)
                yield vec, exists, val, feas


def _is_order(e: ast.expr, fa: t.Dict[str, str], fb: t.Dict[str, str]) -> bool:
    if not isinstance(e, ast.Compare):
        return False
    names = set(fa) | set(fb)

    def leaf_ok(x: ast.expr) -> bool:
        if isinstance(x, (ast.Tuple, ast.List)):
            return all(leaf_ok(y) for y in x.elts)
        return unparse(x) in names

    return all(leaf_ok(x) for x in [e.left] + list(e.comparators))


def get_key(repo: Repo, chk: Check) -> None:
    from sa.pathsum import Summary

    from .util import args_of

    f = repo.method("_client.KeyCache", "_get_key")
    chk.analysed(f)
    summ = Summary(f, ["self", "target_sd", "root_key_id", "l0", "l1", "l2"])
    table = {("self._seed_keys", ("root_key_id", "target_sd", "l0")): "E", ("self._root_keys", ("root_key_id",)): "R"}
    fa = {"E.l1": "l1", "E.l2": "l2"}
    fb = {"l1": "l1", "l2": "l2"}
    rets = summ.returning()
    if not rets:
        raise AnalysisError("_get_key: no returning path")

    def outcome(ps: t.Any) -> str:
        v = _abbr(ps.owner.renamed(ps.value), table)
        if isinstance(v, ast.Constant) and v.value is None:
            return "none"
        if isinstance(v, ast.Name) and v.id == "E":
            return "stored"
        if isinstance(v, ast.Call) and unparse(v.func) == "GroupKeyEnvelope":
            return "root"
        return "other"

    bad: t.List[str] = []
    bad_root: t.List[str] = []
    rows = []
    kinds = set()
    try:
        for vec, exists, val, feas in _scenarios(rets, table, "E", fa, fb):
            outs = sorted({outcome(p) for p in feas})
            kinds |= set(outs)
            rows.append((vec["l1"], vec["l2"], exists, tuple(sorted(val.items())), outs))
            where = f"stored {_w(vec['l1'])} L1 / {_w(vec['l2'])} L2" if exists else "no entry stored"
            if not feas:
                if exists or vec == {"l1": 0, "l2": 0}:
                    bad.append(f"{where}: no path of _get_key is consistent with this case (an exception escapes, e.g. the position of a missing entry is read)")
                continue
            covers = exists and ordertab.lex_cmp(vec, ROLES) >= 0
            if covers and outs != ["stored"]:
                bad.append(f"{where}: not returned although it covers (needless RPC / a non-covering answer {outs})")
            if not covers and "stored" in outs:
                bad.append(f"{where}: returned although it does not cover")
            # the loaded root key covers every position: with it in the cache a non-covered request is never a miss
            if not covers and val.get("R") is not False and "none" in outs:
                bad_root.append(f"{where}, root key loaded: _get_key reports a miss although the loaded root key covers every position of the L0 (the stored entry shadows it)")
    except ordertab.NotOrderPredicate as e:
        bad.append(f"cover test contains '{e}' which is not a comparison of stored and requested position")
    chk.table("_get_key outcome table (sign l1, sign l2, entry present, other atoms, outcomes)", rows)
    site1 = Site.of(f, construct="_get_key: stored envelope returned iff it covers")
    chk.ob("O1", site1, not bad, "stored envelope returned iff its position is >=lex the requested one (all sign vectors x entry present/absent x other conditions)" if not bad else "; ".join(sorted(set(bad))[:3]))
    chk.ob("O2", Site.of(f, construct="_get_key: the loaded root key answers whatever is stored"), not bad_root, "with the root key loaded every request not covered by the stored entry is answered from the root key (all sign vectors x entry present/absent)" if not bad_root else "; ".join(sorted(set(bad_root))[:3]))
    chk.ob("O1", Site.of(f, construct="cached return sites"), "stored" in kinds, "a covering stored envelope is served from the cache" if "stored" in kinds else "no path returns the stored envelope: every call goes to the DC")
    chk.ob("O1", Site.of(f, construct="cache lookup"), "stored" in kinds, "lookup keyed by (root key id, target SD, L0)" if "stored" in kinds else "the cache lookup is not keyed by root key id, target SD and L0")
    root_returns = 0
    for ps in rets:
        o = outcome(ps)
        site = Site.of(f, ps.exit_node)
        if o == "other":
            chk.ob("O2", site, False, f"_get_key returns {ps.text(ps.value)[:80]}: neither the covering stored envelope nor the root-key envelope (a dict.setdefault/get result can be a stored non-covering envelope)")
        if o != "root":
            continue
        root_returns += 1
        ctor = t.cast(ast.Call, ps.value)
        kws = args_of(repo, f, ctor)
        ok31 = all(k in kws and repo.try_fold(kws[k], f.mod) == (True, 31) for k in ("l1", "l2"))
        chk.ob("O2", site, ok31, "root-key envelope built at (31, 31): it covers every position of the L0 interval" if ok31 else f"the envelope built from the root key is at ({ps.text(kws.get('l1'))}, {ps.text(kws.get('l2'))}), not (31, 31)")
        okl0 = "l0" in kws and ps.text(kws["l0"]) == "l0"
        chk.ob("O2", site, okl0, "for the requested L0" if okl0 else "root-key envelope is not built for the requested L0")
        lk = kws.get("l1_key")
        c1 = ps.calls("compute_l1_key")
        okk = lk is not None and len(c1) == 1 and ps.key(lk) == ps.key(c1[0].tree)
        chk.ob("O2", site, okk, "its L1 seed is compute_l1_key(target_sd, root_key_id, l0, ...)" if okk else "root-key envelope l1_key is not the compute_l1_key result")
        atoms = [(unparse(_abbr(ps.owner.renamed(e), table)), pol) for e, pol in ps.atoms()]
        okroot = ("R", True) in atoms or ("R is not None", True) in atoms or ("R is None", False) in atoms
        chk.ob("O2", site, okroot, "only when the root key is loaded")
        # the root envelope is what gets stored for this L0 (plain store: it replaces a non-covering entry)
        st = [e for e in ps.stores() if (lookup_chain(ps.owner.renamed(e.target)) or ("", []))[1] == ["root_key_id", "target_sd", "l0"] and (lookup_chain(ps.owner.renamed(e.target)) or ("", []))[0] == "self._seed_keys"]
        oks = len(st) == 1 and ps.key(st[0].tree) == ps.key(ctor)
        chk.ob("O2", Site.of(f, st[0].node if st else ps.exit_node, None if st else "store of the root envelope"), oks, "the covering root-key envelope replaces whatever was stored for this L0" if oks else "the root-key envelope is not stored with a plain assignment under [root key id][SD][l0] (setdefault keeps a stored non-covering envelope)")
    chk.ob("O2", Site.of(f, construct="root key return sites"), root_returns >= 1, f"{root_returns} root-key envelope return path(s)")


def _w(s: int) -> str:
    return {-1: "lower", 0: "equal", 1: "higher"}[s]


# set by store_key: _store_key itself refuses public-key envelopes (then the call sites need no guard of their own)
STORE_DROPS_PUBLIC = [False]


def store_key(repo: Repo, chk: Check) -> None:
    from sa.pathsum import Summary

    f = repo.method("_client.KeyCache", "_store_key")
    chk.analysed(f)
    summ = Summary(f, ["self", "target_sd", "key"])
    table = {("self._seed_keys", ("key.root_key_identifier", "target_sd", "key.l0")): "X"}
    fa = {"key.l1": "l1", "key.l2": "l2"}
    fb = {"X.l1": "l1", "X.l2": "l2"}
    rets = summ.returning()
    if not rets:
        raise AnalysisError("_store_key: no returning path")

    def stored(ps: t.Any) -> t.Optional[bool]:
        st = [e for e in ps.stores() if (lookup_chain(ps.owner.renamed(e.target)) or ("", []))[0] == "self._seed_keys"]
        if not st:
            return False
        if len(st) == 1 and (lookup_chain(ps.owner.renamed(st[0].target)) or ("", []))[1] == ["key.root_key_identifier", "target_sd", "key.l0"] and ps.text(st[0].tree) == "key":
            return True
        return None

    bad: t.List[str] = []
    rows = []
    any_store = False
    seen_pub: t.Set[bool] = set()
    pub_leaks: t.List[str] = []
    try:
        for vec, exists, val, feas in _scenarios(rets, table, "X", fa, fb):
            outs = {stored(p) for p in feas}
            rows.append((vec["l1"], vec["l2"], exists, tuple(sorted(val.items())), sorted(map(str, outs))))
            if not exists and vec != {"l1": 0, "l2": 0}:
                continue  # without an entry the sign vector is meaningless: one representative
            where = f"new envelope with {_w(vec['l1'])} L1 / {_w(vec['l2'])} L2 than the stored one" if exists else "no entry stored"
            if not feas:
                bad.append(f"{where}: no path of _store_key is consistent with this case (an exception escapes)")
                continue
            if None in outs:
                bad.append(f"{where}: the store is not 'entry[root key id][SD][key.l0] = key'")
                continue
            want = True if not exists else ordertab.lex_cmp(vec, ROLES) > 0
            pub = [v_ for k_, v_ in val.items() if k_.replace(" ", "") in ("key.is_public_key", "notkey.is_public_key")]
            if pub:
                seen_pub.add(True)
                if (pub[0] is True) == ("not" not in [k_ for k_ in val if "is_public_key" in k_][0]):
                    # a public-key envelope: never cached (the guard may live here instead of at the four call sites)
                    if outs != {False}:
                        pub_leaks.append(where)
                    continue
            any_store = any_store or True in outs
            if outs != {want}:
                bad.append(f"{where} is " + ("stored" if True in outs else "dropped") + (" (no entry)" if not exists else ""))
    except ordertab.NotOrderPredicate as e:
        bad.append(f"store condition contains '{e}'")
    chk.table("_store_key outcome table", rows)
    STORE_DROPS_PUBLIC[0] = bool(seen_pub) and not pub_leaks
    if pub_leaks:
        bad.append(f"a public-key envelope is stored ({pub_leaks[0]})")
    site = Site.of(f, construct="_store_key: overwrite iff no entry or later position")
    if not any_store and not bad:
        bad.append("no path stores the envelope")
    chk.ob("O3", site, not bad, "stores under its own (root key id, SD, L0); overwrite iff no entry or new position >lex stored position (all sign vectors x entry present/absent)" if not bad else "; ".join(sorted(set(bad))[:3]))


def _free_atoms(pred: ast.expr, fa: t.Dict[str, str], fb: t.Dict[str, str]) -> t.List[str]:
    out: t.List[str] = []

    def collect(e: ast.expr) -> None:
        if isinstance(e, ast.BoolOp):
            for v in e.values:
                collect(v)
        elif isinstance(e, ast.UnaryOp) and isinstance(e.op, ast.Not):
            collect(e.operand)
        elif isinstance(e, ast.Compare):
            if not all(unparse(x) in set(fa) | set(fb) for x in [e.left] + list(e.comparators)):
                if unparse(e) not in out:
                    out.append(unparse(e))
        else:
            if unparse(e) not in out:
                out.append(unparse(e))

    collect(pred)
    return out


API = {
    "_client.ncrypt_unprotect_secret": ("_sync_get_key", "unprotect"),
    "_client.async_ncrypt_unprotect_secret": ("_async_get_key", "unprotect"),
    "_client.ncrypt_protect_secret": ("_sync_get_key", "protect"),
    "_client.async_ncrypt_protect_secret": ("_async_get_key", "protect"),
}


def api_discipline(repo: Repo, chk: Check) -> None:
    for q, (rpc, kind) in API.items():
        f = repo.func(q)
        chk.analysed(f)
        g = build(f.node)
        rd = ReachingDefs(f, g)
        rpcs = [n for n in body_nodes(f.node) if isinstance(n, ast.Call) and unparse(n.func) == rpc]
        chk.count("rpc sites", len(rpcs))
        site = Site.of(f, rpcs[0] if rpcs else None, None if rpcs else f"{rpc} call")
        if len(rpcs) != 1:
            chk.ob("O4", site, False, f"{f.name} calls {rpc} {len(rpcs)} times")
            continue
        c = rpcs[0]
        nid = rd.node_of(c)
        guards = g.guards_of(nid) if nid is not None else []
        # rk = <cache lookup>; if not rk: rk = RPC
        tgt = [n for n in body_nodes(f.node) if isinstance(n, ast.Assign) and (n.value is c or (isinstance(n.value, ast.Await) and n.value.value is c))]
        rkname = unparse(tgt[0].targets[0]) if tgt else "rk"
        okg = any(unparse(e) == rkname and pol is False for e, pol in guards)
        chk.ob("O4", site, okg, "the RPC happens only on a cache miss" if okg else f"{rpc} is not guarded by 'not {rkname}': covered positions would contact the DC again")
        # the value tested is the cache lookup with the same key
        lookups = [d for d in rd.reaching(rkname, c) if d.value is not None]
        lk = lookups[0].value if len(lookups) == 1 else None
        from .util import args_of

        ra = {k: unparse(v) for k, v in args_of(repo, f, c).items()}
        if kind == "unprotect":
            la = {k: unparse(v) for k, v in args_of(repo, f, lk, ["target_sd", "root_key_id", "l0", "l1", "l2"]).items()} if isinstance(lk, ast.Call) else {}
            names = ["target_sd", "root_key_id", "l0", "l1", "l2"]
            oklk = isinstance(lk, ast.Call) and unparse(lk.func) == "cache._get_key" and all(n_ in la and la.get(n_) == ra.get(n_) for n_ in names)
            chk.ob("O4", site, bool(oklk), "cache asked for the same (sd, root key, L0, L1, L2) that the RPC would request" if oklk else f"the cache lookup {unparse(lk) if lk is not None else '?'} and the RPC {unparse(c)[:80]} do not name the same key")
        else:
            la = {k: unparse(v) for k, v in args_of(repo, f, lk).items()} if isinstance(lk, ast.Call) else {}
            oklk = isinstance(lk, ast.Call) and unparse(lk.func) == "_get_protection_gke_from_cache" and la.get("root_key_identifier") is not None and la.get("root_key_identifier") == ra.get("root_key_id") and la.get("target_sd") is not None and la.get("target_sd") == ra.get("target_sd") and la.get("cache") == "cache"
            chk.ob("O4", site, bool(oklk), "cache asked first for the named root key and this SD" if oklk else f"protect does not consult the cache for the same root key / SD before the RPC ({unparse(lk) if lk is not None else '?'})")
        # store discipline: every _store_key is guarded by not is_public_key, exactly one, after the RPC branch, with (sd, rk)
        stores = [n for n in body_nodes(f.node) if isinstance(n, ast.Call) and unparse(n.func) == "cache._store_key"]
        ss = Site.of(f, stores[0] if stores else None, None if stores else "cache._store_key call")
        if len(stores) != 1:
            chk.ob("O4", ss, False, f"{len(stores)} _store_key calls")
            continue
        s = stores[0]
        sid = rd.node_of(s)
        sg = g.guards_of(sid) if sid is not None else []
        okp = any(unparse(e) == f"{rkname}.is_public_key" and pol is False for e, pol in sg) or STORE_DROPS_PUBLIC[0]
        chk.ob("O4", ss, okp, "only seed-key envelopes are cached" if okp else "_store_key is not guarded by 'not rk.is_public_key': a public-key envelope would be served from the cache to callers who need seed keys")
        inside_miss = any(unparse(e) == rkname and pol is False for e, pol in sg)
        chk.ob("O4", ss, not inside_miss, "stored whichever way the key was obtained" if not inside_miss else "the store only happens on the RPC path")
        sa_ = {k: unparse(v) for k, v in args_of(repo, f, s, ["target_sd", "key"]).items()}
        oka = sa_.get("key") == rkname and sa_.get("target_sd") is not None and sa_.get("target_sd") == ra.get("target_sd")
        chk.ob("O4", ss, oka, "stored under the SD it was requested for" if oka else f"_store_key({', '.join(map(unparse, s.args))})")
        # the key is used after the store
        use = [n for n in body_nodes(f.node) if isinstance(n, ast.Call) and unparse(n.func) in ("_decrypt_blob", "_encrypt_blob")]
        oku = len(use) == 1 and sid is not None and rd.node_of(use[0]) is not None and not g.dominates(rd.node_of(use[0]), sid) and rkname in [unparse(a) for a in use[0].args]
        chk.ob("O4", Site.of(f, use[0] if use else None, None if use else "use of the key"), oku, "the obtained envelope is what en/decrypts" if oku else "the envelope used for en/decryption is not the one obtained/stored")
    chk.require_min("rpc sites", 4)
    names_s = {"lookup_dc": "LOOKUP", "_sync_get_key": "GETKEY"}
    names_a = {"async_lookup_dc": "LOOKUP", "_async_get_key": "GETKEY"}
    for a, b in (("_client.ncrypt_unprotect_secret", "_client.async_ncrypt_unprotect_secret"), ("_client.ncrypt_protect_secret", "_client.async_ncrypt_protect_secret")):
        d = twins.diff(repo, repo.func(a), repo.func(b), names_s, names_a)
        chk.ob("O4", Site.of(repo.func(b), construct=f"{a.split('.')[-1]} == {b.split('.')[-1]} modulo await"), d is None, "twins agree" if d is None else f"sync and async differ: '{d[0][:120]}' vs '{d[1][:120]}'")


def atomic(repo: Repo, chk: Check) -> None:
    cls = repo.cls("_client.KeyCache")
    # the API functions write `cache = cache or KeyCache()`: a caller's cache must never be falsy
    # (normal form: `if not cache: cache = KeyCache()`); decided on the guards of the rebinding
    from sa.flow import build as _build

    by_or = False
    for q in API:
        f = repo.func(q)
        g = _build(f.node)
        for n in body_nodes(f.node):
            if isinstance(n, ast.Assign) and unparse(n.targets[0]) == "cache":
                v = n.value
                nid = g.first_of_stmt.get(n)
                guards = [(unparse(c), pol) for c, pol in (g.guards_of(nid) if nid is not None else [])]
                truthy = ("cache", False) in guards or ("not cache", True) in guards
                isnone = ("cache is None", True) in guards or ("cache is not None", False) in guards
                ok = unparse(v) == "KeyCache()" and (truthy or isnone)
                by_or = by_or or truthy
                chk.ob("O4", Site.of(f, n), ok, "a caller supplied cache is kept, a fresh one is made only when none is given" if ok else f"cache is rebound as '{unparse(v)}' under {guards or 'no guard'}")
    falsy = [m for m in ("__len__", "__bool__") if any(m in c.methods for c in cls.mro())]
    chk.ob("O4", Site(cls.mod.rel, cls.qual, cls.node.lineno, "KeyCache truthiness"), not (falsy and by_or), "KeyCache objects are always truthy, so 'cache or KeyCache()' keeps the caller's cache" if not (falsy and by_or) else f"KeyCache defines {falsy}: an empty but shared cache is falsy, 'cache or KeyCache()' replaces it by a throw-away cache and nothing is ever retained (repeat RPCs)")
    for m in cls.methods.values():
        chk.analysed(m)
        bad = [n for n in body_nodes(m.node) if isinstance(n, (ast.Await, ast.Yield, ast.YieldFrom, ast.AsyncFor, ast.AsyncWith))]
        ok = not bad and not m.is_async
        chk.ob("O5", Site.of(m, bad[0] if bad else None, None if bad else f"KeyCache.{m.name}"), ok, "no suspension point: atomic under asyncio" if ok else f"KeyCache.{m.name} can suspend: another coroutine may observe or change the cache half way")
